#!/bin/bash
# Runs the repository's pinned test command with the verification guard OFF and
# compares the set of passing tests with /root/.vp/BASELINE.json (66 stable passes).
unset MIR_EVAL_VERIF
OUT=$(mktemp /tmp/pyvc-junit-XXXXXX.xml)
cd /repo && /venv/bin/python -m pytest -ra -q -p no:cacheprovider --timeout=900 --continue-on-collection-errors --junitxml=$OUT >/dev/null 2>&1
/venv/bin/python - "$OUT" <<'PY'
import sys, json, xml.etree.ElementTree as ET
base = set(json.load(open('/root/.vp/BASELINE.json'))['stable_pass'])
passed = set()
for tc in ET.parse(sys.argv[1]).getroot().iter('testcase'):
    if not any(ch.tag in ('failure', 'error', 'skipped') for ch in tc):
        passed.add('%s::%s' % (tc.get('classname'), tc.get('name')))
missing = sorted(base - passed)
print('baseline tests passing: %d/%d' % (len(base & passed), len(base)))
for m in missing: print('  MISSING', m)
sys.exit(1 if missing else 0)
PY
rc=$?
rm -f $OUT
exit $rc
