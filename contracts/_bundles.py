"""Oracle of C03: the documented bundle of every task's evaluate(), written from the module
documentation and the property statement as straight-line *direct calls*.

Vocabulary (interpreted symbolically by pyvc/engines/bundles.py and natively by its replay):
  direct(f, a1, .., an, p=v, ..)  call metric f directly on these annotations with the forced keywords p=v and with
                                  every other keyword of f that the user supplied (K restricted to f's own parameters)
  user(name, default)             the user's keyword `name`, or `default` when it was not given
  is_none(x)                      x is None
Each function returns the dict  metric-name -> scalar  that evaluate() must return.
(The file name starts with '_' so that the contract registry does not load it as a contract file.)
"""


def beat(reference_beats, estimated_beats):
    ref = direct(beat.trim_beats, reference_beats)
    est = direct(beat.trim_beats, estimated_beats)
    out = {}
    out["F-measure"] = direct(beat.f_measure, ref, est)
    out["Cemgil"], out["Cemgil Best Metric Level"] = direct(beat.cemgil, ref, est)
    out["Goto"] = direct(beat.goto, ref, est)
    out["P-score"] = direct(beat.p_score, ref, est)
    (out["Correct Metric Level Continuous"], out["Correct Metric Level Total"],
     out["Any Metric Level Continuous"], out["Any Metric Level Total"]) = direct(beat.continuity, ref, est)
    out["Information gain"] = direct(beat.information_gain, ref, est)
    return out


def onset(reference_onsets, estimated_onsets):
    out = {}
    out["F-measure"], out["Precision"], out["Recall"] = direct(onset.f_measure, reference_onsets, estimated_onsets)
    return out


def segment(ref_intervals, ref_labels, est_intervals, est_labels):
    ref_i, ref_l = util.adjust_intervals(ref_intervals, labels=ref_labels, t_min=0.0)
    est_i, est_l = util.adjust_intervals(est_intervals, labels=est_labels, t_min=0.0, t_max=ref_i.max())
    out = {}
    out["Precision@0.5"], out["Recall@0.5"], out["F-measure@0.5"] = direct(segment.detection, ref_i, est_i, window=0.5)
    out["Precision@3.0"], out["Recall@3.0"], out["F-measure@3.0"] = direct(segment.detection, ref_i, est_i, window=3.0)
    out["Ref-to-est deviation"], out["Est-to-ref deviation"] = direct(segment.deviation, ref_i, est_i)
    out["Pairwise Precision"], out["Pairwise Recall"], out["Pairwise F-measure"] = direct(segment.pairwise, ref_i, ref_l, est_i, est_l)
    out["Rand Index"] = direct(segment.rand_index, ref_i, ref_l, est_i, est_l)
    out["Adjusted Rand Index"] = direct(segment.ari, ref_i, ref_l, est_i, est_l)
    (out["Mutual Information"], out["Adjusted Mutual Information"],
     out["Normalized Mutual Information"]) = direct(segment.mutual_information, ref_i, ref_l, est_i, est_l)
    out["NCE Over"], out["NCE Under"], out["NCE F-measure"] = direct(segment.nce, ref_i, ref_l, est_i, est_l)
    out["V Precision"], out["V Recall"], out["V-measure"] = direct(segment.vmeasure, ref_i, ref_l, est_i, est_l)
    return out


def chord(ref_intervals, ref_labels, est_intervals, est_labels):
    est_i, est_l = util.adjust_intervals(est_intervals, est_labels, ref_intervals.min(), ref_intervals.max(),
                                         chord.NO_CHORD, chord.NO_CHORD)
    merged_ref = chord.merge_chord_intervals(ref_intervals, ref_labels)
    merged_est = chord.merge_chord_intervals(est_i, est_l)
    intervals, rl, el = util.merge_labeled_intervals(ref_intervals, ref_labels, est_i, est_l)
    durations = util.intervals_to_durations(intervals)
    out = {}
    out["thirds"] = chord.weighted_accuracy(chord.thirds(rl, el), durations)
    out["thirds_inv"] = chord.weighted_accuracy(chord.thirds_inv(rl, el), durations)
    out["triads"] = chord.weighted_accuracy(chord.triads(rl, el), durations)
    out["triads_inv"] = chord.weighted_accuracy(chord.triads_inv(rl, el), durations)
    out["tetrads"] = chord.weighted_accuracy(chord.tetrads(rl, el), durations)
    out["tetrads_inv"] = chord.weighted_accuracy(chord.tetrads_inv(rl, el), durations)
    out["root"] = chord.weighted_accuracy(chord.root(rl, el), durations)
    out["mirex"] = chord.weighted_accuracy(chord.mirex(rl, el), durations)
    out["majmin"] = chord.weighted_accuracy(chord.majmin(rl, el), durations)
    out["majmin_inv"] = chord.weighted_accuracy(chord.majmin_inv(rl, el), durations)
    out["sevenths"] = chord.weighted_accuracy(chord.sevenths(rl, el), durations)
    out["sevenths_inv"] = chord.weighted_accuracy(chord.sevenths_inv(rl, el), durations)
    out["underseg"] = chord.underseg(merged_ref, merged_est)
    out["overseg"] = chord.overseg(merged_ref, merged_est)
    out["seg"] = min(out["overseg"], out["underseg"])
    return out


def melody(ref_time, ref_freq, est_time, est_freq, est_voicing, ref_reward):
    ref_v, ref_c, est_v, est_c = direct(melody.to_cent_voicing, ref_time, ref_freq, est_time, est_freq, est_voicing=est_voicing, ref_reward=ref_reward)
    out = {}
    out["Voicing Recall"] = direct(melody.voicing_recall, ref_v, est_v)
    out["Voicing False Alarm"] = direct(melody.voicing_false_alarm, ref_v, est_v)
    out["Raw Pitch Accuracy"] = direct(melody.raw_pitch_accuracy, ref_v, ref_c, est_v, est_c)
    out["Raw Chroma Accuracy"] = direct(melody.raw_chroma_accuracy, ref_v, ref_c, est_v, est_c)
    out["Overall Accuracy"] = direct(melody.overall_accuracy, ref_v, ref_c, est_v, est_c)
    return out


def multipitch(ref_time, ref_freqs, est_time, est_freqs):
    out = {}
    (out["Precision"], out["Recall"], out["Accuracy"], out["Substitution Error"], out["Miss Error"],
     out["False Alarm Error"], out["Total Error"], out["Chroma Precision"], out["Chroma Recall"], out["Chroma Accuracy"],
     out["Chroma Substitution Error"], out["Chroma Miss Error"], out["Chroma False Alarm Error"],
     out["Chroma Total Error"]) = direct(multipitch.metrics, ref_time, ref_freqs, est_time, est_freqs)
    return out


def multipitch_metrics(ref_time, ref_freqs, est_time, est_freqs):
    """multipitch.metrics as the documented composition of its public helpers: the estimate is resampled when the time bases differ, raw and
    chroma counts both use the caller's `window` (chroma=True forced for the second), the seven scores come from the same counts"""
    multipitch.validate(ref_time, ref_freqs, est_time, est_freqs)
    if est_time.size != ref_time.size or not numpy.allclose(est_time, ref_time):
        warnings.warn("Estimate times not equal to reference times. Resampling to common time base.")
        est_freqs = multipitch.resample_multipitch(est_time, est_freqs, ref_time)
    ref_midi = multipitch.frequencies_to_midi(ref_freqs)
    est_midi = multipitch.frequencies_to_midi(est_freqs)
    ref_chroma = multipitch.midi_to_chroma(ref_midi)
    est_chroma = multipitch.midi_to_chroma(est_midi)
    n_ref = multipitch.compute_num_freqs(ref_midi)
    n_est = multipitch.compute_num_freqs(est_midi)
    tp = direct(multipitch.compute_num_true_positives, ref_midi, est_midi)
    tpc = direct(multipitch.compute_num_true_positives, ref_chroma, est_chroma, chroma=True)
    p, r, a = multipitch.compute_accuracy(tp, n_ref, n_est)
    es, em, ef, et = multipitch.compute_err_score(tp, n_ref, n_est)
    pc, rc, ac = multipitch.compute_accuracy(tpc, n_ref, n_est)
    esc, emc, efc, etc = multipitch.compute_err_score(tpc, n_ref, n_est)
    return (p, r, a, es, em, ef, et, pc, rc, ac, esc, emc, efc, etc)


def transcription(ref_intervals, ref_pitches, est_intervals, est_pitches):
    out = {}
    ratio = user("offset_ratio", 0.2)
    if not is_none(ratio):
        (out["Precision"], out["Recall"], out["F-measure"], out["Average_Overlap_Ratio"]) = direct(
            transcription.precision_recall_f1_overlap, ref_intervals, ref_pitches, est_intervals, est_pitches, offset_ratio=ratio)
    (out["Precision_no_offset"], out["Recall_no_offset"], out["F-measure_no_offset"],
     out["Average_Overlap_Ratio_no_offset"]) = direct(
        transcription.precision_recall_f1_overlap, ref_intervals, ref_pitches, est_intervals, est_pitches, offset_ratio=None)
    out["Onset_Precision"], out["Onset_Recall"], out["Onset_F-measure"] = direct(
        transcription.onset_precision_recall_f1, ref_intervals, est_intervals)
    if not is_none(ratio):
        out["Offset_Precision"], out["Offset_Recall"], out["Offset_F-measure"] = direct(
            transcription.offset_precision_recall_f1, ref_intervals, est_intervals, offset_ratio=ratio)
    return out


def transcription_velocity(ref_intervals, ref_pitches, ref_velocities, est_intervals, est_pitches, est_velocities):
    out = {}
    ratio = user("offset_ratio", 0.2)
    if not is_none(ratio):
        (out["Precision"], out["Recall"], out["F-measure"], out["Average_Overlap_Ratio"]) = direct(
            transcription_velocity.precision_recall_f1_overlap, ref_intervals, ref_pitches, ref_velocities,
            est_intervals, est_pitches, est_velocities, offset_ratio=ratio)
    (out["Precision_no_offset"], out["Recall_no_offset"], out["F-measure_no_offset"],
     out["Average_Overlap_Ratio_no_offset"]) = direct(
        transcription_velocity.precision_recall_f1_overlap, ref_intervals, ref_pitches, ref_velocities,
        est_intervals, est_pitches, est_velocities, offset_ratio=None)
    return out


def tempo(reference_tempi, reference_weight, estimated_tempi):
    out = {}
    out["P-score"], out["One-correct"], out["Both-correct"] = direct(tempo.detection, reference_tempi, reference_weight, estimated_tempi)
    return out


def key(reference_key, estimated_key):
    out = {}
    out["Weighted Score"] = key.weighted_score(reference_key, estimated_key)
    return out


def pattern(ref_patterns, est_patterns):
    out = {}
    out["F"], out["P"], out["R"] = direct(pattern.standard_FPR, ref_patterns, est_patterns)
    out["F_est"], out["P_est"], out["R_est"] = direct(pattern.establishment_FPR, ref_patterns, est_patterns)
    out["F_occ.5"], out["P_occ.5"], out["R_occ.5"] = direct(pattern.occurrence_FPR, ref_patterns, est_patterns, thres=0.5)
    out["F_occ.75"], out["P_occ.75"], out["R_occ.75"] = direct(pattern.occurrence_FPR, ref_patterns, est_patterns, thres=0.75)
    out["F_3"], out["P_3"], out["R_3"] = direct(pattern.three_layer_FPR, ref_patterns, est_patterns)
    n = user("n", 5)
    out["FFP"] = direct(pattern.first_n_three_layer_P, ref_patterns, est_patterns, n=n)
    out["FFTP_est"] = direct(pattern.first_n_target_proportion_R, ref_patterns, est_patterns, n=n)
    return out


def hierarchy(ref_intervals_hier, ref_labels_hier, est_intervals_hier, est_labels_hier):
    _, t_end = hierarchy._hierarchy_bounds(ref_intervals_hier)
    ref_i, ref_l = hierarchy._align_intervals(ref_intervals_hier, ref_labels_hier, t_min=0.0, t_max=None)
    est_i, est_l = hierarchy._align_intervals(est_intervals_hier, est_labels_hier, t_min=0.0, t_max=t_end)
    out = {}
    out["T-Precision reduced"], out["T-Recall reduced"], out["T-Measure reduced"] = direct(
        hierarchy.tmeasure, ref_i, est_i, transitive=False)
    out["T-Precision full"], out["T-Recall full"], out["T-Measure full"] = direct(
        hierarchy.tmeasure, ref_i, est_i, transitive=True)
    out["L-Precision"], out["L-Recall"], out["L-Measure"] = direct(hierarchy.lmeasure, ref_i, ref_l, est_i, est_l)
    return out


def alignment(reference_timestamps, estimated_timestamps):
    out = {}
    out["pc"] = direct(alignment.percentage_correct, reference_timestamps, estimated_timestamps)
    out["mae"], out["aae"] = alignment.absolute_error(reference_timestamps, estimated_timestamps)
    out["pcs"] = direct(alignment.percentage_correct_segments, reference_timestamps, estimated_timestamps)
    out["perceptual"] = alignment.karaoke_perceptual_metric(reference_timestamps, estimated_timestamps)
    return out


def separation(reference_sources, estimated_sources):
    out = {}
    sdr, isr, sir, sar, perm = direct(separation.bss_eval_images, reference_sources, estimated_sources)
    out["Images - Source to Distortion"] = sdr.tolist()
    out["Images - Image to Spatial"] = isr.tolist()
    out["Images - Source to Interference"] = sir.tolist()
    out["Images - Source to Artifact"] = sar.tolist()
    out["Images - Source permutation"] = perm.tolist()
    sdr, isr, sir, sar, perm = direct(separation.bss_eval_images_framewise, reference_sources, estimated_sources)
    out["Images Frames - Source to Distortion"] = sdr.tolist()
    out["Images Frames - Image to Spatial"] = isr.tolist()
    out["Images Frames - Source to Interference"] = sir.tolist()
    out["Images Frames - Source to Artifact"] = sar.tolist()
    out["Images Frames - Source permutation"] = perm.tolist()
    if reference_sources.ndim < 3 and estimated_sources.ndim < 3:
        sdr, sir, sar, perm = direct(separation.bss_eval_sources_framewise, reference_sources, estimated_sources)
        out["Sources Frames - Source to Distortion"] = sdr.tolist()
        out["Sources Frames - Source to Interference"] = sir.tolist()
        out["Sources Frames - Source to Artifact"] = sar.tolist()
        out["Sources Frames - Source permutation"] = perm.tolist()
        sdr, sir, sar, perm = direct(separation.bss_eval_sources, reference_sources, estimated_sources)
        out["Sources - Source to Distortion"] = sdr.tolist()
        out["Sources - Source to Interference"] = sir.tolist()
        out["Sources - Source to Artifact"] = sar.tolist()
        out["Sources - Source permutation"] = perm.tolist()
    return out


# documented result arity of every metric function that feeds a bundle entry (None = one scalar)
ARITY = {
    "beat.f_measure": None, "beat.cemgil": 2, "beat.goto": None, "beat.p_score": None, "beat.continuity": 4,
    "beat.information_gain": None,
    "onset.f_measure": 3,
    "segment.detection": 3, "segment.deviation": 2, "segment.pairwise": 3, "segment.rand_index": None, "segment.ari": None,
    "segment.mutual_information": 3, "segment.nce": 3, "segment.vmeasure": 3,
    "chord.weighted_accuracy": None, "chord.underseg": None, "chord.overseg": None, "chord.seg": None,
    "chord.directional_hamming_distance": None,
    "melody.voicing_recall": None, "melody.voicing_false_alarm": None, "melody.raw_pitch_accuracy": None,
    "melody.raw_chroma_accuracy": None, "melody.overall_accuracy": None, "melody.voicing_measures": 2,
    "melody.to_cent_voicing": 4,
    "multipitch.metrics": 14, "multipitch.compute_accuracy": 3, "multipitch.compute_err_score": 4,
    "transcription.precision_recall_f1_overlap": 4, "transcription.onset_precision_recall_f1": 3,
    "transcription.offset_precision_recall_f1": 3, "transcription.average_overlap_ratio": None,
    "transcription_velocity.precision_recall_f1_overlap": 4,
    "tempo.detection": 3,
    "key.weighted_score": None,
    "pattern.standard_FPR": 3, "pattern.establishment_FPR": 3, "pattern.occurrence_FPR": 3, "pattern.three_layer_FPR": 3,
    "pattern.first_n_three_layer_P": None, "pattern.first_n_target_proportion_R": None,
    "hierarchy.tmeasure": 3, "hierarchy.lmeasure": 3,
    "alignment.percentage_correct": None, "alignment.absolute_error": 2, "alignment.percentage_correct_segments": None,
    "alignment.karaoke_perceptual_metric": None,
    "separation.bss_eval_sources": 4, "separation.bss_eval_sources_framewise": 4,
    "separation.bss_eval_images": 5, "separation.bss_eval_images_framewise": 5,
    "util.f_measure": None,
}
