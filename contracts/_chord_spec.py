"""Independent executable specification of the Harte chord syntax and encoding (oracle of C10 / C11 / C09).

Written from the module documentation of mir_eval.chord and Harte's 2010 thesis grammar, not from the code:
    label    := 'N' | 'X' | root [':' shorthand ['(' degrees ')']] | root ':' '(' degrees ')'   ... optionally followed by '/' degree
    root     := [A-G] ( 'b'* | '#'* )
    degree   := ( 'b'* | '#'* ) ( 1 .. 13 )
    degrees  := ['*'] degree ( ',' ['*'] degree )*
(The file name starts with '_': it is not a contract file.)
"""

SHORTHANDS_GRAMMAR = ['maj', 'min', 'dim', 'aug', '1', '5', 'sus2', 'sus4', 'maj6', 'min6', '7', 'maj7', 'min7', 'dim7', 'hdim7',
                      'minmaj7', 'aug7', '9', 'maj9', 'min9', '11', 'maj11', 'min11', '13', 'maj13', 'min13']

# grammar as data for the regex engine: each entry is ('lit', s) | ('range', a, b) | ('seq', ...) | ('alt', ...) | ('star', x) | ('opt', x)
ACC = ('alt', ('star', ('lit', 'b')), ('star', ('lit', '#')))
NUM = ('alt',) + tuple(('lit', str(i)) for i in range(1, 14))
DEGREE = ('seq', ACC, NUM)
SDEGREE = ('seq', ('opt', ('lit', '*')), DEGREE)
DEGLIST = ('seq', ('lit', '('), SDEGREE, ('star', ('seq', ('lit', ','), SDEGREE)), ('lit', ')'))
ROOT = ('seq', ('range', 'A', 'G'), ACC)
SHORT = ('alt',) + tuple(('lit', s) for s in SHORTHANDS_GRAMMAR)
BODY = ('opt', ('alt', ('seq', ('lit', ':'), SHORT, ('opt', DEGLIST)), ('seq', ('lit', ':'), DEGLIST)))
GRAMMAR = ('alt', ('lit', 'N'), ('lit', 'X'), ('seq', ROOT, BODY, ('opt', ('seq', ('lit', '/'), DEGREE))))

PITCH = {'C': 0, 'D': 2, 'E': 4, 'F': 5, 'G': 7, 'A': 9, 'B': 11}
MAJOR_SCALE = [0, 2, 4, 5, 7, 9, 11, 12, 14, 16, 17, 19, 21]          # degrees 1..13 in semitones

# chord tones of each encodable shorthand, as semitone sets (sevenths of the extended chords; the extensions themselves are
# only materialised with reduce_extended_chords=True)
TONES = {
    'maj': [0, 4, 7], 'min': [0, 3, 7], 'aug': [0, 4, 8], 'dim': [0, 3, 6], 'sus4': [0, 5, 7], 'sus2': [0, 2, 7],
    '7': [0, 4, 7, 10], 'maj7': [0, 4, 7, 11], 'min7': [0, 3, 7, 10], 'minmaj7': [0, 3, 7, 11], 'maj6': [0, 4, 7, 9], 'min6': [0, 3, 7, 9],
    'dim7': [0, 3, 6, 9], 'hdim7': [0, 3, 6, 10],
    'maj9': [0, 4, 7, 11], 'min9': [0, 3, 7, 10], '9': [0, 4, 7, 10], 'b9': [0, 4, 7, 10], '#9': [0, 4, 7, 10],
    'min11': [0, 3, 7, 10], '11': [0, 4, 7, 10], '#11': [0, 4, 7, 10], 'maj13': [0, 4, 7, 11], 'min13': [0, 3, 7, 10], '13': [0, 4, 7, 10],
    'b13': [0, 4, 7, 10], '1': [0], '5': [0, 7], '': [],
}
# extended shorthands -> (seventh chord, added degrees) used when reduce_extended_chords=True
REDUX = {
    'minmaj7': ('min', ['7']), 'maj9': ('maj7', ['9']), 'min9': ('min7', ['9']), '9': ('7', ['9']), 'b9': ('7', ['b9']), '#9': ('7', ['#9']),
    '11': ('7', ['9', '11']), '#11': ('7', ['9', '#11']), '13': ('7', ['9', '11', '13']), 'b13': ('7', ['9', '11', 'b13']),
    'min11': ('min7', ['9', '11']), 'maj13': ('maj7', ['9', '11', '13']), 'min13': ('min7', ['9', '11', '13']),
}


class NotHarte(Exception):
    pass


def parse(label):
    """recursive-descent parser of the grammar above -> (root, shorthand|None, [degrees] | None, bass|None); raises NotHarte"""
    if label in ('N', 'X'):
        return (label, None, None, None)
    pos = [0]

    def peek():
        return label[pos[0]] if pos[0] < len(label) else ''

    def eat(c):
        if peek() != c:
            raise NotHarte(label)
        pos[0] += 1

    def accidentals():
        s = pos[0]
        if peek() in ('b', '#'):
            c = peek()
            while peek() == c:
                pos[0] += 1
        return label[s:pos[0]]

    def degree():
        acc = accidentals()
        s = pos[0]
        if peek() == '1' and pos[0] + 1 < len(label) and label[pos[0] + 1] in '0123':
            pos[0] += 2
        elif peek() != '' and peek() in '123456789':
            pos[0] += 1
        else:
            raise NotHarte(label)
        return acc + label[s:pos[0]]

    if peek() == '' or peek() not in 'ABCDEFG':
        raise NotHarte(label)
    pos[0] += 1
    root = label[0] + accidentals()
    shorthand, degs, bass = None, None, None
    if peek() == ':':
        eat(':')
        rest = label[pos[0]:]
        best = ''
        for s in SHORTHANDS_GRAMMAR:
            if rest.startswith(s) and len(s) > len(best):
                # longest shorthand that still lets the remainder parse
                tail = rest[len(s):]
                if tail == '' or tail[0] in '(/':
                    best = s
        if best:
            shorthand = best
            pos[0] += len(best)
        if peek() == '(':
            eat('(')
            degs = []
            while True:
                star = ''
                if peek() == '*':
                    eat('*')
                    star = '*'
                degs.append(star + degree())
                if peek() == ',':
                    eat(',')
                    continue
                break
            eat(')')
        if shorthand is None and degs is None:
            raise NotHarte(label)
    if peek() == '/':
        eat('/')
        bass = degree()
    if pos[0] != len(label):
        raise NotHarte(label)
    return (root, shorthand, degs, bass)


def accepts(label):
    try:
        parse(label)
        return True
    except NotHarte:
        return False


def root_semitone(root):
    return (PITCH[root[0]] + root.count('#') - root.count('b')) % 12


def degree_semitone(deg):
    d = deg.lstrip('#b')
    return MAJOR_SCALE[int(d) - 1] + deg.count('#') - deg.count('b')


class NotEncodable(Exception):
    pass


def encode(label, reduce_extended_chords=False, strict_bass_intervals=False):
    """-> (root, bitmap list of 12 ints, bass) or raises NotHarte / NotEncodable"""
    root, shorthand, degs, bass = parse(label)
    if root == 'N':
        return (-1, [0] * 12, -1)
    if root == 'X':
        return (-1, [-1] * 12, -1)
    degs = list(degs or [])
    # (the module documentation says omissions need a quality; the label grammar itself allows `C:(*3)` and the
    #  library encodes it with the empty quality - the spec follows the grammar here, see DESIGN.md findings)
    quality = shorthand if shorthand is not None else ('' if degs else 'maj')
    if reduce_extended_chords and quality in REDUX:
        quality, extra = REDUX[quality]
        degs = degs + list(extra)
    if quality not in TONES:
        raise NotEncodable('shorthand %s has no encoding' % quality)
    count = [0] * 12
    for t in TONES[quality]:
        count[t] = 1
    count[0] = 1
    for d in set(degs):
        sign = -1 if d.startswith('*') else 1
        st = degree_semitone(d.lstrip('*'))
        if st < 12 or reduce_extended_chords:
            count[st % 12] += sign
    bitmap = [1 if c > 0 else 0 for c in count]
    b = degree_semitone(bass if bass is not None else '1') % 12
    if not bitmap[b] and strict_bass_intervals:
        raise NotEncodable('bass not in chord')
    bitmap[b] = 1
    return (root_semitone(root), bitmap, b)
