"""Definitional forwarding obligations decided in EUF (engine pyvc/engines/forward.py): the body of the function on the
left must be term-equal to the documented expression on the right (metric functions are uninterpreted symbols).
(File name starts with '_': not a contract file.)"""

FORWARD = [
    # C16: vmeasure is nce with marginal normalisation, all other arguments passed through
    {'function': 'segment.vmeasure', 'props': ['C16'], 'oracle': "return segment.nce(reference_intervals, reference_labels, estimated_intervals, estimated_labels, frame_size=frame_size, beta=beta, marginal=True)"},
    # C06 / C12: over- and under-segmentation are one directional Hamming distance with the roles exchanged
    {'function': 'chord.overseg', 'props': ['C06'], 'oracle': "return 1 - chord.directional_hamming_distance(reference_intervals, estimated_intervals)"},
    {'function': 'chord.underseg', 'props': ['C06'], 'oracle': "return 1 - chord.directional_hamming_distance(estimated_intervals, reference_intervals)"},
    {'function': 'chord.seg', 'props': ['C06'], 'oracle': "return min(chord.underseg(reference_intervals, estimated_intervals), chord.overseg(reference_intervals, estimated_intervals))"},
]
