"""Independent executable spec of key strings (oracle for the assumed key contracts): '(tonic) (mode)' or 'X'."""
LETTER = {'c': 0, 'd': 2, 'e': 4, 'f': 5, 'g': 7, 'a': 9, 'b': 11}
TONICS = ['c', 'c#', 'db', 'd', 'd#', 'eb', 'e', 'f', 'f#', 'gb', 'g', 'g#', 'ab', 'a', 'a#', 'bb', 'b']     # the 17 documented names
MODES = ['major', 'minor', 'other']


def parse(key):
    """-> ('x',) | (tonic 0..11, mode) ; raises ValueError for anything else"""
    toks = key.split()
    if len(toks) == 1 and toks[0].lower() == 'x' and key.lower() == 'x':
        return ('x',)
    if len(toks) == 2 and toks[0].lower() in TONICS and toks[1] in MODES:
        t = toks[0].lower()
        return ((LETTER[t[0]] + (1 if t.endswith('#') else 0) - (1 if len(t) == 2 and t.endswith('b') else 0)) % 12, toks[1])
    raise ValueError(key)


def valid(key):
    try:
        parse(key)
        return True
    except ValueError:
        return False
