"""Contracts for mir_eval.alignment (C01 C02 C04 C07 C14)."""


def valid_ts(r, e):
    n = length(r)
    return (n > 0 and length(e) == n and forall(0, n - 1, lambda i: r[i + 1] - r[i] >= 0) and forall(0, n - 1, lambda i: e[i + 1] - e[i] >= 0)
            and forall(0, n, lambda i: r[i] >= 0) and forall(0, n, lambda i: e[i] >= 0))


def indicator(r, e, w):
    return array_of(length(r), lambda i: ite(absr(r[i] - e[i]) <= w, 1.0, 0.0))


@contract("mir_eval.alignment.validate", props="C14")
def validate(reference_timestamps: Arr(Real, None), estimated_timestamps: Arr(Real, None)):
    raises(ValueError, when=not valid_ts(reference_timestamps, estimated_timestamps), props="C14")


@contract("mir_eval.alignment.percentage_correct", props="C01 C02 C04 C07 C14")
def percentage_correct(reference_timestamps: Arr(Real, None), estimated_timestamps: Arr(Real, None), window: Real = 0.3) -> Real:
    raises(ValueError, when=not valid_ts(reference_timestamps, estimated_timestamps), props="C14")
    n = length(reference_timestamps)
    ind = indicator(reference_timestamps, estimated_timestamps, window)
    ensures(result == sum_of(ind) / n, label='def', props="C04")
    sum_nonneg(ind)
    sum_le(ind, array_of(n, lambda i: 1.0))
    sum_const(array_of(n, lambda i: 1.0), 1.0)
    ensures(0 <= result, result <= 1, label='range', props="C01")


@lemma("C07")
def lemma_pc_window_monotone(r: Arr(Real, None), e: Arr(Real, None), w1: Real, w2: Real):
    requires(valid_ts(r, e), w1 <= w2)
    sum_le(indicator(r, e, w1), indicator(r, e, w2))
    ensures(percentage_correct(r, e, w1) <= percentage_correct(r, e, w2), label='monotone')


@lemma("C02")
def lemma_pc_perfect(r: Arr(Real, None), w: Real):
    requires(valid_ts(r, r), w >= 0)
    sum_const(indicator(r, r, w), 1.0)
    ensures(percentage_correct(r, r, w) == 1, label='perfect')
