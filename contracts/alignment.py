"""Contracts for mir_eval.alignment (C01 C02 C04 C07 C14)."""


def valid_ts(r, e):
    n = length(r)
    return (n > 0 and length(e) == n and forall(0, n - 1, lambda i: r[i + 1] - r[i] >= 0) and forall(0, n - 1, lambda i: e[i + 1] - e[i] >= 0)
            and forall(0, n, lambda i: r[i] >= 0) and forall(0, n, lambda i: e[i] >= 0))


def indicator(r, e, w):
    return array_of(length(r), lambda i: ite(absr(r[i] - e[i]) <= w, 1.0, 0.0))


@contract("mir_eval.alignment.validate", props="C14")
def validate(reference_timestamps: Arr(Real, None), estimated_timestamps: Arr(Real, None)):
    raises(ValueError, when=not valid_ts(reference_timestamps, estimated_timestamps), props="C14")


@contract("mir_eval.alignment.percentage_correct", props="C01 C02 C04 C07 C14")
def percentage_correct(reference_timestamps: Arr(Real, None), estimated_timestamps: Arr(Real, None), window: Real = 0.3) -> Real:
    raises(ValueError, when=not valid_ts(reference_timestamps, estimated_timestamps), props="C14")
    n = length(reference_timestamps)
    ind = indicator(reference_timestamps, estimated_timestamps, window)
    ensures(result == sum_of(ind) / n, label='def', props="C04")
    sum_nonneg(ind)
    sum_le(ind, array_of(n, lambda i: 1.0))
    sum_const(array_of(n, lambda i: 1.0), 1.0)
    ensures(0 <= result, result <= 1, label='range', props="C01")


@lemma("C07")
def lemma_pc_window_monotone(r: Arr(Real, None), e: Arr(Real, None), w1: Real, w2: Real):
    requires(valid_ts(r, e), w1 <= w2)
    sum_le(indicator(r, e, w1), indicator(r, e, w2))
    ensures(percentage_correct(r, e, w1) <= percentage_correct(r, e, w2), label='monotone')


@lemma("C02")
def lemma_pc_perfect(r: Arr(Real, None), w: Real):
    requires(valid_ts(r, r), w >= 0)
    sum_const(indicator(r, r, w), 1.0)
    ensures(percentage_correct(r, r, w) == 1, label='perfect')


# ----------------------------------------------------------------------------- percentage of correct segments
def seg_start(a, i):
    return ite(i == 0, 0.0, a[i - 1])


def seg_end(a, i, n, dur):
    return ite(i == n, dur, a[i])


def overlaps_dur(r, e, dur):
    """per-segment overlap when the audio duration is given: segments [0, t0], [t0, t1], ..., [t_{n-1}, dur]"""
    n = length(r)
    return array_of(n + 1, lambda i: max(min(seg_end(r, i, n, dur), seg_end(e, i, n, dur)) - max(seg_start(r, i), seg_start(e, i)), 0.0))


def ref_lengths_dur(r, dur):
    n = length(r)
    return array_of(n + 1, lambda i: seg_end(r, i, n, dur) - seg_start(r, i))


def bounds_dur(r, dur):
    n = length(r)
    return array_of(n + 2, lambda i: ite(i == 0, 0.0, ite(i == n + 1, dur, r[i - 1])))


def overlaps_mirex(r, e):
    """MIREX style: only the segments between consecutive reference timestamps"""
    return array_of(length(r) - 1, lambda i: max(min(r[i + 1], e[i + 1]) - max(r[i], e[i]), 0.0))


def ref_lengths_mirex(r):
    return array_of(length(r) - 1, lambda i: r[i + 1] - r[i])


@contract("mir_eval.alignment.percentage_correct_segments", props="C01 C04 C14")
def percentage_correct_segments(reference_timestamps: Arr(Real, None), estimated_timestamps: Arr(Real, None), duration: Opt(Real) = None) -> Real:
    r = reference_timestamps
    e = estimated_timestamps
    n = length(r)
    raises(ValueError, when=not valid_ts(r, e)
           or (not is_none(duration) and (val(duration) <= 0 or exists(0, n, lambda i: r[i] > val(duration)) or exists(0, n, lambda i: e[i] > val(duration))))
           or (is_none(duration) and r[n - 1] - r[0] <= 0), props="C14")
    if is_none(duration):
        ov = overlaps_mirex(r, e)
        ensures(result == sum_of(ov) / (r[n - 1] - r[0]), label='def-mirex', props="C04")
        sum_nonneg(ov)
        sum_le(ov, ref_lengths_mirex(r))
        sum_telescope(ref_lengths_mirex(r), r)
    else:
        ov = overlaps_dur(r, e, val(duration))
        ensures(result == sum_of(ov) / val(duration), label='def-duration', props="C04")
        sum_nonneg(ov)
        sum_le(ov, ref_lengths_dur(r, val(duration)))
        sum_telescope(ref_lengths_dur(r, val(duration)), bounds_dur(r, val(duration)))
    ensures(0 <= result, result <= 1, label='range', props="C01")


@lemma("C02")
def lemma_pcs_perfect(r: Arr(Real, None), dur: Opt(Real)):
    """an exact copy scores PCS = 1, with or without the audio duration"""
    n = length(r)
    requires(valid_ts(r, r), implies(is_none(dur), r[n - 1] - r[0] > 0), implies(not is_none(dur), val(dur) > 0 and forall(0, n, lambda i: r[i] <= val(dur))))
    if is_none(dur):
        sum_eq(overlaps_mirex(r, r), ref_lengths_mirex(r))
        sum_telescope(ref_lengths_mirex(r), r)
    else:
        sum_eq(overlaps_dur(r, r, val(dur)), ref_lengths_dur(r, val(dur)))
        sum_telescope(ref_lengths_dur(r, val(dur)), bounds_dur(r, val(dur)))
    ensures(percentage_correct_segments(r, r, dur) == 1, label='perfect')


@lemma("C08")
def lemma_pcs_time_shift(r: Arr(Real, None), e: Arr(Real, None), c: Real):
    """MIREX-style PCS (no duration) is unchanged when the same offset is added to all reference and estimated times"""
    n = length(r)
    requires(valid_ts(r, e), r[n - 1] - r[0] > 0, c >= 0)
    r2 = array_of(n, lambda i: r[i] + c)
    e2 = array_of(n, lambda i: e[i] + c)
    sum_eq(overlaps_mirex(r2, e2), overlaps_mirex(r, e))
    ensures(percentage_correct_segments(r2, e2, None) == percentage_correct_segments(r, e, None), label='shift')


# ----------------------------------------------------------------------------- absolute error
@contract("mir_eval.alignment.absolute_error", props="C01 C04 C14")
def absolute_error(reference_timestamps: Arr(Real, None), estimated_timestamps: Arr(Real, None)) -> Tup(Real, Real):
    raises(ValueError, when=not valid_ts(reference_timestamps, estimated_timestamps), props="C14")
    n = length(reference_timestamps)
    dev = array_of(n, lambda i: absr(reference_timestamps[i] - estimated_timestamps[i]))
    ensures(result[1] == sum_of(dev) / n, label='mean-def', props="C04")
    sum_nonneg(dev)
    ensures(result[0] >= 0, result[1] >= 0, label='nonneg', props="C01")
    ensures(implies(forall(0, n, lambda i: reference_timestamps[i] == estimated_timestamps[i]), result[0] == 0), label='median-of-zeros', props="C02")
    ensures(result[0] == median_of(dev), label='median-def', props="C04")


@lemma("C02")
def lemma_absolute_error_perfect(r: Arr(Real, None)):
    requires(valid_ts(r, r))
    sum_zero(array_of(length(r), lambda i: absr(r[i] - r[i])))
    med, mean = absolute_error(r, r)
    ensures(med == 0, mean == 0, label='perfect')
