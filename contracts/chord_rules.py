"""Contracts for the chord comparison functions (C11, C02, C09) - rules written from the module documentation.

An encoding is the triple (root, 12 bits, bass).  N = (-1, all 0, -1);  X = (-1, all -1, -1).
The comparison functions are specified row by row:  result[i] = RULE(ENC(ref[i]), ENC(est[i])).
ENC is the (uninterpreted) encoding of a label; what it is for a given string is the business of C10.
"""

enc_root = uninterpreted('enc_root', ['ObjT'], 'Int')
enc_bit = uninterpreted('enc_bit', ['ObjT', 'Int'], 'Int')
enc_bass = uninterpreted('enc_bass', ['ObjT'], 'Int')
valid_label = uninterpreted('valid_label', ['ObjT'], 'Bool')
encodable = uninterpreted('encodable', ['ObjT'], 'Bool')

MAJ = (1, 0, 0, 0, 1, 0, 0, 1, 0, 0, 0, 0)          # root, major third, fifth
MIN = (1, 0, 0, 1, 0, 0, 0, 1, 0, 0, 0, 0)          # root, minor third, fifth
DOM7 = (1, 0, 0, 0, 1, 0, 0, 1, 0, 0, 1, 0)
MAJ7 = (1, 0, 0, 0, 1, 0, 0, 1, 0, 0, 0, 1)
MIN7 = (1, 0, 0, 1, 0, 0, 0, 1, 0, 0, 1, 0)
NONE = (0, 0, 0, 0, 0, 0, 0, 0, 0, 0, 0, 0)


def ENC(l):
    return (enc_root(l), array_of(12, lambda k: enc_bit(l, k), dtype='int'), enc_bass(l))


def is_X(e):
    return any([e[1][k] < 0 for k in range(12)])


def is_N(e):
    return e[0] < 0 and all([e[1][k] == 0 for k in range(12)])


def same_bits(a, b, n):
    return all([a[k] == b[k] for k in range(n)])


def enc_ok(e):
    """N sentinel, X sentinel, or a proper chord: root and bass in 0..11, 0/1 bits, bass is a chord tone"""
    proper = (0 <= e[0] and e[0] <= 11 and 0 <= e[2] and e[2] <= 11 and all([e[1][k] == 0 or e[1][k] == 1 for k in range(12)])
              and e[1][e[2]] == 1)
    n = e[0] == -1 and e[2] == -1 and all([e[1][k] == 0 for k in range(12)])
    x = e[0] == -1 and e[2] == -1 and all([e[1][k] == -1 for k in range(12)])
    return proper or n or x


def score(ignored, match):
    return ite(ignored, -1.0, ite(match, 1.0, 0.0))


def rule_root(a, b):
    return score(is_X(a), a[0] == b[0])


def rule_thirds(a, b):
    return score(is_X(a), a[0] == b[0] and a[1][3] == b[1][3])


def rule_thirds_inv(a, b):
    return score(is_X(a), a[0] == b[0] and a[1][3] == b[1][3] and a[2] == b[2])


def rule_triads(a, b):
    return score(is_X(a), a[0] == b[0] and same_bits(a[1], b[1], 8))


def rule_triads_inv(a, b):
    return score(is_X(a), a[0] == b[0] and same_bits(a[1], b[1], 8) and a[2] == b[2])


def rule_tetrads(a, b):
    return score(is_X(a), a[0] == b[0] and same_bits(a[1], b[1], 12))


def rule_tetrads_inv(a, b):
    return score(is_X(a), a[0] == b[0] and same_bits(a[1], b[1], 12) and a[2] == b[2])


def in_majmin_vocab(a):
    return same_bits(a[1], MAJ, 8) or same_bits(a[1], MIN, 8) or is_N(a)


def bass_is_chord_tone(a):
    return a[2] < 0 or a[1][a[2]] != 0


def rule_majmin(a, b):
    return score(not in_majmin_vocab(a), a[0] == b[0] and same_bits(a[1], b[1], 8))


def rule_majmin_inv(a, b):
    return score(not in_majmin_vocab(a) or not bass_is_chord_tone(a), a[0] == b[0] and a[2] == b[2] and same_bits(a[1], b[1], 8))


def in_sevenths_vocab(a):
    return (same_bits(a[1], MAJ, 12) or same_bits(a[1], MIN, 12) or same_bits(a[1], MAJ7, 12) or same_bits(a[1], DOM7, 12)
            or same_bits(a[1], MIN7, 12) or same_bits(a[1], NONE, 12))


def rule_sevenths(a, b):
    return score(not in_sevenths_vocab(a), a[0] == b[0] and same_bits(a[1], b[1], 12))


def rule_sevenths_inv(a, b):
    return score(not in_sevenths_vocab(a) or not bass_is_chord_tone(a), a[0] == b[0] and a[2] == b[2] and same_bits(a[1], b[1], 12))


def chroma(e, k):
    """pitch class k is sounding in chord e (bit of interval (k - root) mod 12; any non-zero bit counts)"""
    return ite(e[1][(k - e[0]) % 12] != 0, 1, 0)


def n_common(a, b):
    return sum([chroma(a, k) * chroma(b, k) for k in range(12)])


def n_tones(a):
    return sum([ite(a[1][k] > 0, 1, 0) for k in range(12)])


def rule_mirex(a, b):
    ignored = is_X(a) or (0 < n_tones(a) and n_tones(a) < 3)
    return score(ignored, n_common(a, b) >= 3 or (a[0] == -1 and b[0] == -1))


def all_valid(labels):
    return forall(0, length(labels), lambda i: valid_label(labels[i]))


def all_encodable(labels):
    return forall(0, length(labels), lambda i: encodable(labels[i]))


# ----------------------------------------------------------------------------- helpers (assumed, bounded-checked by C10's harness)
@assumed_contract("mir_eval.chord.validate_chord_label", props="C10 C14",
                  note="defines valid_label(l) := CHORD_RE matches l; C10 proves L(CHORD_RE) = L(Harte grammar)")
def validate_chord_label(chord_label: ObjT):
    raises(InvalidChordException, when=not valid_label(chord_label))


@contract("mir_eval.chord.validate", props="C14 C11")
def validate(reference_labels: Lst(ObjT), estimated_labels: Lst(ObjT)):
    raises(ValueError, when=length(reference_labels) != length(estimated_labels), props="C14")
    raises(InvalidChordException, when=length(reference_labels) == length(estimated_labels)
           and not (all_valid(reference_labels) and all_valid(estimated_labels)), props="C14")
    invariant(lambda: forall(0, loop_index(1), lambda i: valid_label(labels[i])), loop=1, label='prefix-valid')


@assumed_contract("mir_eval.chord.encode_many", props="C11",
                  note="row i is encode(labels[i]); the body (loop with a per-call cache) is checked by the bounded C10/C11 harness only")
def encode_many(chord_labels: Lst(ObjT), reduce_extended_chords: Bool = False):
    requires(not reduce_extended_chords)
    raises(InvalidChordException, when=not all_encodable(chord_labels))
    ensures(forall(0, length(chord_labels), lambda i: enc_ok(ENC(chord_labels[i]))), label='enc-ok')
    returns((array_of(length(chord_labels), lambda i: enc_root(chord_labels[i]), dtype='int'),
             array_of(length(chord_labels), 12, lambda i, k: enc_bit(chord_labels[i], k), dtype='int'),
             array_of(length(chord_labels), lambda i: enc_bass(chord_labels[i]), dtype='int')))


@assumed_contract("mir_eval.chord.rotate_bitmaps_to_roots", props="C11",
                  note="absolute pitch-class bitmap: out[i][k] = 1 iff bitmaps[i][(k - roots[i]) mod 12] != 0; bounded-checked exhaustively (12 roots x 4096 bitmaps)")
def rotate_bitmaps_to_roots(bitmaps: Arr(Int, None, 12), roots: Arr(Int, None)):
    returns(array_of(length(roots), 12, lambda i, k: ite(bitmaps[i, (k - roots[i]) % 12] != 0, 1, 0), dtype='int'))


# ----------------------------------------------------------------------------- the twelve comparison functions

@contract("mir_eval.chord.root", props="C11 C14 C09 C02 C12")
def root(reference_labels: Lst(ObjT), estimated_labels: Lst(ObjT)) -> Arr(Real, None):
    raises(ValueError, when=length(reference_labels) != length(estimated_labels), props="C14")
    raises(InvalidChordException, when=length(reference_labels) == length(estimated_labels)
           and not (all_valid(reference_labels) and all_valid(estimated_labels)
                    and all_encodable(reference_labels) and all_encodable(estimated_labels)), props="C14")
    ensures(length(result) == length(reference_labels), label='length', props="C11")
    ensures(forall(0, length(result), lambda i: result[i] == rule_root(ENC(reference_labels[i]), ENC(estimated_labels[i]))),
            label='rule', props="C11 C09 C02 C12")


@contract("mir_eval.chord.thirds", props="C11 C14 C09 C02 C12")
def thirds(reference_labels: Lst(ObjT), estimated_labels: Lst(ObjT)) -> Arr(Real, None):
    raises(ValueError, when=length(reference_labels) != length(estimated_labels), props="C14")
    raises(InvalidChordException, when=length(reference_labels) == length(estimated_labels)
           and not (all_valid(reference_labels) and all_valid(estimated_labels)
                    and all_encodable(reference_labels) and all_encodable(estimated_labels)), props="C14")
    ensures(length(result) == length(reference_labels), label='length', props="C11")
    ensures(forall(0, length(result), lambda i: result[i] == rule_thirds(ENC(reference_labels[i]), ENC(estimated_labels[i]))),
            label='rule', props="C11 C09 C02 C12")


@contract("mir_eval.chord.thirds_inv", props="C11 C14 C09 C02 C12")
def thirds_inv(reference_labels: Lst(ObjT), estimated_labels: Lst(ObjT)) -> Arr(Real, None):
    raises(ValueError, when=length(reference_labels) != length(estimated_labels), props="C14")
    raises(InvalidChordException, when=length(reference_labels) == length(estimated_labels)
           and not (all_valid(reference_labels) and all_valid(estimated_labels)
                    and all_encodable(reference_labels) and all_encodable(estimated_labels)), props="C14")
    ensures(length(result) == length(reference_labels), label='length', props="C11")
    ensures(forall(0, length(result), lambda i: result[i] == rule_thirds_inv(ENC(reference_labels[i]), ENC(estimated_labels[i]))),
            label='rule', props="C11 C09 C02 C12")


@contract("mir_eval.chord.triads", props="C11 C14 C09 C02 C12")
def triads(reference_labels: Lst(ObjT), estimated_labels: Lst(ObjT)) -> Arr(Real, None):
    raises(ValueError, when=length(reference_labels) != length(estimated_labels), props="C14")
    raises(InvalidChordException, when=length(reference_labels) == length(estimated_labels)
           and not (all_valid(reference_labels) and all_valid(estimated_labels)
                    and all_encodable(reference_labels) and all_encodable(estimated_labels)), props="C14")
    ensures(length(result) == length(reference_labels), label='length', props="C11")
    ensures(forall(0, length(result), lambda i: result[i] == rule_triads(ENC(reference_labels[i]), ENC(estimated_labels[i]))),
            label='rule', props="C11 C09 C02 C12")


@contract("mir_eval.chord.triads_inv", props="C11 C14 C09 C02 C12")
def triads_inv(reference_labels: Lst(ObjT), estimated_labels: Lst(ObjT)) -> Arr(Real, None):
    raises(ValueError, when=length(reference_labels) != length(estimated_labels), props="C14")
    raises(InvalidChordException, when=length(reference_labels) == length(estimated_labels)
           and not (all_valid(reference_labels) and all_valid(estimated_labels)
                    and all_encodable(reference_labels) and all_encodable(estimated_labels)), props="C14")
    ensures(length(result) == length(reference_labels), label='length', props="C11")
    ensures(forall(0, length(result), lambda i: result[i] == rule_triads_inv(ENC(reference_labels[i]), ENC(estimated_labels[i]))),
            label='rule', props="C11 C09 C02 C12")


@contract("mir_eval.chord.tetrads", props="C11 C14 C09 C02 C12")
def tetrads(reference_labels: Lst(ObjT), estimated_labels: Lst(ObjT)) -> Arr(Real, None):
    raises(ValueError, when=length(reference_labels) != length(estimated_labels), props="C14")
    raises(InvalidChordException, when=length(reference_labels) == length(estimated_labels)
           and not (all_valid(reference_labels) and all_valid(estimated_labels)
                    and all_encodable(reference_labels) and all_encodable(estimated_labels)), props="C14")
    ensures(length(result) == length(reference_labels), label='length', props="C11")
    ensures(forall(0, length(result), lambda i: result[i] == rule_tetrads(ENC(reference_labels[i]), ENC(estimated_labels[i]))),
            label='rule', props="C11 C09 C02 C12")


@contract("mir_eval.chord.tetrads_inv", props="C11 C14 C09 C02 C12")
def tetrads_inv(reference_labels: Lst(ObjT), estimated_labels: Lst(ObjT)) -> Arr(Real, None):
    raises(ValueError, when=length(reference_labels) != length(estimated_labels), props="C14")
    raises(InvalidChordException, when=length(reference_labels) == length(estimated_labels)
           and not (all_valid(reference_labels) and all_valid(estimated_labels)
                    and all_encodable(reference_labels) and all_encodable(estimated_labels)), props="C14")
    ensures(length(result) == length(reference_labels), label='length', props="C11")
    ensures(forall(0, length(result), lambda i: result[i] == rule_tetrads_inv(ENC(reference_labels[i]), ENC(estimated_labels[i]))),
            label='rule', props="C11 C09 C02 C12")


@contract("mir_eval.chord.majmin", props="C11 C14 C09 C02 C12")
def majmin(reference_labels: Lst(ObjT), estimated_labels: Lst(ObjT)) -> Arr(Real, None):
    raises(ValueError, when=length(reference_labels) != length(estimated_labels), props="C14")
    raises(InvalidChordException, when=length(reference_labels) == length(estimated_labels)
           and not (all_valid(reference_labels) and all_valid(estimated_labels)
                    and all_encodable(reference_labels) and all_encodable(estimated_labels)), props="C14")
    ensures(length(result) == length(reference_labels), label='length', props="C11")
    ensures(forall(0, length(result), lambda i: result[i] == rule_majmin(ENC(reference_labels[i]), ENC(estimated_labels[i]))),
            label='rule', props="C11 C09 C02 C12")


@contract("mir_eval.chord.majmin_inv", props="C11 C14 C09 C02 C12")
def majmin_inv(reference_labels: Lst(ObjT), estimated_labels: Lst(ObjT)) -> Arr(Real, None):
    raises(ValueError, when=length(reference_labels) != length(estimated_labels), props="C14")
    raises(InvalidChordException, when=length(reference_labels) == length(estimated_labels)
           and not (all_valid(reference_labels) and all_valid(estimated_labels)
                    and all_encodable(reference_labels) and all_encodable(estimated_labels)), props="C14")
    ensures(length(result) == length(reference_labels), label='length', props="C11")
    ensures(forall(0, length(result), lambda i: result[i] == rule_majmin_inv(ENC(reference_labels[i]), ENC(estimated_labels[i]))),
            label='rule', props="C11 C09 C02 C12")


@contract("mir_eval.chord.sevenths", props="C11 C14 C09 C02 C12")
def sevenths(reference_labels: Lst(ObjT), estimated_labels: Lst(ObjT)) -> Arr(Real, None):
    raises(ValueError, when=length(reference_labels) != length(estimated_labels), props="C14")
    raises(InvalidChordException, when=length(reference_labels) == length(estimated_labels)
           and not (all_valid(reference_labels) and all_valid(estimated_labels)
                    and all_encodable(reference_labels) and all_encodable(estimated_labels)), props="C14")
    ensures(length(result) == length(reference_labels), label='length', props="C11")
    ensures(forall(0, length(result), lambda i: result[i] == rule_sevenths(ENC(reference_labels[i]), ENC(estimated_labels[i]))),
            label='rule', props="C11 C09 C02 C12")


@contract("mir_eval.chord.sevenths_inv", props="C11 C14 C09 C02 C12")
def sevenths_inv(reference_labels: Lst(ObjT), estimated_labels: Lst(ObjT)) -> Arr(Real, None):
    raises(ValueError, when=length(reference_labels) != length(estimated_labels), props="C14")
    raises(InvalidChordException, when=length(reference_labels) == length(estimated_labels)
           and not (all_valid(reference_labels) and all_valid(estimated_labels)
                    and all_encodable(reference_labels) and all_encodable(estimated_labels)), props="C14")
    ensures(length(result) == length(reference_labels), label='length', props="C11")
    ensures(forall(0, length(result), lambda i: result[i] == rule_sevenths_inv(ENC(reference_labels[i]), ENC(estimated_labels[i]))),
            label='rule', props="C11 C09 C02 C12")


@contract("mir_eval.chord.mirex", props="C11 C14 C09 C02 C12")
def mirex(reference_labels: Lst(ObjT), estimated_labels: Lst(ObjT)) -> Arr(Real, None):
    raises(ValueError, when=length(reference_labels) != length(estimated_labels), props="C14")
    raises(InvalidChordException, when=length(reference_labels) == length(estimated_labels)
           and not (all_valid(reference_labels) and all_valid(estimated_labels)
                    and all_encodable(reference_labels) and all_encodable(estimated_labels)), props="C14")
    ensures(length(result) == length(reference_labels), label='length', props="C11")
    ensures(forall(0, length(result), lambda i: result[i] == rule_mirex(ENC(reference_labels[i]), ENC(estimated_labels[i]))),
            label='rule', props="C11 C09 C02 C12")



# ----------------------------------------------------------------------------- lattice lemmas over the rules (for all enc_ok pairs)
@lemma("C11")
def lemma_rule_lattice(r1: Int, b1: Arr(Int, 12), s1: Int, r2: Int, b2: Arr(Int, 12), s2: Int):
    a = (r1, b1, s1)
    b = (r2, b2, s2)
    requires(enc_ok(a), enc_ok(b))
    ensures(implies(rule_tetrads_inv(a, b) == 1, rule_tetrads(a, b) == 1), label='tetrads_inv=>tetrads')
    ensures(implies(rule_tetrads(a, b) == 1, rule_triads(a, b) == 1), label='tetrads=>triads')
    ensures(implies(rule_triads(a, b) == 1, rule_thirds(a, b) == 1), label='triads=>thirds')
    ensures(implies(rule_thirds(a, b) == 1, rule_root(a, b) == 1), label='thirds=>root')
    ensures(implies(rule_thirds_inv(a, b) == 1, rule_thirds(a, b) == 1), label='thirds_inv=>thirds')
    ensures(implies(rule_triads_inv(a, b) == 1, rule_triads(a, b) == 1), label='triads_inv=>triads')
    ensures(implies(rule_majmin_inv(a, b) == 1, rule_majmin(a, b) == 1), label='majmin_inv=>majmin')
    ensures(implies(rule_sevenths_inv(a, b) == 1, rule_sevenths(a, b) == 1), label='sevenths_inv=>sevenths')
    ensures(implies(rule_majmin(a, b) == 1, rule_triads(a, b) == 1), label='majmin=>triads')
    ensures(implies(rule_sevenths(a, b) == 1, rule_tetrads(a, b) == 1), label='sevenths=>tetrads')
    ensures(implies(rule_tetrads(a, b) == 1, rule_mirex(a, b) != 0), label='tetrads=>mirex-not-0')


@lemma("C11")
def lemma_ignored_depends_on_reference_only(r1: Int, b1: Arr(Int, 12), s1: Int, r2: Int, b2: Arr(Int, 12), s2: Int,
                                            r3: Int, b3: Arr(Int, 12), s3: Int):
    a = (r1, b1, s1)
    b = (r2, b2, s2)
    c = (r3, b3, s3)
    requires(enc_ok(a), enc_ok(b), enc_ok(c))
    ensures(iff(rule_root(a, b) == -1, rule_root(a, c) == -1), iff(rule_thirds(a, b) == -1, rule_thirds(a, c) == -1),
            iff(rule_thirds_inv(a, b) == -1, rule_thirds_inv(a, c) == -1), iff(rule_triads(a, b) == -1, rule_triads(a, c) == -1),
            iff(rule_triads_inv(a, b) == -1, rule_triads_inv(a, c) == -1), iff(rule_tetrads(a, b) == -1, rule_tetrads(a, c) == -1),
            iff(rule_tetrads_inv(a, b) == -1, rule_tetrads_inv(a, c) == -1), iff(rule_majmin(a, b) == -1, rule_majmin(a, c) == -1),
            iff(rule_majmin_inv(a, b) == -1, rule_majmin_inv(a, c) == -1), iff(rule_sevenths(a, b) == -1, rule_sevenths(a, c) == -1),
            iff(rule_sevenths_inv(a, b) == -1, rule_sevenths_inv(a, c) == -1), iff(rule_mirex(a, b) == -1, rule_mirex(a, c) == -1),
            label='ignored-by-reference')


@lemma("C11 C02")
def lemma_self_comparison_never_0(r1: Int, b1: Arr(Int, 12), s1: Int):
    a = (r1, b1, s1)
    requires(enc_ok(a))
    ensures(rule_root(a, a) != 0, rule_thirds(a, a) != 0, rule_thirds_inv(a, a) != 0, rule_triads(a, a) != 0, rule_triads_inv(a, a) != 0,
            rule_tetrads(a, a) != 0, rule_tetrads_inv(a, a) != 0, rule_majmin(a, a) != 0, rule_majmin_inv(a, a) != 0,
            rule_sevenths(a, a) != 0, rule_sevenths_inv(a, a) != 0, rule_mirex(a, a) != 0, label='self')


@lemma("C11")
def lemma_X_reference_always_ignored(r2: Int, b2: Arr(Int, 12), s2: Int):
    x = (-1, array_of(12, lambda k: -1, dtype='int'), -1)
    b = (r2, b2, s2)
    requires(enc_ok(b))
    ensures(rule_root(x, b) == -1, rule_thirds(x, b) == -1, rule_thirds_inv(x, b) == -1, rule_triads(x, b) == -1,
            rule_triads_inv(x, b) == -1, rule_tetrads(x, b) == -1, rule_tetrads_inv(x, b) == -1, rule_majmin(x, b) == -1,
            rule_majmin_inv(x, b) == -1, rule_sevenths(x, b) == -1, rule_sevenths_inv(x, b) == -1, rule_mirex(x, b) == -1, label='X')


@lemma("C09")
def lemma_rules_transposition_invariant(r1: Int, b1: Arr(Int, 12), s1: Int, r2: Int, b2: Arr(Int, 12), s2: Int, t: Int):
    """transposing reference and estimate together (roots + t mod 12; interval bitmaps and basses are root-relative) changes no rule"""
    a = (r1, b1, s1)
    b = (r2, b2, s2)
    requires(enc_ok(a), enc_ok(b), 0 <= t, t < 12)
    at = (ite(r1 < 0, r1, (r1 + t) % 12), b1, s1)
    bt = (ite(r2 < 0, r2, (r2 + t) % 12), b2, s2)
    ensures(rule_root(a, b) == rule_root(at, bt), rule_thirds(a, b) == rule_thirds(at, bt), rule_thirds_inv(a, b) == rule_thirds_inv(at, bt),
            rule_triads(a, b) == rule_triads(at, bt), rule_triads_inv(a, b) == rule_triads_inv(at, bt),
            rule_tetrads(a, b) == rule_tetrads(at, bt), rule_tetrads_inv(a, b) == rule_tetrads_inv(at, bt),
            rule_majmin(a, b) == rule_majmin(at, bt), rule_majmin_inv(a, b) == rule_majmin_inv(at, bt),
            rule_sevenths(a, b) == rule_sevenths(at, bt), rule_sevenths_inv(a, b) == rule_sevenths_inv(at, bt), label='transpose')
