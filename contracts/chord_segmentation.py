"""Contracts for the chord segmentation scores (C01 C06 C14): the directional Hamming distance is a ratio in [0, 1]
for every pair of valid, non-overlapping interval annotations, whatever their spans."""


def valid_iv(I):
    return forall(0, length(I), lambda i: 0 <= I[i, 0] and 0 <= I[i, 1] and I[i, 0] < I[i, 1])


def no_overlap(I):
    return forall(0, length(I) - 1, lambda i: I[i, 1] <= I[i + 1, 0])


@contract("mir_eval.chord.directional_hamming_distance", props="C01 C14")
def directional_hamming_distance(reference_intervals: Arr(Real, None, 2), estimated_intervals: Arr(Real, None, 2)) -> Real:
    n = length(reference_intervals)
    requires(n > 0, length(estimated_intervals) > 0)
    raises(ValueError, when=not (valid_iv(reference_intervals) and valid_iv(estimated_intervals) and no_overlap(reference_intervals)), props="C14")
    invariant(lambda: 0 <= seg and implies(loop_index(0) == 0, seg == 0)
              and implies(loop_index(0) > 0, seg <= reference_intervals[loop_index(0) - 1, 1] - reference_intervals[0, 0]
                          and reference_intervals[loop_index(0) - 1, 1] > reference_intervals[0, 0]), loop=0, label='seg-bounded')
    ensures(0 <= result, result <= 1, label='range', props="C01")
