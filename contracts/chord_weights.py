"""Contract of chord.weighted_accuracy (C12, C01, C14): the duration-weighted mean of the comparable comparisons."""


def comparison_values(c):
    return forall(0, length(c), lambda i: c[i] == -1 or (0 <= c[i] and c[i] <= 1))


@contract("mir_eval.chord.weighted_accuracy", props="C12 C01 C14")
def weighted_accuracy(comparisons: Arr(Real, None), weights: Arr(Real, None)) -> Real:
    n = length(comparisons)
    requires(comparison_values(comparisons))
    # recorded finding KF-weighted-accuracy-zero-weight: comparable rows whose weights are all zero (while some incomparable row has a
    # positive weight) make the normaliser 0 and the result NaN; chord.evaluate never produces such weights (durations are positive)
    requires(sum_of(weights) == 0 or sum_of(array_of(length(comparisons), lambda i: ite(comparisons[i] >= 0, 1, 0), dtype='int')) == 0
             or sum_of(array_of(length(comparisons), lambda i: ite(comparisons[i] >= 0, weights[i], 0.0))) > 0)
    raises(ValueError, when=length(weights) != n or exists(0, length(weights), lambda i: weights[i] < 0), props="C14")
    W = sum_of(weights)
    n_valid = sum_of(array_of(n, lambda i: ite(comparisons[i] >= 0, 1, 0), dtype='int'))
    wv = array_of(n, lambda i: ite(comparisons[i] >= 0, weights[i], 0.0))
    cw = array_of(n, lambda i: ite(comparisons[i] >= 0, comparisons[i] * weights[i], 0.0))
    TW = sum_of(wv)
    ensures(implies(W == 0 or n_valid == 0, result == 0), label='nothing-to-score', props="C12")
    sum_scale(array_of(n, lambda i: ite(comparisons[i] >= 0, comparisons[i] * (weights[i] * (1.0 / TW)), 0.0)), 1.0 / TW, cw, label='normalise')
    ensures(implies(W != 0 and n_valid != 0, result == sum_of(cw) / TW), label='weighted-mean', props="C12")
    sum_nonneg(cw)
    sum_le(cw, wv)
    sum_nonneg(wv)
    ensures(0 <= result, result <= 1, label='range', props="C01")


def valid_count(c):
    return sum_of(array_of(length(c), lambda i: ite(c[i] >= 0, 1, 0), dtype='int'))


def masked_w(c, w):
    return array_of(length(c), lambda i: ite(c[i] >= 0, w[i], 0.0))


def masked_cw(c, w):
    return array_of(length(c), lambda i: ite(c[i] >= 0, c[i] * w[i], 0.0))


@lemma("C12")
def lemma_weighted_accuracy_scale_invariant(c: Arr(Real, None), w: Arr(Real, None), w2: Arr(Real, None), k: Real):
    """multiplying every weight by the same k > 0 changes nothing"""
    n = length(c)
    requires(comparison_values(c), length(w) == n, length(w2) == n, k > 0)
    requires(forall(0, n, lambda i: w[i] >= 0 and w2[i] == k * w[i]))
    requires(sum_of(w) > 0, valid_count(c) > 0, sum_of(masked_w(c, w)) > 0)
    sum_scale(w2, k, w)
    sum_scale(masked_w(c, w2), k, masked_w(c, w))
    sum_scale(masked_cw(c, w2), k, masked_cw(c, w))
    a = weighted_accuracy(c, w)
    b = weighted_accuracy(c, w2)
    ensures(a == b, label='scale')


@lemma("C12 C02")
def lemma_weighted_accuracy_all_ones(c: Arr(Real, None), w: Arr(Real, None)):
    """1 when every comparable comparison is 1"""
    n = length(c)
    requires(length(w) == n, forall(0, n, lambda i: w[i] >= 0), forall(0, n, lambda i: c[i] == -1 or c[i] == 1))
    requires(sum_of(w) > 0, valid_count(c) > 0, sum_of(masked_w(c, w)) > 0)
    sum_eq(masked_cw(c, w), masked_w(c, w), label='ones')
    r = weighted_accuracy(c, w)
    ensures(r == 1, label='all-ones')


@lemma("C12")
def lemma_weighted_accuracy_all_zeros(c: Arr(Real, None), w: Arr(Real, None)):
    """0 when every comparable comparison is 0"""
    n = length(c)
    requires(length(w) == n, forall(0, n, lambda i: w[i] >= 0), forall(0, n, lambda i: c[i] == -1 or c[i] == 0))
    requires(sum_of(w) > 0, valid_count(c) > 0, sum_of(masked_w(c, w)) > 0)
    sum_zero(masked_cw(c, w), label='zeros')
    r = weighted_accuracy(c, w)
    ensures(r == 0, label='all-zeros')
