"""Contracts for event-based matching and the onset task (C01 C02 C04 C05 C06 C07 C08 C14)."""

MAX_TIME = 30000.0


def sorted_events(x):
    return forall(0, length(x) - 1, lambda i: x[i] <= x[i + 1])


def valid_events(x, max_time):
    return forall(0, length(x), lambda i: x[i] <= max_time) and sorted_events(x)


def hit(ref, est, w):
    return lambda i, j: absr(ref[i] - est[j]) <= w


def mm_events(ref, est, w):
    return mm(length(ref), length(est), hit(ref, est, w))


@contract("mir_eval.util.validate_events", props="C14 C20")
def validate_events(events: Arr(Real, None), max_time: Real = 30000.0):
    raises(ValueError, when=not valid_events(events, max_time), props="C14")


@assumed_contract("mir_eval.util.match_events", props="C05 C04",
                  note="result is a maximum one-to-one matching inside the tolerance relation; body (graph construction + Hopcroft-Karp) is checked by the bounded exhaustive engine matchnative")
def match_events(ref: Arr(Real, None), est: Arr(Real, None), window: Real, distance: NoneT = None) -> Lst(ObjT):
    requires(window >= 0)
    ensures(length(result) == mm_events(ref, est, window), label='size')
    ensures(0 <= length(result), length(result) <= length(ref), length(result) <= length(est), label='pigeonhole')


@contract("mir_eval.onset.validate", props="C14")
def onset_validate(reference_onsets: Arr(Real, None), estimated_onsets: Arr(Real, None)):
    raises(ValueError, when=not (valid_events(reference_onsets, MAX_TIME) and valid_events(estimated_onsets, MAX_TIME)), props="C14")


@contract("mir_eval.onset.f_measure", props="C01 C02 C04 C06 C07 C08 C14")
def onset_f_measure(reference_onsets: Arr(Real, None), estimated_onsets: Arr(Real, None), window: Real = 0.05) -> Tup(Real, Real, Real):
    requires(window >= 0)
    raises(ValueError, when=not (valid_events(reference_onsets, MAX_TIME) and valid_events(estimated_onsets, MAX_TIME)), props="C14")
    F, P, R = result
    n = length(reference_onsets)
    m = length(estimated_onsets)
    M = mm_events(reference_onsets, estimated_onsets, window)
    ensures(implies(n == 0 or m == 0, F == 0 and P == 0 and R == 0), label='empty', props="C04 C01")
    ensures(implies(n > 0 and m > 0, P == M / m and R == M / n), label='PR-def', props="C04")
    ensures(F == F_beta(P, R, 1.0), label='F-def', props="C04")
    ensures(0 <= P, P <= 1, 0 <= R, R <= 1, 0 <= F, F <= 1, label='range', props="C01")


def F_beta(p, r, beta):
    return ite(p == 0 and r == 0, 0.0, (1 + beta * beta) * p * r / (beta * beta * p + r))


# ----------------------------------------------------------------------------- lemmas (two-run properties) for onset.f_measure
@lemma("C02")
def lemma_onset_perfect(a: Arr(Real, None), w: Real):
    requires(valid_events(a, MAX_TIME), w >= 0, length(a) > 0)
    mm_diagonal(length(a), length(a), hit(a, a, w))
    F, P, R = onset_f_measure(a, a, w)
    ensures(P == 1, R == 1, F == 1, label='perfect')


@lemma("C06")
def lemma_onset_swap(a: Arr(Real, None), b: Arr(Real, None), w: Real):
    requires(valid_events(a, MAX_TIME), valid_events(b, MAX_TIME), w >= 0)
    mm_transpose(length(a), length(b), hit(a, b, w), hit(b, a, w))
    F1, P1, R1 = onset_f_measure(a, b, w)
    F2, P2, R2 = onset_f_measure(b, a, w)
    ensures(P1 == R2, R1 == P2, F1 == F2, label='swap')


@lemma("C07")
def lemma_onset_window_monotone(a: Arr(Real, None), b: Arr(Real, None), w1: Real, w2: Real):
    requires(valid_events(a, MAX_TIME), valid_events(b, MAX_TIME), 0 <= w1, w1 <= w2)
    mm_monotone(length(a), length(b), hit(a, b, w1), hit(a, b, w2))
    F1, P1, R1 = onset_f_measure(a, b, w1)
    F2, P2, R2 = onset_f_measure(a, b, w2)
    ensures(P1 <= P2, R1 <= R2, label='PR-monotone')
    ensures(F1 <= F2, label='F-monotone')


@lemma("C08")
def lemma_onset_shift(a: Arr(Real, None), b: Arr(Real, None), a2: Arr(Real, None), b2: Arr(Real, None), d: Real, w: Real):
    """adding the same offset d to every reference and estimated time changes nothing"""
    requires(valid_events(a, MAX_TIME), valid_events(b, MAX_TIME), valid_events(a2, MAX_TIME), valid_events(b2, MAX_TIME), w >= 0)
    requires(length(a2) == length(a), length(b2) == length(b))
    requires(forall(0, length(a), lambda i: a2[i] == a[i] + d), forall(0, length(b), lambda j: b2[j] == b[j] + d))
    mm_monotone(length(a), length(b), hit(a, b, w), hit(a2, b2, w))
    mm_monotone(length(a), length(b), hit(a2, b2, w), hit(a, b, w))
    F1, P1, R1 = onset_f_measure(a, b, w)
    F2, P2, R2 = onset_f_measure(a2, b2, w)
    ensures(P1 == P2, R1 == R2, F1 == F2, label='shift')


# ----------------------------------------------------------------------------- beat.f_measure (same matching scheme as onsets)
@contract("mir_eval.beat.validate", props="C14")
def beat_validate(reference_beats: Arr(Real, None), estimated_beats: Arr(Real, None)):
    raises(ValueError, when=not (valid_events(reference_beats, MAX_TIME) and valid_events(estimated_beats, MAX_TIME)), props="C14")


@contract("mir_eval.beat.f_measure", props="C01 C02 C04 C06 C07 C08 C14")
def beat_f_measure(reference_beats: Arr(Real, None), estimated_beats: Arr(Real, None), f_measure_threshold: Real = 0.07) -> Real:
    requires(f_measure_threshold >= 0)
    raises(ValueError, when=not (valid_events(reference_beats, MAX_TIME) and valid_events(estimated_beats, MAX_TIME)), props="C14")
    n = length(reference_beats)
    m = length(estimated_beats)
    M = mm_events(reference_beats, estimated_beats, f_measure_threshold)
    ensures(implies(n == 0 or m == 0, result == 0), label='empty', props="C04 C01")
    ensures(implies(n > 0 and m > 0, result == F_beta(M / m, M / n, 1.0)), label='F-def', props="C04")
    ensures(0 <= result, result <= 1, label='range', props="C01")


@lemma("C02")
def lemma_beat_perfect(a: Arr(Real, None), w: Real):
    requires(valid_events(a, MAX_TIME), w >= 0, length(a) > 0)
    mm_diagonal(length(a), length(a), hit(a, a, w))
    ensures(beat_f_measure(a, a, w) == 1, label='perfect')


@lemma("C06")
def lemma_beat_swap(a: Arr(Real, None), b: Arr(Real, None), w: Real):
    requires(valid_events(a, MAX_TIME), valid_events(b, MAX_TIME), w >= 0)
    mm_transpose(length(a), length(b), hit(a, b, w), hit(b, a, w))
    ensures(beat_f_measure(a, b, w) == beat_f_measure(b, a, w), label='swap')


@lemma("C07")
def lemma_beat_window_monotone(a: Arr(Real, None), b: Arr(Real, None), w1: Real, w2: Real):
    requires(valid_events(a, MAX_TIME), valid_events(b, MAX_TIME), 0 <= w1, w1 <= w2)
    mm_monotone(length(a), length(b), hit(a, b, w1), hit(a, b, w2))
    mm_bounds(length(a), length(b), hit(a, b, w1))
    mm_bounds(length(a), length(b), hit(a, b, w2))
    ensures(beat_f_measure(a, b, w1) <= beat_f_measure(a, b, w2), label='F-monotone')


@lemma("C08")
def lemma_beat_shift(a: Arr(Real, None), b: Arr(Real, None), a2: Arr(Real, None), b2: Arr(Real, None), d: Real, w: Real):
    requires(valid_events(a, MAX_TIME), valid_events(b, MAX_TIME), valid_events(a2, MAX_TIME), valid_events(b2, MAX_TIME), w >= 0)
    requires(length(a2) == length(a), length(b2) == length(b))
    requires(forall(0, length(a), lambda i: a2[i] == a[i] + d), forall(0, length(b), lambda j: b2[j] == b[j] + d))
    mm_monotone(length(a), length(b), hit(a, b, w), hit(a2, b2, w))
    mm_monotone(length(a), length(b), hit(a2, b2, w), hit(a, b, w))
    ensures(beat_f_measure(a, b, w) == beat_f_measure(a2, b2, w), label='shift')


@contract("mir_eval.util.validate_frequencies", props="C14")
def validate_frequencies(frequencies: Arr(Real, None), max_freq: Real, min_freq: Real, allow_negatives: Bool = False):
    raises(ValueError, when=exists(0, length(frequencies), lambda i: absr(frequencies[i]) > max_freq or absr(frequencies[i]) < min_freq), props="C14")


@contract("mir_eval.tempo.validate_tempi", props="C14 C20")
def validate_tempi(tempi: Arr(Real, 2), reference: Bool = True):
    raises(ValueError, when=tempi[0] < 0 or tempi[1] < 0 or (reference and tempi[0] == 0 and tempi[1] == 0), props="C14")


@contract("mir_eval.util._outer_distance_mod_n", props="C05 C07 C04")
def _outer_distance_mod_n(ref: Arr(Real, None), est: Arr(Real, None), modulus: Real = 12.0) -> Arr(Real, None, None):
    """circular distance of the residues: min(|a - b|, n - |a - b|) with a = ref mod n, b = est mod n"""
    requires(modulus > 0)
    ensures(forall2_rect(length(ref), length(est), lambda i, j: result[i, j] == min(absr(ref[i] % modulus - est[j] % modulus),
                                                                                        modulus - absr(ref[i] % modulus - est[j] % modulus))),
            label='circular-distance', props="C05 C04")
    ensures(forall2_rect(length(ref), length(est), lambda i, j: 0 <= result[i, j] and 2 * result[i, j] <= modulus), label='range', props="C05")


@contract("mir_eval.util.intervals_to_durations", props="C12 C04 C14 C05")
def intervals_to_durations(intervals: Arr(Real, None, 2)) -> Arr(Real, None):
    raises(ValueError, when=not forall(0, length(intervals), lambda i: 0 <= intervals[i, 0] and 0 <= intervals[i, 1] and intervals[i, 0] < intervals[i, 1]), props="C14")
    ensures(length(result) == length(intervals), forall(0, length(intervals), lambda i: result[i] == absr(intervals[i, 1] - intervals[i, 0])), label='durations', props="C12 C04 C05")


@contract("mir_eval.beat.trim_beats", props="C03 C14", mask_triggers=True)
def trim_beats(beats: Arr(Real, None), min_beat_time: Real = 5.0) -> Arr(Real, None):
    """exactly the beats at or after min_beat_time, in their original order"""
    ensures(forall(0, length(result), lambda k: result[k] >= min_beat_time), label='only-late-beats', props="C03")
    ensures(length(result) <= length(beats), label='no-more-than-given', props="C03")
    ensures(forall(0, length(beats), lambda i: implies(beats[i] >= min_beat_time, exists(0, length(result), lambda k: result[k] == beats[i]))),
            label='every-late-beat-kept', props="C03")
    ensures(implies(sorted_events(beats), sorted_events(result)), label='order-kept', props="C03")


@contract("mir_eval.beat._get_reference_beat_variations", props="C04 C07")
def beat_variations(reference_beats: Arr(Real, None)):
    """the five metrical variations: the beats themselves, the off-beats (midpoints), double tempo (beats and midpoints interleaved),
    and the two half-tempo subsequences"""
    n = length(reference_beats)
    requires(n > 0)
    orig, off, dbl, odd, even = result
    ensures(length(orig) == n, forall(0, n, lambda k: orig[k] == reference_beats[k]), label='original-level')
    ensures(length(dbl) == 2 * n - 1, forall(0, n, lambda k: dbl[2 * k] == reference_beats[k]),
            forall(0, n - 1, lambda k: dbl[2 * k + 1] == (reference_beats[k] + reference_beats[k + 1]) / 2), label='double-tempo')
    ensures(length(off) == n - 1, forall(0, n - 1, lambda k: off[k] == (reference_beats[k] + reference_beats[k + 1]) / 2), label='off-beat')
    ensures(2 * length(odd) >= n, 2 * length(odd) <= n + 1, forall(0, length(odd), lambda k: odd[k] == reference_beats[2 * k]), label='half-tempo-odd')
    ensures(2 * length(even) >= n - 1, 2 * length(even) <= n, forall(0, length(even), lambda k: even[k] == reference_beats[2 * k + 1]), label='half-tempo-even')
