"""Contracts for the hierarchy T-/L-measures (C17, C06, C14, C01): parameter validation and the role-exchange structure.
The ranking core (_lca, _meet, _gauc, _compare_frame_rankings) is assumed here and checked against the brute-force triplet
definition by the bounded engine hiernative."""

valid_hier = uninterpreted('valid_hier', ['ObjT'], 'Bool')
lca_of = uninterpreted('lca_of', ['ObjT', 'Real'], 'ObjT')
meet_of = uninterpreted('meet_of', ['ObjT', 'ObjT', 'Real'], 'ObjT')
gauc_of = uninterpreted('gauc_of', ['ObjT', 'ObjT', 'Bool', 'Int'], 'Real')


def F_beta(p, r, beta):
    return ite(p == 0 and r == 0, 0.0, (1 + beta * beta) * p * r / (beta * beta * p + r))


def win(w):
    return ite(is_none(w), -1, val(w))


@assumed_contract("mir_eval.hierarchy.validate_hier_intervals", props="C14 C17", note="defines valid_hier; bounded engine hiernative")
def validate_hier_intervals(intervals_hier: ObjT):
    raises(ValueError, when=not valid_hier(intervals_hier))


@assumed_contract("mir_eval.hierarchy._lca", props="C17", note="least-common-ancestor depth matrix; bounded engine hiernative")
def _lca(intervals_hier: ObjT, frame_size: Real) -> ObjT:
    requires(frame_size > 0)
    ensures(result == lca_of(intervals_hier, frame_size))


@assumed_contract("mir_eval.hierarchy._meet", props="C17", note="label-agreement depth matrix; bounded engine hiernative")
def _meet(intervals_hier: ObjT, labels_hier: ObjT, frame_size: Real) -> ObjT:
    requires(frame_size > 0)
    ensures(result == meet_of(intervals_hier, labels_hier, frame_size))


@assumed_contract("mir_eval.hierarchy._gauc", props="C17 C01", note="mean over query frames of the fraction of correctly ranked triples; bounded engine hiernative")
def _gauc(ref_lca: ObjT, est_lca: ObjT, transitive: Bool, window: Opt(Int)) -> Real:
    requires(is_none(window) or val(window) >= 1)
    ensures(result == gauc_of(ref_lca, est_lca, transitive, win(window)), 0 <= result, result <= 1)


@contract("mir_eval.hierarchy.tmeasure", props="C17 C06 C14 C01")
def tmeasure(reference_intervals_hier: ObjT, estimated_intervals_hier: ObjT, transitive: Bool = False, window: Opt(Real) = 15.0,
             frame_size: Real = 0.1, beta: Real = 1.0) -> Tup(Real, Real, Real):
    inline("mir_eval.hierarchy._round")
    requires(beta > 0)
    raises(ValueError, when=frame_size <= 0 or (not is_none(window) and frame_size > val(window))
           or not valid_hier(reference_intervals_hier) or not valid_hier(estimated_intervals_hier), props="C17 C14")
    P, R, F = result
    ref = lca_of(reference_intervals_hier, frame_size)
    est = lca_of(estimated_intervals_hier, frame_size)
    wf = window_frames(window, frame_size)
    ensures(P == gauc_of(est, ref, transitive, wf), R == gauc_of(ref, est, transitive, wf), label='roles', props="C17 C06")
    ensures(F == F_beta(P, R, beta), label='F-def', props="C17")
    ensures(0 <= P, P <= 1, 0 <= R, R <= 1, 0 <= F, F <= 1, label='range', props="C17 C01")


def window_frames(window, frame_size):
    """number of whole frames in the window: int((window - window mod frame_size) / frame_size); -1 stands for `no window`"""
    return ite(is_none(window), -1, int((val(window) - val(window) % frame_size) / frame_size))


@contract("mir_eval.hierarchy.lmeasure", props="C17 C06 C14 C01")
def lmeasure(reference_intervals_hier: ObjT, reference_labels_hier: ObjT, estimated_intervals_hier: ObjT, estimated_labels_hier: ObjT,
             frame_size: Real = 0.1, beta: Real = 1.0) -> Tup(Real, Real, Real):
    requires(beta > 0)
    raises(ValueError, when=frame_size <= 0 or not valid_hier(reference_intervals_hier) or not valid_hier(estimated_intervals_hier), props="C17 C14")
    P, R, F = result
    ref = meet_of(reference_intervals_hier, reference_labels_hier, frame_size)
    est = meet_of(estimated_intervals_hier, estimated_labels_hier, frame_size)
    ensures(P == gauc_of(est, ref, True, -1), R == gauc_of(ref, est, True, -1), label='roles', props="C17 C06")
    ensures(F == F_beta(P, R, beta), label='F-def', props="C17")
    ensures(0 <= P, P <= 1, 0 <= R, R <= 1, 0 <= F, F <= 1, label='range', props="C17 C01")


@lemma("C06")
def lemma_tmeasure_swap(a: ObjT, b: ObjT, transitive: Bool, window: Opt(Real), frame_size: Real):
    """exchanging reference and estimate exchanges T-precision and T-recall and keeps the T-measure at beta = 1"""
    requires(valid_hier(a), valid_hier(b), frame_size > 0, is_none(window) or frame_size <= val(window))
    P1, R1, F1 = tmeasure(a, b, transitive, window, frame_size, 1.0)
    P2, R2, F2 = tmeasure(b, a, transitive, window, frame_size, 1.0)
    ensures(P1 == R2, R1 == P2, F1 == F2, label='swap')


@lemma("C06")
def lemma_lmeasure_swap(a: ObjT, la: ObjT, b: ObjT, lb: ObjT, frame_size: Real):
    requires(valid_hier(a), valid_hier(b), frame_size > 0)
    P1, R1, F1 = lmeasure(a, la, b, lb, frame_size, 1.0)
    P2, R2, F2 = lmeasure(b, lb, a, la, frame_size, 1.0)
    ensures(P1 == R2, R1 == P2, F1 == F2, label='swap')
