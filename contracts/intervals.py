"""Contracts for interval pre-processing (C13, C14, C15)."""


def starts(I, i):
    return I[i, 0]


def positive(I):
    return forall(0, length(I), lambda i: I[i, 0] < I[i, 1])


def ordered(I):
    """time-ordered and non-overlapping, stated pairwise"""
    return forall2(0, length(I), lambda i, j: implies(i < j, I[i, 1] <= I[j, 0]))


@contract("mir_eval.util.validate_intervals", props="C14 C20")
def validate_intervals(intervals: Arr(Real, None, 2)):
    raises(ValueError, when=not forall(0, length(intervals), lambda i: 0 <= intervals[i, 0] and 0 <= intervals[i, 1]
                                       and intervals[i, 0] < intervals[i, 1]), props="C14")


@contract("mir_eval.util.adjust_intervals", props="C13 C14", shards=12)
def adjust_intervals(intervals: Arr(Real, None, 2), labels: Opt(Lst(ObjT)) = None, t_min: Opt(Real) = 0.0, t_max: Opt(Real) = None,
                     start_label: ObjT = "__T_MIN", end_label: ObjT = "__T_MAX"):
    n = length(intervals)
    requires(positive(intervals), ordered(intervals))
    requires(implies(not is_none(labels), length(val(labels)) == n))
    requires(implies(not is_none(t_min) and not is_none(t_max), val(t_min) < val(t_max)))
    raises(ValueError, when=n == 0 and (is_none(t_min) or is_none(t_max)), props="C14")
    out = result[0]
    lab = result[1]
    m = length(out)
    ensures(m >= 1, label='non-empty', props="C13")
    ensures(implies(not is_none(labels), length(lab) == m), label='labels-length', props="C13")
    ensures(implies(not is_none(t_min), out[0, 0] == val(t_min) and forall(0, m, lambda k: out[k, 0] >= val(t_min))), label='begins-at-t_min', props="C13")
    ensures(implies(not is_none(t_max), out[m - 1, 1] == val(t_max) and forall(0, m, lambda k: out[k, 1] <= val(t_max))), label='ends-at-t_max', props="C13")
    ensures(forall(0, m, lambda k: out[k, 0] < out[k, 1]), label='positive-duration', props="C13 C14")
    ensures(forall2(0, m, lambda k, l: implies(k < l, out[k, 1] <= out[l, 0])), label='ordered', props="C13")


def sorted_pairwise(x):
    return forall2(0, length(x), lambda i, j: implies(i < j, x[i] <= x[j]))


@contract("mir_eval.util.adjust_events", props="C13 C14", shards=4)
def adjust_events(events: Arr(Real, None), labels: Opt(Lst(ObjT)) = None, t_min: Opt(Real) = 0.0, t_max: Opt(Real) = None, label_prefix: ObjT = "__"):
    n = length(events)
    requires(n >= 1, sorted_pairwise(events))
    requires(implies(not is_none(labels), length(val(labels)) == n))
    requires(implies(not is_none(t_min) and not is_none(t_max), val(t_min) < val(t_max)))
    # recorded finding KF-adjust-events-outside: event lists lying wholly before t_min are returned uncropped, lists wholly after t_max
    # raise IndexError (same class as the adjust_intervals finding) - excluded here
    requires(is_none(t_min) or events[n - 1] >= val(t_min), is_none(t_max) or events[0] <= val(t_max))
    out = result[0]
    lab = result[1]
    m = length(out)
    ensures(m >= 1, label='non-empty', props="C13")
    ensures(implies(not is_none(labels), length(lab) == m), label='labels-length', props="C13")
    ensures(implies(not is_none(t_min), out[0] == val(t_min) and forall(0, m, lambda k: out[k] >= val(t_min))), label='begins-at-t_min', props="C13")
    ensures(implies(not is_none(t_max), out[m - 1] == val(t_max) and forall(0, m, lambda k: out[k] <= val(t_max))), label='ends-at-t_max', props="C13")
    ensures(forall2(0, m, lambda k, l: implies(k < l, out[k] <= out[l])), label='sorted', props="C13")


def valid_intervals(I):
    return forall(0, length(I), lambda i: 0 <= I[i, 0] and 0 <= I[i, 1] and I[i, 0] < I[i, 1])


def close_to(a, b):
    return absr(a - b) <= 1e-08 + 1e-05 * absr(b)


@contract("mir_eval.segment.validate_structure", props="C14")
def validate_structure(reference_intervals: Arr(Real, None, 2), reference_labels: Lst(ObjT), estimated_intervals: Arr(Real, None, 2), estimated_labels: Lst(ObjT)):
    """documented conventions of a labelled segmentation pair: valid intervals, one label per interval, start at 0, end together"""
    nr = length(reference_intervals)
    ne = length(estimated_intervals)
    raises(ValueError, when=not (valid_intervals(reference_intervals) and valid_intervals(estimated_intervals)
                                 and length(reference_labels) == nr and length(estimated_labels) == ne
                                 and implies(nr > 0, starts_at_zero(reference_intervals)) and implies(ne > 0, starts_at_zero(estimated_intervals))
                                 and implies(nr > 0 and ne > 0, end_together(reference_intervals, estimated_intervals))), props="C14")


def starts_at_zero(I):
    """the smallest boundary is (numerically) 0; for valid intervals that is the smallest start"""
    return exists(0, length(I), lambda i: I[i, 0] <= 1e-08)


def end_together(R, E):
    """the largest boundaries of the two annotations agree (np.allclose tolerance)"""
    return exists(0, length(R), lambda i: forall(0, length(R), lambda k: R[k, 1] <= R[i, 1])
                  and exists(0, length(E), lambda j: forall(0, length(E), lambda k: E[k, 1] <= E[j, 1]) and close_to(R[i, 1], E[j, 1])))


# ----------------------------------------------------------------------------- merge_labeled_intervals
def contiguous(I):
    return forall(0, length(I) - 1, lambda i: I[i, 1] == I[i + 1, 0])


def bnd(P, t):
    """boundary t of the contiguous pieces P: the start of piece t, and the end of the last piece for t = length(P)"""
    return ite(t < length(P), P[t, 0], P[length(P) - 1, 1])


def keeps(P, I, c):
    """every start (c = 0) / end (c = 1) of an interval of I is a boundary of P"""
    return forall(0, length(I), lambda j: exists(0, length(P) + 1, lambda t: bnd(P, t) == I[j, c]))


def is_boundary(I, t):
    return exists(0, length(I), lambda i: I[i, 0] == t or I[i, 1] == t)


@contract("mir_eval.util.merge_labeled_intervals", props="C13 C14 C12", mask_triggers=True)
def merge_labeled_intervals(x_intervals: Arr(Real, None, 2), x_labels: Lst(ObjT), y_intervals: Arr(Real, None, 2), y_labels: Lst(ObjT)):
    """the common refinement of two aligned, contiguous annotations"""
    n = length(x_intervals)
    m = length(y_intervals)
    requires(n > 0, m > 0, length(x_labels) == n, length(y_labels) == m)
    requires(positive(x_intervals), ordered(x_intervals))
    requires(positive(y_intervals), ordered(y_intervals))
    raises(ValueError, when=x_intervals[0, 0] != y_intervals[0, 0] or x_intervals[n - 1, 1] != y_intervals[m - 1, 1], props="C14 C13")
    invariant(lambda: length(x_labels_out) == loop_index(0) and length(y_labels_out) == loop_index(0), loop=0, label='one-label-per-piece',
              havoc={'x_labels_out': 'obj', 'y_labels_out': 'obj'})
    invariant(lambda: forall2_rect(loop_index(0), length(x_intervals), lambda t, j: implies(x_intervals[j, 0] <= output_intervals[t, 0] and output_intervals[t, 0] < x_intervals[j, 1],
                                                                         x_labels_out[t] == x_labels[j])), loop=0, label='x-label-of-the-piece')
    invariant(lambda: forall2_rect(loop_index(0), length(y_intervals), lambda t, j: implies(y_intervals[j, 0] <= output_intervals[t, 0] and output_intervals[t, 0] < y_intervals[j, 1],
                                                                         y_labels_out[t] == y_labels[j])), loop=0, label='y-label-of-the-piece')
    out, xl, yl = result
    k = length(out)
    ensures(k > 0, length(xl) == k, length(yl) == k, label='sizes')
    ensures(forall(0, k, lambda i: out[i, 0] < out[i, 1]), label='positive-duration')
    ensures(forall(0, k - 1, lambda i: out[i, 1] == out[i + 1, 0]), label='contiguous')
    assert_step(forall(0, k, lambda i: out[i, 1] <= x_intervals[n - 1, 1]), label='no-piece-ends-after-the-span')
    ensures(out[0, 0] == x_intervals[0, 0], out[k - 1, 1] == x_intervals[n - 1, 1], label='span-conserved')
    ensures(forall2_rect(k, n, lambda t, j: implies(x_intervals[j, 0] <= out[t, 0] and out[t, 0] < x_intervals[j, 1], xl[t] == x_labels[j])),
            forall2_rect(k, m, lambda t, j: implies(y_intervals[j, 0] <= out[t, 0] and out[t, 0] < y_intervals[j, 1], yl[t] == y_labels[j])),
            label='each-piece-carries-both-labels')
    ensures(keeps(out, x_intervals, 0), keeps(out, x_intervals, 1), keeps(out, y_intervals, 0), keeps(out, y_intervals, 1), label='every-input-boundary-is-a-piece-boundary')
    ensures(forall(0, k + 1, lambda t: is_boundary(x_intervals, bnd(out, t)) or is_boundary(y_intervals, bnd(out, t))), label='every-piece-boundary-is-an-input-boundary')


# ----------------------------------------------------------------------------- intervals_to_boundaries
ROUND = uninterpreted('ROUND', ['Real', 'Int'], 'Real')


@contract("mir_eval.util.intervals_to_boundaries", props="C13")
def intervals_to_boundaries(intervals: Arr(Real, None, 2), q: Int = 5) -> Arr(Real, None):
    """the sorted distinct interval end points, each rounded to q decimals"""
    n = length(intervals)
    ensures(forall(0, length(result) - 1, lambda k: result[k] < result[k + 1]), label='strictly-increasing')
    ensures(implies(n > 0, length(result) > 0), length(result) <= 2 * n, label='size')
    ensures(forall(0, length(result), lambda k: exists(0, n, lambda i: result[k] == ROUND(intervals[i, 0], q) or result[k] == ROUND(intervals[i, 1], q))),
            label='only-rounded-end-points')


# ----------------------------------------------------------------------------- interpolate_intervals
def inside(I, j, t):
    return I[j, 0] <= t and t <= I[j, 1]


@contract("mir_eval.util.interpolate_intervals", props="C13 C14")
def interpolate_intervals(intervals: Arr(Real, None, 2), labels: Lst(ObjT), time_points: Arr(Real, None), fill_value: ObjT = None) -> Lst(ObjT):
    """every time point gets the label of the last listed interval that contains it (closed intervals), the fill value if none does"""
    n = length(intervals)
    m = length(time_points)
    requires(length(labels) == n)
    raises(ValueError, when=exists(0, m - 1, lambda p: time_points[p + 1] < time_points[p]), props="C14 C13")
    invariant(lambda: length(aligned_labels) == length(time_points), loop=0, label='one-label-per-point')
    invariant(lambda: forall2_rect(length(time_points), loop_index(0), lambda p, j: implies(
        inside(intervals, j, time_points[p]) and forall(j + 1, loop_index(0), lambda j2: not inside(intervals, j2, time_points[p])),
        aligned_labels[p] == labels[j])), loop=0, label='last-containing-interval-wins')
    invariant(lambda: forall(0, length(time_points), lambda p: implies(forall(0, loop_index(0), lambda j: not inside(intervals, j, time_points[p])),
                                                                      aligned_labels[p] == fill_value)), loop=0, label='fill-outside')
    ensures(length(result) == m, label='size')
    ensures(forall2_rect(m, n, lambda p, j: implies(inside(intervals, j, time_points[p]) and forall(j + 1, n, lambda j2: not inside(intervals, j2, time_points[p])),
                                                   result[p] == labels[j])), label='label-of-the-last-containing-interval', props="C13")
    ensures(forall(0, m, lambda p: implies(forall(0, n, lambda j: not inside(intervals, j, time_points[p])), result[p] == fill_value)),
            label='fill-value-outside-every-interval', props="C13")


# ----------------------------------------------------------------------------- intervals_to_samples
@contract("mir_eval.util.intervals_to_samples", props="C13 C16 C12")
def intervals_to_samples(intervals: Arr(Real, None, 2), labels: Lst(ObjT), offset: Real = 0.0, sample_size: Real = 0.1, fill_value: ObjT = None) -> Tup(Lst(Real), Lst(ObjT)):
    """the sample grid k * sample_size + offset, k = 0 .. floor(max end / sample_size) - 1, and for each sample the label of the last listed
    interval containing it (the fill value outside every interval)"""
    n = length(intervals)
    requires(n > 0, length(labels) == n, sample_size > 0, offset >= 0)
    requires(forall(0, n, lambda i: intervals[i, 0] >= 0 and intervals[i, 0] <= intervals[i, 1]))
    times, labs = result
    m = length(times)
    ensures(length(labs) == m, label='one-label-per-sample')
    ensures(forall(0, m, lambda k: times[k] == k * sample_size + offset), label='uniform-grid', props="C13 C16")
    ensures(exists(0, n, lambda i: m <= intervals[i, 1] / sample_size and forall(0, n, lambda j: intervals[j, 1] <= intervals[i, 1])
                   and intervals[i, 1] / sample_size < m + 1), label='floor-of-the-duration', props="C16 C12")
    ensures(forall2_rect(m, n, lambda p, j: implies(inside(intervals, j, times[p]) and forall(j + 1, n, lambda j2: not inside(intervals, j2, times[p])),
                                                   labs[p] == labels[j])), label='label-of-the-last-containing-interval', props="C13 C16")
    ensures(forall(0, m, lambda p: implies(forall(0, n, lambda j: not inside(intervals, j, times[p])), labs[p] == fill_value)),
            label='fill-value-outside-every-interval', props="C13")
