"""Control contracts of the annotation loaders (C20, C14): what is returned, in file order, and which exceptions escape.
A file is opaque: `file_ok(f, d, c, k)` = every non-comment row splits into k columns whose numeric fields parse (what
load_delimited checks, row by row); `file_rows`, `file_num(f, col, row)`, `file_txt(f, col, row)` = its parsed content.  The
parsing itself (re.split, float(), comment regex) is library behaviour exercised by the bounded engine ionative."""

file_ok = uninterpreted('file_ok', ['ObjT', 'ObjT', 'ObjT', 'Int'], 'Bool')
file_rows = uninterpreted('file_rows', ['ObjT', 'ObjT', 'ObjT'], 'Int')
file_num = uninterpreted('file_num', ['ObjT', 'Int', 'Int'], 'Real')
file_txt = uninterpreted('file_txt', ['ObjT', 'Int', 'Int'], 'ObjT')
valid_key = uninterpreted('valid_key', ['ObjT'], 'Bool')


@assumed_contract("mir_eval.io.load_delimited", props="C20", note="row-by-row splitting and conversion; bounded engine ionative")
def load_delimited(filename: ObjT, converters: ObjT, delimiter: ObjT = "ws", comment: ObjT = "#"):
    raises(ValueError, when=not file_ok(filename, delimiter, comment, length(converters)))
    ensures(file_rows(filename, delimiter, comment) >= 0)
    returns(columns_of(file_rows(filename, delimiter, comment), converters, lambda col, row: file_num(filename, col, row),
                       lambda col, row: file_txt(filename, col, row)))


@assumed_contract("mir_eval.key.validate_key", props="C14", note="defines valid_key; exhaustive conformance in keynative")
def validate_key(key: ObjT):
    raises(ValueError, when=not valid_key(key))


@contract("mir_eval.io.load_events", props="C20 C14")
def load_events(filename: ObjT, delimiter: ObjT = "ws", comment: ObjT = "#"):
    raises(ValueError, when=not file_ok(filename, delimiter, comment, 1), props="C20")
    n = file_rows(filename, delimiter, comment)
    ensures(length(result) == n, forall(0, n, lambda r: result[r] == file_num(filename, 0, r)), label='content-in-file-order', props="C20")


@contract("mir_eval.io.load_labeled_events", props="C20 C14")
def load_labeled_events(filename: ObjT, delimiter: ObjT = "ws", comment: ObjT = "#"):
    raises(ValueError, when=not file_ok(filename, delimiter, comment, 2), props="C20")
    n = file_rows(filename, delimiter, comment)
    ensures(length(result[0]) == n, length(result[1]) == n, forall(0, n, lambda r: result[0][r] == file_num(filename, 0, r) and result[1][r] == file_txt(filename, 1, r)),
            label='content-in-file-order', props="C20")


@contract("mir_eval.io.load_intervals", props="C20 C14")
def load_intervals(filename: ObjT, delimiter: ObjT = "ws", comment: ObjT = "#"):
    raises(ValueError, when=not file_ok(filename, delimiter, comment, 2), props="C20")
    n = file_rows(filename, delimiter, comment)
    ensures(length(result) == n, forall(0, n, lambda r: result[r, 0] == file_num(filename, 0, r) and result[r, 1] == file_num(filename, 1, r)),
            label='content-in-file-order', props="C20")


@contract("mir_eval.io.load_labeled_intervals", props="C20 C14")
def load_labeled_intervals(filename: ObjT, delimiter: ObjT = "ws", comment: ObjT = "#"):
    raises(ValueError, when=not file_ok(filename, delimiter, comment, 3), props="C20")
    n = file_rows(filename, delimiter, comment)
    ensures(length(result[0]) == n, length(result[1]) == n,
            forall(0, n, lambda r: result[0][r, 0] == file_num(filename, 0, r) and result[0][r, 1] == file_num(filename, 1, r) and result[1][r] == file_txt(filename, 2, r)),
            label='content-in-file-order', props="C20")


@contract("mir_eval.io.load_valued_intervals", props="C20 C14")
def load_valued_intervals(filename: ObjT, delimiter: ObjT = "ws", comment: ObjT = "#"):
    raises(ValueError, when=not file_ok(filename, delimiter, comment, 3), props="C20")
    n = file_rows(filename, delimiter, comment)
    ensures(length(result[0]) == n, length(result[1]) == n,
            forall(0, n, lambda r: result[0][r, 0] == file_num(filename, 0, r) and result[0][r, 1] == file_num(filename, 1, r) and result[1][r] == file_num(filename, 2, r)),
            label='content-in-file-order', props="C20")


@contract("mir_eval.io.load_time_series", props="C20 C14")
def load_time_series(filename: ObjT, delimiter: ObjT = "ws", comment: ObjT = "#"):
    raises(ValueError, when=not file_ok(filename, delimiter, comment, 2), props="C20")
    n = file_rows(filename, delimiter, comment)
    ensures(length(result[0]) == n, length(result[1]) == n, forall(0, n, lambda r: result[0][r] == file_num(filename, 0, r) and result[1][r] == file_num(filename, 1, r)),
            label='content-in-file-order', props="C20")


@contract("mir_eval.io.load_key", props="C20 C14")
def load_key(filename: ObjT, delimiter: ObjT = "ws", comment: ObjT = "#"):
    """one row `tonic mode`; convention violations are returned (with a warning), a second row is an error"""
    raises(ValueError, when=not file_ok(filename, delimiter, comment, 2) or file_rows(filename, delimiter, comment) != 1, props="C20")
    ensures(result == fmt("{} {}", file_txt(filename, 0, 0), file_txt(filename, 1, 0)), label='content', props="C20")


@contract("mir_eval.io.load_tempo", props="C20 C14")
def load_tempo(filename: ObjT, delimiter: ObjT = "ws", comment: ObjT = "#"):
    """one row `tempo1 tempo2 weight`; a weight outside [0, 1] and a second (or missing) row are errors, other violations only warn"""
    raises(ValueError, when=not file_ok(filename, delimiter, comment, 3) or file_rows(filename, delimiter, comment) != 1
           or not (0 <= file_num(filename, 2, 0) and file_num(filename, 2, 0) <= 1), props="C20")
    ensures(length(result[0]) == 2, result[0][0] == file_num(filename, 0, 0), result[0][1] == file_num(filename, 1, 0), result[1] == file_num(filename, 2, 0),
            label='content', props="C20")
