"""Contracts for mir_eval.key.  A key string is an opaque object with two abstract attributes:
key_tonic(k) in 0..11 or None (the 'X' key) and key_mode(k) in {major, minor, other} or None.
What these are for a concrete string is checked exhaustively over the (finite) set of valid key strings by the
bounded conformance engine `keynative`; here the scoring table is proved for every combination."""

key_is_x = uninterpreted('key_is_x', ['ObjT'], 'Bool')
key_tonic = uninterpreted('key_tonic', ['ObjT'], 'Int')
key_mode = uninterpreted('key_mode', ['ObjT'], 'Enum:Mode:major,minor,other')
valid_key = uninterpreted('valid_key', ['ObjT'], 'Bool')

MAJOR = 'major'
MINOR = 'minor'


def key_table(rx, rt, rm, ex, et, em):
    """the documented relationship table (reference tonic/mode, estimated tonic/mode; *x = key is 'X')"""
    same = (rx and ex) or (not rx and not ex and rt == et and rm == em)
    d = (et - rt) % 12
    return ite(same, 1.0,
               ite(rx or ex, 0.0,
                   ite(em == rm and d == 7, 0.5,                                   # perfect fifth, same mode
                       ite(em != rm and rm == MAJOR and d == 9, 0.3,               # relative minor of a major reference
                           ite(em != rm and rm == MINOR and d == 3, 0.3,           # relative major of a minor reference
                               ite(em != rm and d == 0, 0.2, 0.0))))))             # parallel


@assumed_contract("mir_eval.key.validate", props="C14", note="defines valid_key; checked exhaustively over all valid key strings and on mutated strings by keynative")
def validate(reference_key: ObjT, estimated_key: ObjT):
    raises(ValueError, when=not (valid_key(reference_key) and valid_key(estimated_key)))


@assumed_contract("mir_eval.key.split_key_string", props="C04", note="defines key_tonic / key_mode; checked exhaustively over all valid key strings by keynative")
def split_key_string(key: ObjT) -> Tup(Opt(Int), Opt(Enum('Mode', ['major', 'minor', 'other']))):
    requires(valid_key(key))
    ensures(is_none(result[0]) == key_is_x(key), is_none(result[1]) == key_is_x(key))
    ensures(implies(not key_is_x(key), val(result[0]) == key_tonic(key) and val(result[1]) == key_mode(key)
                    and 0 <= key_tonic(key) and key_tonic(key) <= 11))


@contract("mir_eval.key.weighted_score", props="C01 C02 C04 C09 C14")
def weighted_score(reference_key: ObjT, estimated_key: ObjT) -> Real:
    raises(ValueError, when=not (valid_key(reference_key) and valid_key(estimated_key)), props="C14")
    ensures(result == key_table(key_is_x(reference_key), key_tonic(reference_key), key_mode(reference_key),
                                key_is_x(estimated_key), key_tonic(estimated_key), key_mode(estimated_key)), label='table', props="C04 C09")
    ensures(result == 0 or result == 0.2 or result == 0.3 or result == 0.5 or result == 1, label='range', props="C01")
    ensures(implies(reference_key == estimated_key, result == 1), label='perfect', props="C02")


@lemma("C02")
def lemma_key_perfect(k: ObjT):
    requires(valid_key(k))
    ensures(weighted_score(k, k) == 1, label='perfect')


@lemma("C09")
def lemma_key_table_transposition(rx: Bool, rt: Int, rm: Enum('Mode', ['major', 'minor', 'other']), ex: Bool, et: Int,
                                  em: Enum('Mode', ['major', 'minor', 'other']), t: Int):
    """the score depends on the tonics only through (est - ref) mod 12: joint transposition changes nothing"""
    requires(0 <= rt, rt <= 11, 0 <= et, et <= 11, 0 <= t, t <= 11)
    ensures(key_table(rx, rt, rm, ex, et, em) == key_table(rx, (rt + t) % 12, rm, ex, (et + t) % 12, em), label='transpose')
