"""Contracts for the melody frame measures (C01 C04 C07 C14): voicing recall / false alarm, raw pitch and raw chroma accuracy
as sums over frames."""


def voicing_ok(rv, ev):
    return (length(ev) == length(rv) and forall(0, length(rv), lambda i: 0 <= rv[i] and rv[i] <= 1)
            and forall(0, length(ev), lambda i: 0 <= ev[i] and ev[i] <= 1))


@contract("mir_eval.melody.validate_voicing", props="C14")
def validate_voicing(ref_voicing: Arr(Real, None), est_voicing: Arr(Real, None)):
    raises(ValueError, when=not voicing_ok(ref_voicing, est_voicing), props="C14")


@contract("mir_eval.melody.validate", props="C14")
def validate(ref_voicing: Arr(Real, None), ref_cent: Arr(Real, None), est_voicing: Arr(Real, None), est_cent: Arr(Real, None)):
    raises(ValueError, when=not (length(ref_voicing) == length(ref_cent) and length(est_voicing) == length(est_cent)
                                 and length(ref_cent) == length(est_cent)), props="C14")


@contract("mir_eval.melody.voicing_recall", props="C01 C04 C14")
def voicing_recall(ref_voicing: Arr(Real, None), est_voicing: Arr(Real, None)) -> Real:
    requires(voicing_ok(ref_voicing, est_voicing))
    n = length(ref_voicing)
    voiced = array_of(n, lambda i: ite(ref_voicing[i] > 0, 1.0, 0.0))
    hit = array_of(n, lambda i: est_voicing[i] * ite(ref_voicing[i] > 0, 1.0, 0.0))
    ensures(implies(n == 0, result == 0), implies(n > 0 and sum_of(voiced) == 0, result == 1), label='degenerate', props="C04")
    ensures(implies(n > 0 and sum_of(voiced) != 0, result == sum_of(hit) / sum_of(voiced)), label='def', props="C04")
    sum_nonneg(hit)
    sum_le(hit, voiced)
    sum_nonneg(voiced)
    ensures(0 <= result, result <= 1, label='range', props="C01")


@contract("mir_eval.melody.voicing_false_alarm", props="C01 C04 C14")
def voicing_false_alarm(ref_voicing: Arr(Real, None), est_voicing: Arr(Real, None)) -> Real:
    requires(voicing_ok(ref_voicing, est_voicing))
    n = length(ref_voicing)
    unvoiced = array_of(n, lambda i: ite(ref_voicing[i] == 0, 1.0, 0.0))
    fa = array_of(n, lambda i: est_voicing[i] * ite(ref_voicing[i] == 0, 1.0, 0.0))
    ensures(implies(n == 0 or sum_of(unvoiced) == 0, result == 0), label='degenerate', props="C04")
    ensures(implies(n > 0 and sum_of(unvoiced) != 0, result == sum_of(fa) / sum_of(unvoiced)), label='def', props="C04")
    sum_nonneg(fa)
    sum_le(fa, unvoiced)
    sum_nonneg(unvoiced)
    ensures(0 <= result, result <= 1, label='range', props="C01")


def pitch_hit(rc, ec, tol, i):
    return ec[i] != 0 and rc[i] != 0 and absr(rc[i] - ec[i]) < tol


def chroma_hit(rc, ec, tol, i):
    d = absr(rc[i] - ec[i])
    return ec[i] != 0 and rc[i] != 0 and absr(d - 1200.0 * floor(d / 1200 + 0.5)) < tol


@contract("mir_eval.melody.raw_pitch_accuracy", props="C01 C02 C04 C09 C07 C14")
def raw_pitch_accuracy(ref_voicing: Arr(Real, None), ref_cent: Arr(Real, None), est_voicing: Arr(Real, None), est_cent: Arr(Real, None),
                       cent_tolerance: Real = 50.0) -> Real:
    n = length(ref_voicing)
    raises(ValueError, when=not (voicing_ok(ref_voicing, est_voicing) and length(ref_cent) == n and length(est_cent) == n), props="C14")
    V = sum_of(ref_voicing)
    nz = array_of(n, lambda i: ite(est_cent[i] != 0 and ref_cent[i] != 0, 1, 0), dtype='int')
    num = array_of(n, lambda i: ite(pitch_hit(ref_cent, est_cent, cent_tolerance, i), ref_voicing[i], 0.0))
    ensures(implies(n == 0 or V == 0 or sum_of(nz) == 0, result == 0), label='degenerate', props="C04 C09")
    ensures(implies(n > 0 and V != 0 and sum_of(nz) != 0, result == sum_of(num) / V), label='def', props="C04 C09 C02")
    sum_nonneg(ref_voicing)
    sum_nonneg(num)
    sum_le(num, ref_voicing)
    ensures(0 <= result, result <= 1, label='range', props="C01")


@contract("mir_eval.melody.raw_chroma_accuracy", props="C01 C02 C04 C09 C07 C14")
def raw_chroma_accuracy(ref_voicing: Arr(Real, None), ref_cent: Arr(Real, None), est_voicing: Arr(Real, None), est_cent: Arr(Real, None),
                        cent_tolerance: Real = 50.0) -> Real:
    n = length(ref_voicing)
    raises(ValueError, when=not (voicing_ok(ref_voicing, est_voicing) and length(ref_cent) == n and length(est_cent) == n), props="C14")
    V = sum_of(ref_voicing)
    nz = array_of(n, lambda i: ite(est_cent[i] != 0 and ref_cent[i] != 0, 1, 0), dtype='int')
    num = array_of(n, lambda i: ite(chroma_hit(ref_cent, est_cent, cent_tolerance, i), ref_voicing[i], 0.0))
    ensures(implies(n == 0 or V == 0 or sum_of(nz) == 0, result == 0), label='degenerate', props="C04 C09")
    ensures(implies(n > 0 and V != 0 and sum_of(nz) != 0, result == sum_of(num) / V), label='def', props="C04 C09 C02")
    sum_nonneg(ref_voicing)
    sum_nonneg(num)
    sum_le(num, ref_voicing)
    ensures(0 <= result, result <= 1, label='range', props="C01")


def masked(rv, rc, ec, tol, chroma):
    return array_of(length(rv), lambda i: ite(ite(chroma, chroma_hit(rc, ec, tol, i), pitch_hit(rc, ec, tol, i)), rv[i], 0.0))


@lemma("C07")
def lemma_raw_pitch_le_raw_chroma(rv: Arr(Real, None), rc: Arr(Real, None), ev: Arr(Real, None), ec: Arr(Real, None), tol: Real):
    """raw pitch accuracy never exceeds raw chroma accuracy (a pitch hit within tol < 600 cents is also a chroma hit)"""
    n = length(rv)
    requires(voicing_ok(rv, ev), length(rc) == n, length(ec) == n, 0 < tol, tol <= 600)
    sum_nonneg(rv)
    sum_le(masked(rv, rc, ec, tol, False), masked(rv, rc, ec, tol, True))
    ensures(raw_pitch_accuracy(rv, rc, ev, ec, tol) <= raw_chroma_accuracy(rv, rc, ev, ec, tol), label='rpa<=rca')


@lemma("C07")
def lemma_cent_tolerance_monotone(rv: Arr(Real, None), rc: Arr(Real, None), ev: Arr(Real, None), ec: Arr(Real, None), t1: Real, t2: Real):
    n = length(rv)
    requires(voicing_ok(rv, ev), length(rc) == n, length(ec) == n, t1 <= t2)
    sum_nonneg(rv)
    sum_le(masked(rv, rc, ec, t1, False), masked(rv, rc, ec, t2, False))
    sum_le(masked(rv, rc, ec, t1, True), masked(rv, rc, ec, t2, True))
    ensures(raw_pitch_accuracy(rv, rc, ev, ec, t1) <= raw_pitch_accuracy(rv, rc, ev, ec, t2),
            raw_chroma_accuracy(rv, rc, ev, ec, t1) <= raw_chroma_accuracy(rv, rc, ev, ec, t2), label='monotone')


@contract("mir_eval.melody.overall_accuracy", props="C01 C02 C04 C09 C14")
def overall_accuracy(ref_voicing: Arr(Real, None), ref_cent: Arr(Real, None), est_voicing: Arr(Real, None), est_cent: Arr(Real, None),
                     cent_tolerance: Real = 50.0) -> Real:
    """Bittner & Bosch: (ratio * sum over voiced frames of reward * estimated voicing * [pitch correct]  +  sum over unvoiced
    reference frames of (1 - estimated voicing)) / number of frames, ratio = #voiced frames / total reward"""
    n = length(ref_voicing)
    raises(ValueError, when=not (voicing_ok(ref_voicing, est_voicing) and length(ref_cent) == n and length(est_cent) == n), props="C14")
    V = sum_of(ref_voicing)
    binary = array_of(n, lambda i: ite(ref_voicing[i] > 0, 1.0, 0.0))
    voiced_hits = array_of(n, lambda i: ite(pitch_hit(ref_cent, est_cent, cent_tolerance, i), ref_voicing[i] * est_voicing[i], 0.0))
    unvoiced_ok = array_of(n, lambda i: (1.0 - ite(ref_voicing[i] > 0, 1.0, 0.0)) * (1.0 - est_voicing[i]))
    ratio = ite(V == 0, 0.0, sum_of(binary) / V)
    ensures(implies(n == 0, result == 0), label='empty', props="C04")
    ensures(implies(n > 0, result == (ratio * sum_of(voiced_hits) + sum_of(unvoiced_ok)) / n), label='def', props="C04 C09 C02")
    sum_nonneg(ref_voicing)
    sum_nonneg(binary)
    sum_nonneg(voiced_hits)
    sum_nonneg(unvoiced_ok)
    sum_le(voiced_hits, ref_voicing)
    sum_add(array_of(n, lambda i: 1.0), binary, array_of(n, lambda i: 1.0 - ite(ref_voicing[i] > 0, 1.0, 0.0)), label='frames=voiced+unvoiced')
    sum_le(unvoiced_ok, array_of(n, lambda i: 1.0 - ite(ref_voicing[i] > 0, 1.0, 0.0)))
    sum_const(array_of(n, lambda i: 1.0), 1.0)
    assert_step(ratio * sum_of(voiced_hits) <= sum_of(binary), label='voiced-part<=voiced-frames')
    assert_step(ratio * sum_of(voiced_hits) + sum_of(unvoiced_ok) <= n, label='numerator<=frames')
    ensures(0 <= result, result <= 1, label='range', props="C01")


@lemma("C09")
def lemma_raw_accuracies_ignore_estimated_voicing(rv: Arr(Real, None), rc: Arr(Real, None), ev1: Arr(Real, None), ev2: Arr(Real, None), ec: Arr(Real, None), tol: Real):
    """raw pitch and raw chroma accuracy do not depend on the estimated voicing (so marking estimates unvoiced by a sign flip changes neither)"""
    n = length(rv)
    requires(voicing_ok(rv, ev1), voicing_ok(rv, ev2), length(rc) == n, length(ec) == n)
    ensures(raw_pitch_accuracy(rv, rc, ev1, ec, tol) == raw_pitch_accuracy(rv, rc, ev2, ec, tol),
            raw_chroma_accuracy(rv, rc, ev1, ec, tol) == raw_chroma_accuracy(rv, rc, ev2, ec, tol), label='voicing-free')


log2 = uninterpreted('log2', ['Real'], 'Real')


@contract("mir_eval.melody.freq_to_voicing", props="C09 C04 C14")
def freq_to_voicing(frequencies: Arr(Real, None), voicing: Opt(Arr(Real, None)) = None) -> Tup(Arr(Real, None), Arr(Real, None)):
    """magnitudes from |f|; voicing from the sign of f, or the given voicing with zero-frequency frames unvoiced"""
    n = length(frequencies)
    requires(is_none(voicing) or length(val(voicing)) == n)
    mag = result[0]
    vo = result[1]
    ensures(length(mag) == n, forall(0, n, lambda i: mag[i] == absr(frequencies[i])), label='magnitude', props="C09 C04")
    ensures(length(vo) == n, forall(0, n, lambda i: vo[i] == ite(frequencies[i] == 0, 0.0, ite(is_none(voicing), ite(frequencies[i] > 0, 1.0, 0.0), val(voicing)[i]))),
            label='voicing', props="C04")


@contract("mir_eval.melody.hz2cents", props="C09 C04")
def hz2cents(freq_hz: Arr(Real, None), base_frequency: Real = 10.0) -> Arr(Real, None):
    requires(base_frequency > 0)
    n = length(freq_hz)
    ensures(length(result) == n, forall(0, n, lambda i: result[i] == ite(freq_hz[i] == 0, 0.0, 1200.0 * log2(absr(freq_hz[i]) * (1.0 / base_frequency)))),
            label='cents', props="C04 C09")


@lemma("C09")
def lemma_sign_flip_keeps_magnitude(f: Arr(Real, None), g: Arr(Real, None)):
    """negating frequencies (marking them unvoiced) changes neither the magnitudes nor, hence, the cent values"""
    requires(length(g) == length(f), forall(0, length(f), lambda i: g[i] == -f[i]))
    a = freq_to_voicing(f)
    b = freq_to_voicing(g)
    c1 = hz2cents(f)
    c2 = hz2cents(g)
    ensures(forall(0, length(f), lambda i: a[0][i] == b[0][i] and c1[i] == c2[i]), label='magnitudes-equal')


@contract("mir_eval.melody.voicing_measures", props="C01 C03 C14")
def voicing_measures(ref_voicing: Arr(Real, None), est_voicing: Arr(Real, None)) -> Tup(Real, Real):
    """the pair (voicing_recall, voicing_false_alarm) of the same arguments"""
    raises(ValueError, when=not voicing_ok(ref_voicing, est_voicing), props="C14")
    ensures(0 <= result[0], result[0] <= 1, 0 <= result[1], result[1] <= 1, label='range', props="C01")


@lemma("C02")
def lemma_melody_perfect(v: Arr(Real, None), c: Arr(Real, None), tol: Real):
    """an exact copy of a (binary-voiced) melody: false alarm 0 always; recall, raw pitch and raw chroma accuracy 1 whenever they are defined
    (some voiced frame; voiced frames carry a pitch)"""
    n = length(v)
    requires(n > 0, length(c) == n, tol > 0, forall(0, n, lambda i: v[i] == 0 or v[i] == 1))
    requires(forall(0, n, lambda i: implies(v[i] == 1, c[i] != 0)))
    # false alarm: est * [ref == 0] vanishes frame by frame
    sum_zero(array_of(n, lambda i: v[i] * ite(v[i] == 0, 1.0, 0.0)))
    ensures(voicing_false_alarm(v, v) == 0, label='false-alarm-0')
    # recall: est * [ref > 0] == [ref > 0] frame by frame
    sum_eq(array_of(n, lambda i: v[i] * ite(v[i] > 0, 1.0, 0.0)), array_of(n, lambda i: ite(v[i] > 0, 1.0, 0.0)))
    ensures(voicing_recall(v, v) == 1, label='recall-1')
    # raw pitch / chroma: every voiced frame is a hit, so the numerator is the total voicing
    sum_eq(array_of(n, lambda i: ite(pitch_hit(c, c, tol, i), v[i], 0.0)), v)
    sum_eq(array_of(n, lambda i: ite(chroma_hit(c, c, tol, i), v[i], 0.0)), v)
    sum_nonneg(v)
    ensures(implies(sum_of(v) > 0 and sum_of(array_of(n, lambda i: ite(c[i] != 0 and c[i] != 0, 1, 0), dtype='int')) != 0,
                    raw_pitch_accuracy(v, c, v, c, tol) == 1 and raw_chroma_accuracy(v, c, v, c, tol) == 1), label='raw-accuracies-1')
