"""Contracts for the multipitch score arithmetic (C18, C01, C04, C14)."""


def tp_ok(tp, n_ref, n_est):
    return forall(0, length(n_ref), lambda i: 0 <= tp[i] and tp[i] <= min(n_ref[i], n_est[i]))


@contract("mir_eval.multipitch.compute_err_score", props="C18 C01 C04 C14")
def compute_err_score(true_positives: Arr(Real, None), n_ref: Arr(Int, None), n_est: Arr(Int, None)) -> Tup(Real, Real, Real, Real):
    n = length(n_ref)
    requires(length(n_est) == n, length(true_positives) == n, tp_ok(true_positives, n_ref, n_est))
    e_sub, e_miss, e_fa, e_tot = result
    R = sum_of(n_ref)
    sub_a = array_of(n, lambda i: min(n_ref[i], n_est[i]) - true_positives[i])
    miss_a = array_of(n, lambda i: max(n_ref[i] - n_est[i], 0), dtype='int')
    fa_a = array_of(n, lambda i: max(n_est[i] - n_ref[i], 0), dtype='int')
    tot_a = array_of(n, lambda i: max(n_ref[i], n_est[i]) - true_positives[i])
    ensures(implies(R == 0, e_sub == 0 and e_miss == 0 and e_fa == 0 and e_tot == 0), label='zero-reference', props="C18 C04")
    ensures(implies(R != 0, e_sub == sum_of(sub_a) / R and e_miss == sum_of(miss_a) / R and e_fa == sum_of(fa_a) / R
                    and e_tot == sum_of(tot_a) / R), label='def', props="C04 C18")
    sum_add(tot_a, sub_a, miss_a, fa_a, label='total=sub+miss+fa')
    ensures(e_tot == e_sub + e_miss + e_fa, label='identity', props="C18")
    sum_nonneg(n_ref)
    sum_nonneg(sub_a)
    sum_nonneg(miss_a)
    sum_nonneg(fa_a)
    ensures(e_sub >= 0, e_miss >= 0, e_fa >= 0, e_tot >= 0, label='non-negative', props="C18 C01")


@contract("mir_eval.multipitch.compute_accuracy", props="C18 C01 C04 C14")
def compute_accuracy(true_positives: Arr(Real, None), n_ref: Arr(Int, None), n_est: Arr(Int, None)) -> Tup(Real, Real, Real):
    n = length(n_ref)
    requires(length(n_est) == n, length(true_positives) == n, tp_ok(true_positives, n_ref, n_est))
    precision, recall, acc = result
    T = sum_of(true_positives)
    R = sum_of(n_ref)
    E = sum_of(n_est)
    den_a = array_of(n, lambda i: n_est[i] + n_ref[i] - true_positives[i])
    D = sum_of(den_a)
    ensures(precision == ite(E > 0, T / E, 0.0), recall == ite(R > 0, T / R, 0.0), acc == ite(D > 0, T / D, 0.0), label='def', props="C04")
    sum_nonneg(true_positives)
    sum_nonneg(n_ref)
    sum_nonneg(n_est)
    sum_le(true_positives, n_ref)
    sum_le(true_positives, n_est)
    sum_le(n_est, den_a)
    sum_le(n_ref, den_a)
    ensures(0 <= precision, precision <= 1, 0 <= recall, recall <= 1, 0 <= acc, acc <= 1, label='range', props="C01")
    ensures(acc <= precision or E <= 0, acc <= recall or R <= 0, label='acc<=min(P,R)', props="C18")
    ensures(implies(T == R and T == E and T > 0, precision == 1 and recall == 1), label='perfect', props="C02")


@lemma("C02")
def lemma_multipitch_perfect(tp: Arr(Real, None), n_ref: Arr(Int, None)):
    """every reference pitch matched and nothing else estimated: precision = recall = accuracy = 1 and all four errors are 0"""
    n = length(n_ref)
    requires(length(tp) == n, forall(0, n, lambda i: n_ref[i] >= 0 and tp[i] == n_ref[i]), sum_of(n_ref) > 0)
    sum_eq(tp, n_ref)
    sum_eq(array_of(n, lambda i: n_ref[i] + n_ref[i] - tp[i]), n_ref)
    P, R, A = compute_accuracy(tp, n_ref, n_ref)
    sum_zero(array_of(n, lambda i: min(n_ref[i], n_ref[i]) - tp[i]))
    sum_zero(array_of(n, lambda i: max(n_ref[i] - n_ref[i], 0), dtype='int'))
    sum_zero(array_of(n, lambda i: max(n_ref[i], n_ref[i]) - tp[i]))
    es, em, ef, et = compute_err_score(tp, n_ref, n_ref)
    ensures(P == 1, R == 1, A == 1, es == 0, em == 0, ef == 0, et == 0, label='perfect')


# ----------------------------------------------------------------------------- validate (frames are opaque: `frame_ok(f)` is what
# util.validate_frequencies(f, 5000, 20, allow_negatives=False) accepts, proved separately on real arrays in contracts/events.py)
frame_ok = uninterpreted('frame_ok', ['ObjT'], 'Bool')


def valid_times(t):
    return forall(0, length(t), lambda i: t[i] <= 30000.0) and forall(0, length(t) - 1, lambda i: t[i] <= t[i + 1])


@assumed_contract("mir_eval.util.validate_frequencies", view=True, props="C14", note="opaque-frame view of the contract proved in contracts/events.py")
def validate_frame(frequencies: ObjT, max_freq: Real, min_freq: Real, allow_negatives: Bool = False):
    raises(ValueError, when=not frame_ok(frequencies))


@contract("mir_eval.multipitch.validate", props="C14")
def mp_validate(ref_time: Arr(Real, None), ref_freqs: Lst(ObjT), est_time: Arr(Real, None), est_freqs: Lst(ObjT)):
    raises(ValueError, when=not (valid_times(ref_time) and valid_times(est_time) and length(ref_time) == length(ref_freqs)
                                 and length(est_time) == length(est_freqs)
                                 and forall(0, length(ref_freqs), lambda i: frame_ok(ref_freqs[i]))
                                 and forall(0, length(est_freqs), lambda i: frame_ok(est_freqs[i]))), props="C14")
    invariant(lambda: forall(0, loop_index(0), lambda k: frame_ok(ref_freqs[k])), loop=0, label='ref-frames-ok')
    invariant(lambda: forall(0, loop_index(1), lambda k: frame_ok(est_freqs[k])), loop=1, label='est-frames-ok')
