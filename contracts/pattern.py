"""Contracts for mir_eval.pattern (C01 C02 C06 C14).  Patterns are opaque objects here: `estab(p, q, metric)` is the best
occurrence-to-occurrence similarity of reference pattern p and estimated pattern q (the maximum of their score matrix; the matrix itself is
checked by the bounded engine), a number in [0, 1]."""

valid_pattern = uninterpreted('valid_pattern', ['ObjT'], 'Bool')
estab = uninterpreted('estab', ['ObjT', 'ObjT', 'ObjT'], 'Real')


def all_valid(ps):
    return forall(0, length(ps), lambda i: valid_pattern(ps[i]))


def bounded_means(S, nP, nQ):
    """lemma applications: the column / row maxima of a matrix with cells in [0, 1] sum to between 0 and their count"""
    cm = row_max(nQ, nP, lambda j, i: S[i, j])
    rm = row_max(nP, nQ, lambda i, j: S[i, j])
    sum_nonneg(cm)
    sum_le(cm, array_of(nQ, lambda j: 1.0))
    sum_const(array_of(nQ, lambda j: 1.0), 1.0)
    sum_nonneg(rm)
    sum_le(rm, array_of(nP, lambda i: 1.0))
    sum_const(array_of(nP, lambda i: 1.0), 1.0)
    assert_step(implies(nQ > 0, sum_of(cm) / nQ <= 1), label='mean-of-column-maxima<=1')
    assert_step(implies(nP > 0, sum_of(rm) / nP <= 1), label='mean-of-row-maxima<=1')
    return True


@assumed_contract("mir_eval.pattern.validate", props="C14", note="every pattern has an occurrence and every event is an (onset, midi) pair; bounded engine tasknative")
def p_validate(reference_patterns: Lst(ObjT), estimated_patterns: Lst(ObjT)):
    raises(ValueError, when=not (all_valid(reference_patterns) and all_valid(estimated_patterns)))


@assumed_contract("mir_eval.pattern._n_onset_midi", props="C14", note="number of events in a pattern list: 0 for an empty list")
def p_n_onset_midi(patterns: Lst(ObjT)) -> Int:
    ensures(result >= 0, implies(length(patterns) == 0, result == 0))


@assumed_contract("mir_eval.pattern._compute_score_matrix", props="C04",
                  note="occurrence-by-occurrence similarity matrix of two valid patterns: non-empty, cells in [0, 1], maximum = estab(P, Q, metric)")
def p_score_matrix(P: ObjT, Q: ObjT, similarity_metric: ObjT = "cardinality_score") -> Arr(Real, None, None):
    requires(valid_pattern(P), valid_pattern(Q))
    ensures(length(result) > 0, forall2_rect(length(result), 1, lambda i, j: True))
    ensures(0 <= estab(P, Q, similarity_metric), estab(P, Q, similarity_metric) <= 1)
    returns(array_of(1, 1, lambda i, j: estab(P, Q, similarity_metric)))


@contract("mir_eval.pattern.establishment_FPR", props="C01 C14")
def establishment_FPR(reference_patterns: Lst(ObjT), estimated_patterns: Lst(ObjT), similarity_metric: ObjT = "cardinality_score") -> Tup(Real, Real, Real):
    raises(ValueError, when=not (all_valid(reference_patterns) and all_valid(estimated_patterns)), props="C14")
    nP = length(reference_patterns)
    nQ = length(estimated_patterns)
    axiom(forall2_rect(nP, nQ, lambda i, j: 0 <= estab(reference_patterns[i], estimated_patterns[j], similarity_metric)
                       and estab(reference_patterns[i], estimated_patterns[j], similarity_metric) <= 1),
          note='estab(p, q, metric), the maximum of a similarity matrix, lies in [0, 1] (what the assumed contract of _compute_score_matrix states per call)')
    invariant(lambda: forall2_rect(loop_index(0), length(estimated_patterns),
                                   lambda i, j: S[i, j] == estab(reference_patterns[i], estimated_patterns[j], similarity_metric)), loop=0, label='rows-filled')
    invariant(lambda: forall2_rect(loop_index(0), length(estimated_patterns),
                                   lambda i, j: S[i, j] == estab(reference_patterns[i], estimated_patterns[j], similarity_metric))
              and forall(0, loop_index(1), lambda j: S[iP, j] == estab(reference_patterns[iP], estimated_patterns[j], similarity_metric)), loop=1, label='row-prefix-filled')
    ghost(lambda: bounded_means(S, nP, nQ), after_loop=0)
    F, P, R = result
    ensures((F == 0 and P == 0 and R == 0) or (nP > 0 and nQ > 0), label='zero-or-nonempty', props="C04")
    ensures(0 <= P, P <= 1, 0 <= R, R <= 1, 0 <= F, F <= 1, label='range', props="C01")
