"""Contract of segment.detection (C01 C04 C06 C07 C14): boundary hit rate from a maximum matching of the (optionally trimmed)
boundary lists.  An interval array is opaque here: `n_bounds(I)` / `bound(I, k)` are its sorted distinct boundaries (what
util.intervals_to_boundaries returns; checked by the bounded interval engine), `valid_iv(I)` what validate_intervals accepts."""

valid_iv = uninterpreted('valid_iv', ['ObjT'], 'Bool')
n_bounds = uninterpreted('n_bounds', ['ObjT'], 'Int')
bound = uninterpreted('bound', ['ObjT', 'Int'], 'Real')


def F_beta(p, r, beta):
    return ite(p == 0 and r == 0, 0.0, (1 + beta * beta) * p * r / (beta * beta * p + r))


def bounds_of(I, trim):
    """the boundary list used for matching: first and last boundary dropped iff trim"""
    return ite(trim, array_of(ite(n_bounds(I) >= 2, n_bounds(I) - 2, 0), lambda k: bound(I, k + 1)), array_of(n_bounds(I), lambda k: bound(I, k)))


def hit(ref, est, w):
    return lambda i, j: absr(ref[i] - est[j]) <= w


@assumed_contract("mir_eval.segment.validate_boundary", props="C14", note="util.validate_intervals on both sides (proved separately); defines valid_iv on opaque interval arrays")
def validate_boundary(reference_intervals: ObjT, estimated_intervals: ObjT, trim: Bool):
    raises(ValueError, when=not (valid_iv(reference_intervals) and valid_iv(estimated_intervals)))


@assumed_contract("mir_eval.util.intervals_to_boundaries", view=True, props="C13", note="opaque-interval view: the sorted distinct end points (the contract over real arrays is proved in contracts/intervals.py)")
def intervals_to_boundaries(intervals: ObjT, q: Int = 5):
    ensures(n_bounds(intervals) >= 0)
    returns(array_of(n_bounds(intervals), lambda k: bound(intervals, k)))


@contract("mir_eval.segment.detection", props="C01 C04 C06 C07 C14")
def detection(reference_intervals: ObjT, estimated_intervals: ObjT, window: Real = 0.5, beta: Real = 1.0, trim: Bool = False) -> Tup(Real, Real, Real):
    requires(window >= 0, beta > 0)
    raises(ValueError, when=not (valid_iv(reference_intervals) and valid_iv(estimated_intervals)), props="C14")
    P, R, F = result
    rb = bounds_of(reference_intervals, trim)
    eb = bounds_of(estimated_intervals, trim)
    n = length(rb)
    m = length(eb)
    M = mm(n, m, hit(rb, eb, window))
    ensures(implies(n == 0 or m == 0, P == 0 and R == 0 and F == 0), label='empty', props="C04 C01")
    ensures(implies(n > 0 and m > 0, P == M / m and R == M / n), label='PR-def', props="C04")
    ensures(F == F_beta(P, R, beta), label='F-def', props="C04")
    ensures(0 <= P, P <= 1, 0 <= R, R <= 1, 0 <= F, F <= 1, label='range', props="C01")


@lemma("C06")
def lemma_detection_swap(a: ObjT, b: ObjT, w: Real):
    requires(valid_iv(a), valid_iv(b), w >= 0, n_bounds(a) >= 0, n_bounds(b) >= 0)
    for trim in [False, True]:
        ra = bounds_of(a, trim)
        rb = bounds_of(b, trim)
        mm_transpose(length(ra), length(rb), hit(ra, rb, w), hit(rb, ra, w))
        P1, R1, F1 = detection(a, b, w, 1.0, trim)
        P2, R2, F2 = detection(b, a, w, 1.0, trim)
        ensures(P1 == R2, R1 == P2, F1 == F2, label='swap')


@lemma("C07")
def lemma_detection_window_monotone(a: ObjT, b: ObjT, w1: Real, w2: Real, beta: Real):
    requires(valid_iv(a), valid_iv(b), 0 <= w1, w1 <= w2, beta > 0, n_bounds(a) >= 0, n_bounds(b) >= 0)
    for trim in [False, True]:
        ra = bounds_of(a, trim)
        rb = bounds_of(b, trim)
        mm_monotone(length(ra), length(rb), hit(ra, rb, w1), hit(ra, rb, w2))
        P1, R1, F1 = detection(a, b, w1, beta, trim)
        P2, R2, F2 = detection(a, b, w2, beta, trim)
        ensures(P1 <= P2, R1 <= R2, label='PR-monotone')


@lemma("C02")
def lemma_detection_perfect(a: ObjT, w: Real, beta: Real):
    requires(valid_iv(a), w >= 0, beta > 0, n_bounds(a) >= 3)
    for trim in [False, True]:
        ra = bounds_of(a, trim)
        mm_diagonal(length(ra), length(ra), hit(ra, ra, w))
        P, R, F = detection(a, a, w, beta, trim)
        ensures(P == 1, R == 1, F == 1, label='perfect')


# ----------------------------------------------------------------------------- boundary deviation
def nearest(a, b):
    """for every boundary of a the distance to the closest boundary of b"""
    return row_min(length(a), length(b), lambda i, j: absr(a[i] - b[j]))


@contract("mir_eval.segment.deviation", props="C01 C02 C04 C06 C14", nonfinite=True)
def deviation(reference_intervals: ObjT, estimated_intervals: ObjT, trim: Bool = False) -> Tup(Real, Real):
    raises(ValueError, when=not (valid_iv(reference_intervals) and valid_iv(estimated_intervals)), props="C14")
    rb = bounds_of(reference_intervals, trim)
    eb = bounds_of(estimated_intervals, trim)
    n = length(rb)
    m = length(eb)
    ensures(implies(n == 0 or m == 0, isnan(result[0]) and isnan(result[1])), label='no-boundaries', props="C01 C04")
    if n > 0 and m > 0:
        ensures(result[0] == median_of(nearest(rb, eb)), result[1] == median_of(nearest(eb, rb)), label='def', props="C04 C06")
        ensures(result[0] >= 0, result[1] >= 0, label='nonneg', props="C01")


@lemma("C06")
def lemma_deviation_swap(a: ObjT, b: ObjT, trim: Bool):
    """exchanging the annotations exchanges reference-to-estimate and estimate-to-reference deviation"""
    requires(valid_iv(a), valid_iv(b), n_bounds(a) >= 3, n_bounds(b) >= 3)
    x = deviation(a, b, trim)
    y = deviation(b, a, trim)
    ensures(x[0] == y[1], x[1] == y[0], label='swap')


@lemma("C02")
def lemma_deviation_perfect(a: ObjT, trim: Bool):
    """an annotation against itself has zero deviation in both directions"""
    requires(valid_iv(a), n_bounds(a) >= 3)
    x = deviation(a, a, trim)
    ensures(x[0] == 0, x[1] == 0, label='perfect')
