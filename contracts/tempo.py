"""Contracts for mir_eval.tempo."""


def tempo_hit(r, est, tol):
    """a reference tempo r is hit iff r > 0 and some estimate is within relative error tol"""
    return r > 0 and (absr(r - est[0]) / r <= tol or absr(r - est[1]) / r <= tol)


def valid_tempi(ref, w, est):
    return (ref[0] >= 0 and ref[1] >= 0 and (ref[0] > 0 or ref[1] > 0) and est[0] >= 0 and est[1] >= 0
            and 0 <= w and w <= 1)


@contract("mir_eval.tempo.detection", props="C01 C02 C04 C07 C08 C14")
def detection(reference_tempi: Arr(Real, 2), reference_weight: Real, estimated_tempi: Arr(Real, 2),
              tol: Real = 0.08) -> Tup(Real, Bool, Bool):
    inline("mir_eval.tempo.validate", "mir_eval.tempo.validate_tempi")
    raises(ValueError, when=not (valid_tempi(reference_tempi, reference_weight, estimated_tempi) and 0 <= tol and tol <= 1),
           props="C14")
    p, one, both = result
    h0 = tempo_hit(reference_tempi[0], estimated_tempi, tol)
    h1 = tempo_hit(reference_tempi[1], estimated_tempi, tol)
    ensures(p == reference_weight * ite(h0, 1.0, 0.0) + (1 - reference_weight) * ite(h1, 1.0, 0.0), label='p-def', props="C04")
    ensures(one == (h0 or h1), label='one-def', props="C04")
    ensures(both == (h0 and h1), label='both-def', props="C04")
    ensures(0 <= p, p <= 1, label='range', props="C01")
    ensures(implies(both, one), label='both=>one', props="C07")


@lemma("C02")
def lemma_tempo_perfect(t: Arr(Real, 2), w: Real, tol: Real):
    """identical tempi (both > 0) score 1 / True / True for every admissible tolerance"""
    requires(t[0] > 0, t[1] > 0, 0 <= w, w <= 1, 0 <= tol, tol <= 1)
    p, one, both = detection(t, w, t, tol)
    ensures(p == 1, one, both, label='perfect')


@lemma("C07")
def lemma_tempo_tol_monotone(r: Arr(Real, 2), w: Real, e: Arr(Real, 2), tol1: Real, tol2: Real):
    """widening tol never lowers the P-score nor turns a hit flag off"""
    requires(valid_tempi(r, w, e), 0 <= tol1, tol1 <= tol2, tol2 <= 1)
    p1, one1, both1 = detection(r, w, e, tol1)
    p2, one2, both2 = detection(r, w, e, tol2)
    ensures(p1 <= p2, implies(one1, one2), implies(both1, both2), label='mono')


@lemma("C08")
def lemma_tempo_swap_estimates(r: Arr(Real, 2), w: Real, e: Arr(Real, 2), e2: Arr(Real, 2), tol: Real):
    """the order of the two estimated tempi is immaterial"""
    requires(valid_tempi(r, w, e), 0 <= tol, tol <= 1, e2[0] == e[1], e2[1] == e[0])
    a = detection(r, w, e, tol)
    b = detection(r, w, e2, tol)
    ensures(a[0] == b[0], a[1] == b[1], a[2] == b[2], label='swap')
