"""Contracts for note transcription scores (C01 C04 C06 C07 C14).  The matchers are assumed to return a maximum matching of the
documented note relation (bodies: bounded engine matchnative); precision / recall / F and their orderings are proved from that."""

rnd4 = uninterpreted('rnd4', ['Real'], 'Real')           # np.around(x, 4)
log2 = uninterpreted('log2', ['Real'], 'Real')


def F_beta(p, r, beta):
    return ite(p == 0 and r == 0, 0.0, (1 + beta * beta) * p * r / (beta * beta * p + r))


def cmp_tol(x, t, strict):
    return ite(strict, x < t, x <= t)


def valid_iv(I):
    return forall(0, length(I), lambda i: 0 <= I[i, 0] and 0 <= I[i, 1] and I[i, 0] < I[i, 1])


def valid_notes(ri, rp, ei, ep):
    return (valid_iv(ri) and valid_iv(ei) and length(rp) == length(ri) and length(ep) == length(ei)
            and forall(0, length(rp), lambda i: rp[i] > 0) and forall(0, length(ep), lambda i: ep[i] > 0))


def onset_rel(ri, ei, tol, strict):
    return lambda i, j: cmp_tol(rnd4(absr(ri[i, 0] - ei[j, 0])), tol, strict)


def offset_rel(ri, ei, ratio, min_tol, strict):
    return lambda i, j: cmp_tol(rnd4(absr(ri[i, 1] - ei[j, 1])), max(ratio * (ri[i, 1] - ri[i, 0]), min_tol), strict)


def pitch_ok(rp, ep, tol, strict, i, j):
    return cmp_tol(absr(1200 * (log2(rp[i]) - log2(ep[j]))), tol, strict)


def note_rel(ri, rp, ei, ep, on_tol, p_tol, ratio, min_tol, strict):
    return lambda i, j: (cmp_tol(rnd4(absr(ri[i, 0] - ei[j, 0])), on_tol, strict) and pitch_ok(rp, ep, p_tol, strict, i, j)
                         and (is_none(ratio) or cmp_tol(rnd4(absr(ri[i, 1] - ei[j, 1])), max(val(ratio) * (ri[i, 1] - ri[i, 0]), min_tol), strict)))


@contract("mir_eval.transcription.validate_intervals", props="C14")
def t_validate_intervals(ref_intervals: Arr(Real, None, 2), est_intervals: Arr(Real, None, 2)):
    raises(ValueError, when=not (valid_iv(ref_intervals) and valid_iv(est_intervals)), props="C14")


@contract("mir_eval.transcription.validate", props="C14")
def t_validate(ref_intervals: Arr(Real, None, 2), ref_pitches: Arr(Real, None), est_intervals: Arr(Real, None, 2), est_pitches: Arr(Real, None)):
    raises(ValueError, when=not valid_notes(ref_intervals, ref_pitches, est_intervals, est_pitches), props="C14")


@assumed_contract("mir_eval.transcription.match_notes", props="C05 C04", note="maximum matching of onset & pitch & (offset) relation; bounded engine matchnative")
def match_notes(ref_intervals: Arr(Real, None, 2), ref_pitches: Arr(Real, None), est_intervals: Arr(Real, None, 2), est_pitches: Arr(Real, None),
                onset_tolerance: Real = 0.05, pitch_tolerance: Real = 50.0, offset_ratio: Opt(Real) = 0.2, offset_min_tolerance: Real = 0.05,
                strict: Bool = False) -> Lst(Tup(Int, Int)):
    n = length(ref_intervals)
    m = length(est_intervals)
    ensures(forall(0, length(result), lambda k: 0 <= result[k][0] and result[k][0] < n and 0 <= result[k][1] and result[k][1] < m), label='pairs-in-range')
    ensures(length(result) == mm(n, m, note_rel(ref_intervals, ref_pitches, est_intervals, est_pitches, onset_tolerance, pitch_tolerance,
                                                offset_ratio, offset_min_tolerance, strict)), label='size')
    ensures(0 <= length(result), length(result) <= n, length(result) <= m, label='pigeonhole')


@assumed_contract("mir_eval.transcription.match_note_onsets", props="C05 C04", note="maximum matching of the onset relation; bounded engine matchnative")
def match_note_onsets(ref_intervals: Arr(Real, None, 2), est_intervals: Arr(Real, None, 2), onset_tolerance: Real = 0.05, strict: Bool = False) -> Lst(ObjT):
    n = length(ref_intervals)
    m = length(est_intervals)
    ensures(length(result) == mm(n, m, onset_rel(ref_intervals, est_intervals, onset_tolerance, strict)), label='size')
    ensures(0 <= length(result), length(result) <= n, length(result) <= m, label='pigeonhole')


@assumed_contract("mir_eval.transcription.match_note_offsets", props="C05 C04", note="maximum matching of the offset relation; bounded engine matchnative")
def match_note_offsets(ref_intervals: Arr(Real, None, 2), est_intervals: Arr(Real, None, 2), offset_ratio: Real = 0.2, offset_min_tolerance: Real = 0.05,
                       strict: Bool = False) -> Lst(ObjT):
    n = length(ref_intervals)
    m = length(est_intervals)
    ensures(length(result) == mm(n, m, offset_rel(ref_intervals, est_intervals, offset_ratio, offset_min_tolerance, strict)), label='size')
    ensures(0 <= length(result), length(result) <= n, length(result) <= m, label='pigeonhole')


@contract("mir_eval.transcription.average_overlap_ratio", props="C01 C14")
def average_overlap_ratio(ref_intervals: Arr(Real, None, 2), est_intervals: Arr(Real, None, 2), matching: Lst(Tup(Int, Int))) -> Real:
    """mean over the matched pairs of overlap / union length: at most 1 (no lower bound is claimed), 0 when nothing is matched"""
    requires(valid_iv(ref_intervals), valid_iv(est_intervals))
    requires(forall(0, length(matching), lambda k: 0 <= matching[k][0] and matching[k][0] < length(ref_intervals)
                    and 0 <= matching[k][1] and matching[k][1] < length(est_intervals)))
    invariant(lambda: length(ratios) == loop_index(0) and forall(0, length(ratios), lambda k: ratios[k] <= 1), loop=0, label='ratios<=1')
    ghost(lambda: (sum_le(ratios, array_of(length(ratios), lambda i: 1.0)), sum_const(array_of(length(ratios), lambda i: 1.0), 1.0)), after_loop=0)
    ensures(result <= 1, implies(length(matching) == 0, result == 0), label='at-most-1', props="C01")


@contract("mir_eval.transcription.precision_recall_f1_overlap", props="C01 C04 C05 C07 C14")
def precision_recall_f1_overlap(ref_intervals: Arr(Real, None, 2), ref_pitches: Arr(Real, None), est_intervals: Arr(Real, None, 2), est_pitches: Arr(Real, None),
                                onset_tolerance: Real = 0.05, pitch_tolerance: Real = 50.0, offset_ratio: Opt(Real) = 0.2, offset_min_tolerance: Real = 0.05,
                                strict: Bool = False, beta: Real = 1.0) -> Tup(Real, Real, Real, Real):
    requires(beta > 0)
    raises(ValueError, when=not valid_notes(ref_intervals, ref_pitches, est_intervals, est_pitches), props="C14")
    P, R, F, A = result
    n = length(ref_intervals)
    m = length(est_intervals)
    M = mm(n, m, note_rel(ref_intervals, ref_pitches, est_intervals, est_pitches, onset_tolerance, pitch_tolerance, offset_ratio, offset_min_tolerance, strict))
    ensures(implies(n == 0 or m == 0, P == 0 and R == 0 and F == 0 and A == 0), label='empty', props="C04 C01")
    ensures(implies(n > 0 and m > 0, P == M / m and R == M / n), label='PR-def', props="C04 C05")
    ensures(F == F_beta(P, R, beta), label='F-def', props="C04")
    ensures(0 <= P, P <= 1, 0 <= R, R <= 1, 0 <= F, F <= 1, A <= 1, label='range', props="C01")


@contract("mir_eval.transcription.onset_precision_recall_f1", props="C01 C04 C05 C07 C14")
def onset_precision_recall_f1(ref_intervals: Arr(Real, None, 2), est_intervals: Arr(Real, None, 2), onset_tolerance: Real = 0.05, strict: Bool = False,
                              beta: Real = 1.0) -> Tup(Real, Real, Real):
    requires(beta > 0)
    raises(ValueError, when=not (valid_iv(ref_intervals) and valid_iv(est_intervals)), props="C14")
    P, R, F = result
    n = length(ref_intervals)
    m = length(est_intervals)
    M = mm(n, m, onset_rel(ref_intervals, est_intervals, onset_tolerance, strict))
    ensures(implies(n == 0 or m == 0, P == 0 and R == 0 and F == 0), label='empty', props="C04 C01")
    ensures(implies(n > 0 and m > 0, P == M / m and R == M / n), label='PR-def', props="C04 C05")
    ensures(F == F_beta(P, R, beta), label='F-def', props="C04")
    ensures(0 <= P, P <= 1, 0 <= R, R <= 1, 0 <= F, F <= 1, label='range', props="C01")


@contract("mir_eval.transcription.offset_precision_recall_f1", props="C01 C04 C05 C14")
def offset_precision_recall_f1(ref_intervals: Arr(Real, None, 2), est_intervals: Arr(Real, None, 2), offset_ratio: Real = 0.2, offset_min_tolerance: Real = 0.05,
                               strict: Bool = False, beta: Real = 1.0) -> Tup(Real, Real, Real):
    requires(beta > 0)
    raises(ValueError, when=not (valid_iv(ref_intervals) and valid_iv(est_intervals)), props="C14")
    P, R, F = result
    n = length(ref_intervals)
    m = length(est_intervals)
    M = mm(n, m, offset_rel(ref_intervals, est_intervals, offset_ratio, offset_min_tolerance, strict))
    ensures(implies(n == 0 or m == 0, P == 0 and R == 0 and F == 0), label='empty', props="C04 C01")
    ensures(implies(n > 0 and m > 0, P == M / m and R == M / n), label='PR-def', props="C04 C05")
    ensures(F == F_beta(P, R, beta), label='F-def', props="C04")
    ensures(0 <= P, P <= 1, 0 <= R, R <= 1, 0 <= F, F <= 1, label='range', props="C01")


# ----------------------------------------------------------------------------- nested criteria and tolerance monotonicity (C07), symmetry (C06)
@lemma("C07")
def lemma_transcription_nested(ri: Arr(Real, None, 2), rp: Arr(Real, None), ei: Arr(Real, None, 2), ep: Arr(Real, None), on_tol: Real, p_tol: Real,
                               ratio: Real, min_tol: Real, strict: Bool):
    """with offsets <= without offsets <= onset-only, for precision and recall"""
    requires(valid_notes(ri, rp, ei, ep), on_tol >= 0, p_tol >= 0, ratio > 0, min_tol >= 0)
    n = length(ri)
    m = length(ei)
    mm_monotone(n, m, note_rel(ri, rp, ei, ep, on_tol, p_tol, ratio, min_tol, strict), note_rel(ri, rp, ei, ep, on_tol, p_tol, None, min_tol, strict))
    mm_monotone(n, m, note_rel(ri, rp, ei, ep, on_tol, p_tol, None, min_tol, strict), onset_rel(ri, ei, on_tol, strict))
    P1, R1, F1, A1 = precision_recall_f1_overlap(ri, rp, ei, ep, on_tol, p_tol, ratio, min_tol, strict, 1.0)
    P2, R2, F2, A2 = precision_recall_f1_overlap(ri, rp, ei, ep, on_tol, p_tol, None, min_tol, strict, 1.0)
    P3, R3, F3 = onset_precision_recall_f1(ri, ei, on_tol, strict, 1.0)
    ensures(P1 <= P2, R1 <= R2, P2 <= P3, R2 <= R3, label='nested')


@lemma("C07")
def lemma_transcription_strict_and_tolerances(ri: Arr(Real, None, 2), rp: Arr(Real, None), ei: Arr(Real, None, 2), ep: Arr(Real, None), on1: Real, on2: Real,
                                              p1: Real, p2: Real, ratio: Opt(Real), min_tol: Real):
    """strict=True never scores above strict=False; wider onset / pitch tolerances never lower precision or recall"""
    requires(valid_notes(ri, rp, ei, ep), 0 <= on1, on1 <= on2, 0 <= p1, p1 <= p2, min_tol >= 0, is_none(ratio) or val(ratio) > 0)
    n = length(ri)
    m = length(ei)
    mm_monotone(n, m, note_rel(ri, rp, ei, ep, on1, p1, ratio, min_tol, True), note_rel(ri, rp, ei, ep, on1, p1, ratio, min_tol, False))
    mm_monotone(n, m, note_rel(ri, rp, ei, ep, on1, p1, ratio, min_tol, False), note_rel(ri, rp, ei, ep, on2, p2, ratio, min_tol, False))
    Ps, Rs, Fs, As = precision_recall_f1_overlap(ri, rp, ei, ep, on1, p1, ratio, min_tol, True, 1.0)
    P1, R1, F1, A1 = precision_recall_f1_overlap(ri, rp, ei, ep, on1, p1, ratio, min_tol, False, 1.0)
    P2, R2, F2, A2 = precision_recall_f1_overlap(ri, rp, ei, ep, on2, p2, ratio, min_tol, False, 1.0)
    ensures(Ps <= P1, Rs <= R1, P1 <= P2, R1 <= R2, label='monotone')


@lemma("C06")
def lemma_transcription_no_offset_swap(ri: Arr(Real, None, 2), rp: Arr(Real, None), ei: Arr(Real, None, 2), ep: Arr(Real, None), on_tol: Real, p_tol: Real,
                                       min_tol: Real, strict: Bool):
    """onset-only and no-offset matching treat the two annotations symmetrically"""
    requires(valid_notes(ri, rp, ei, ep), on_tol >= 0, p_tol >= 0, min_tol >= 0)
    n = length(ri)
    m = length(ei)
    mm_transpose(n, m, note_rel(ri, rp, ei, ep, on_tol, p_tol, None, min_tol, strict), note_rel(ei, ep, ri, rp, on_tol, p_tol, None, min_tol, strict))
    mm_transpose(n, m, onset_rel(ri, ei, on_tol, strict), onset_rel(ei, ri, on_tol, strict))
    P1, R1, F1, A1 = precision_recall_f1_overlap(ri, rp, ei, ep, on_tol, p_tol, None, min_tol, strict, 1.0)
    P2, R2, F2, A2 = precision_recall_f1_overlap(ei, ep, ri, rp, on_tol, p_tol, None, min_tol, strict, 1.0)
    Q1, S1, G1 = onset_precision_recall_f1(ri, ei, on_tol, strict, 1.0)
    Q2, S2, G2 = onset_precision_recall_f1(ei, ri, on_tol, strict, 1.0)
    ensures(P1 == R2, R1 == P2, F1 == F2, Q1 == S2, S1 == Q2, G1 == G2, label='swap')


@lemma("C02")
def lemma_transcription_perfect(ri: Arr(Real, None, 2), rp: Arr(Real, None), on_tol: Real, p_tol: Real, ratio: Opt(Real), min_tol: Real):
    """an exact copy is matched note for note (distances are 0; np.around(0, 4) = 0 is the one library fact used)"""
    requires(valid_notes(ri, rp, ri, rp), length(ri) > 0, on_tol >= 0, p_tol >= 0, min_tol >= 0, is_none(ratio) or val(ratio) > 0, rnd4(0.0) == 0.0)
    n = length(ri)
    mm_diagonal(n, n, note_rel(ri, rp, ri, rp, on_tol, p_tol, ratio, min_tol, False))
    mm_diagonal(n, n, onset_rel(ri, ri, on_tol, False))
    P, R, F, A = precision_recall_f1_overlap(ri, rp, ri, rp, on_tol, p_tol, ratio, min_tol, False, 1.0)
    Q, S, G = onset_precision_recall_f1(ri, ri, on_tol, False, 1.0)
    ensures(P == 1, R == 1, F == 1, Q == 1, S == 1, G == 1, label='perfect')


@lemma("C08")
def lemma_transcription_shift(ri: Arr(Real, None, 2), rp: Arr(Real, None), ei: Arr(Real, None, 2), ep: Arr(Real, None), ri2: Arr(Real, None, 2),
                              ei2: Arr(Real, None, 2), d: Real, on_tol: Real, p_tol: Real, ratio: Opt(Real), min_tol: Real, strict: Bool):
    """adding the same offset to every onset and offset of both annotations changes no score"""
    requires(valid_notes(ri, rp, ei, ep), valid_notes(ri2, rp, ei2, ep), length(ri2) == length(ri), length(ei2) == length(ei))
    requires(forall(0, length(ri), lambda i: ri2[i, 0] == ri[i, 0] + d and ri2[i, 1] == ri[i, 1] + d))
    requires(forall(0, length(ei), lambda j: ei2[j, 0] == ei[j, 0] + d and ei2[j, 1] == ei[j, 1] + d))
    requires(on_tol >= 0, p_tol >= 0, min_tol >= 0, is_none(ratio) or val(ratio) > 0)
    n = length(ri)
    m = length(ei)
    mm_monotone(n, m, note_rel(ri, rp, ei, ep, on_tol, p_tol, ratio, min_tol, strict), note_rel(ri2, rp, ei2, ep, on_tol, p_tol, ratio, min_tol, strict))
    mm_monotone(n, m, note_rel(ri2, rp, ei2, ep, on_tol, p_tol, ratio, min_tol, strict), note_rel(ri, rp, ei, ep, on_tol, p_tol, ratio, min_tol, strict))
    P1, R1, F1, A1 = precision_recall_f1_overlap(ri, rp, ei, ep, on_tol, p_tol, ratio, min_tol, strict, 1.0)
    P2, R2, F2, A2 = precision_recall_f1_overlap(ri2, rp, ei2, ep, on_tol, p_tol, ratio, min_tol, strict, 1.0)
    ensures(P1 == P2, R1 == R2, F1 == F2, label='shift')


# ----------------------------------------------------------------------------- transcription_velocity
def valid_vel(ri, rp, rv, ei, ep, ev):
    return (valid_notes(ri, rp, ei, ep) and length(rv) == length(rp) and length(ev) == length(ep)
            and forall(0, length(rv), lambda i: rv[i] >= 0) and forall(0, length(ev), lambda i: ev[i] >= 0))


@contract("mir_eval.transcription_velocity.validate", props="C14")
def tv_validate(ref_intervals: Arr(Real, None, 2), ref_pitches: Arr(Real, None), ref_velocities: Arr(Real, None),
                est_intervals: Arr(Real, None, 2), est_pitches: Arr(Real, None), est_velocities: Arr(Real, None)):
    raises(ValueError, when=not valid_vel(ref_intervals, ref_pitches, ref_velocities, est_intervals, est_pitches, est_velocities), props="C14")


@contract("mir_eval.transcription_velocity.match_notes", props="C05 C07")
def tv_match_notes(ref_intervals: Arr(Real, None, 2), ref_pitches: Arr(Real, None), ref_velocities: Arr(Real, None),
                   est_intervals: Arr(Real, None, 2), est_pitches: Arr(Real, None), est_velocities: Arr(Real, None),
                   onset_tolerance: Real = 0.05, pitch_tolerance: Real = 50.0, offset_ratio: Opt(Real) = 0.2, offset_min_tolerance: Real = 0.05,
                   strict: Bool = False, velocity_tolerance: Real = 0.1) -> Lst(Tup(Int, Int)):
    requires(valid_vel(ref_intervals, ref_pitches, ref_velocities, est_intervals, est_pitches, est_velocities))
    requires(length(ref_intervals) > 0, length(est_intervals) > 0)
    n = length(ref_intervals)
    m = length(est_intervals)
    M = mm(n, m, note_rel(ref_intervals, ref_pitches, est_intervals, est_pitches, onset_tolerance, pitch_tolerance, offset_ratio, offset_min_tolerance, strict))
    ensures(length(result) <= M, label='subset-size', props="C07")
    ensures(0 <= length(result), length(result) <= n, length(result) <= m, label='pigeonhole', props="C05 C01")
    ensures(forall(0, length(result), lambda k: 0 <= result[k][0] and result[k][0] < n and 0 <= result[k][1] and result[k][1] < m), label='pairs-in-range', props="C05")


@contract("mir_eval.transcription_velocity.precision_recall_f1_overlap", props="C01 C04 C05 C07 C14")
def tv_prf(ref_intervals: Arr(Real, None, 2), ref_pitches: Arr(Real, None), ref_velocities: Arr(Real, None),
           est_intervals: Arr(Real, None, 2), est_pitches: Arr(Real, None), est_velocities: Arr(Real, None),
           onset_tolerance: Real = 0.05, pitch_tolerance: Real = 50.0, offset_ratio: Opt(Real) = 0.2, offset_min_tolerance: Real = 0.05,
           strict: Bool = False, velocity_tolerance: Real = 0.1, beta: Real = 1.0) -> Tup(Real, Real, Real, Real):
    requires(beta > 0)
    raises(ValueError, when=not valid_vel(ref_intervals, ref_pitches, ref_velocities, est_intervals, est_pitches, est_velocities), props="C14")
    P, R, F, A = result
    n = length(ref_intervals)
    m = length(est_intervals)
    M = mm(n, m, note_rel(ref_intervals, ref_pitches, est_intervals, est_pitches, onset_tolerance, pitch_tolerance, offset_ratio, offset_min_tolerance, strict))
    ensures(implies(n == 0 or m == 0, P == 0 and R == 0 and F == 0 and A == 0), label='empty', props="C04 C01")
    ensures(implies(n > 0 and m > 0, 0 <= P * m and P * m <= M and P * m == R * n), label='hits-at-most-without-velocity', props="C07 C04 C05")
    ensures(F == F_beta(P, R, beta), label='F-def', props="C04")
    ensures(0 <= P, P <= 1, 0 <= R, R <= 1, 0 <= F, F <= 1, A <= 1, label='range', props="C01")


@lemma("C07")
def lemma_velocity_never_raises_scores(ri: Arr(Real, None, 2), rp: Arr(Real, None), rv: Arr(Real, None), ei: Arr(Real, None, 2), ep: Arr(Real, None), ev: Arr(Real, None),
                                       on_tol: Real, p_tol: Real, ratio: Opt(Real), min_tol: Real, strict: Bool, v_tol: Real):
    """precision / recall / F with the velocity criterion never exceed those without it (the velocity test only removes matched pairs)"""
    requires(valid_vel(ri, rp, rv, ei, ep, ev), on_tol >= 0, p_tol >= 0, min_tol >= 0, is_none(ratio) or val(ratio) > 0)
    P1, R1, F1, A1 = tv_prf(ri, rp, rv, ei, ep, ev, on_tol, p_tol, ratio, min_tol, strict, v_tol, 1.0)
    P2, R2, F2, A2 = precision_recall_f1_overlap(ri, rp, ei, ep, on_tol, p_tol, ratio, min_tol, strict, 1.0)
    ensures(P1 <= P2, R1 <= R2, label='velocity<=plain')
