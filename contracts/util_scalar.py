"""Contracts for the scalar helpers of mir_eval.util."""


def F_beta(p, r, beta):
    """the documented F-measure: 0 when both are 0, else the weighted harmonic mean"""
    return ite(p == 0 and r == 0, 0.0, (1 + beta * beta) * p * r / (beta * beta * p + r))


@contract("mir_eval.util.f_measure", props="C01 C02 C04 C06 C07 C14 C16")
def f_measure(precision: Real, recall: Real, beta: Real = 1.0) -> Real:
    requires(0 <= precision, precision <= 1, 0 <= recall, recall <= 1, beta > 0)
    raises(ZeroDivisionError, when=False, props="C14")
    ensures(result == F_beta(precision, recall, beta), label='def', props="C04 C16")
    ensures(0 <= result, result <= 1, label='range', props="C01")
    ensures(implies(precision == 1 and recall == 1, result == 1), label='perfect', props="C02")
    ensures(implies(precision == 0 or recall == 0, result == 0), label='zero', props="C04")
    ensures(min(precision, recall) <= result or (precision == 0 and recall == 0), result <= max(precision, recall), label='between',
            props="C16")


@lemma("C06")
def lemma_f_measure_symmetric(p: Real, r: Real):
    """F at beta=1 is unchanged when precision and recall are exchanged"""
    requires(0 <= p, p <= 1, 0 <= r, r <= 1)
    a = f_measure(p, r, 1.0)
    b = f_measure(r, p, 1.0)
    ensures(a == b, label='sym')


@lemma("C07")
def lemma_f_measure_monotone(p1: Real, r1: Real, p2: Real, r2: Real, beta: Real):
    """F is monotone in precision and in recall"""
    requires(0 <= p1, p1 <= p2, p2 <= 1, 0 <= r1, r1 <= r2, r2 <= 1, beta > 0)
    a = f_measure(p1, r1, beta)
    b = f_measure(p2, r2, beta)
    ensures(a <= b, label='mono')
