import z3, time
# intervals: n rows; s(i), e(i) reals; valid: 0<=s<e; time-ordered & non-overlapping: e(i) <= s(i+1)
S=z3.Function('S',z3.IntSort(),z3.RealSort()); E=z3.Function('E',z3.IntSort(),z3.RealSort())
n=z3.Int('n'); tmin=z3.Real('tmin')
i,j,k=z3.Ints('i j k')
pre=[n>0, z3.ForAll([i], z3.Implies(z3.And(0<=i,i<n), z3.And(0<=S(i), S(i)<E(i)))),
     z3.ForAll([i], z3.Implies(z3.And(0<=i,i<n-1), E(i)<=S(i+1)))]
# first_idx = argwhere(E >= tmin): f0 = least index with E(f0)>=tmin, exists flag
has=z3.Bool('has'); f0=z3.Int('f0')
argw=[has==z3.Exists([i], z3.And(0<=i,i<n,E(i)>=tmin)),
      z3.Implies(has, z3.And(0<=f0,f0<n,E(f0)>=tmin, z3.ForAll([i], z3.Implies(z3.And(0<=i,i<f0), E(i)<tmin))))]
# after crop: m rows, S1(i)=S(i+off)
off=z3.If(has,f0,0); m=n-off
S2=lambda i: z3.If(S(i+off)>=tmin,S(i+off),tmin)   # np.maximum
E2=lambda i: z3.If(E(i+off)>=tmin,E(i+off),tmin)
def prove(name,goal,extra=[]):
    so=z3.Solver(); so.set('timeout',30000); so.add(*pre,*argw,*extra, z3.Not(goal)); t0=time.time(); r=so.check(); print(name,r,round(time.time()-t0,3))
    if r==z3.sat:
        mo=so.model(); print('  n=',mo[n],'tmin=',mo[tmin],'k=',mo.eval(k), [ (mo.eval(S(x)),mo.eval(E(x))) for x in range(min(3,mo[n].as_long()))])
prove('starts>=tmin', z3.Implies(z3.And(0<=k,k<m), S2(k)>=tmin))
prove('positive duration', z3.Implies(z3.And(0<=k,k<m), S2(k)<E2(k)))
# with fix: argwhere(E > tmin)
argw_fix=[has==z3.Exists([i], z3.And(0<=i,i<n,E(i)>tmin)),
      z3.Implies(has, z3.And(0<=f0,f0<n,E(f0)>tmin, z3.ForAll([i], z3.Implies(z3.And(0<=i,i<f0), E(i)<=tmin))))]
so=z3.Solver(); so.set('timeout',30000); so.add(*pre,*argw_fix, has, z3.Not(z3.Implies(z3.And(0<=k,k<m), S2(k)<E2(k)))); t0=time.time(); print('fixed positive duration (has)', so.check(), round(time.time()-t0,3))
pre2=[n>0, z3.ForAll([i], z3.Implies(z3.And(0<=i,i<n), z3.And(0<=S(i), S(i)<E(i)))),
     z3.ForAll([i,j], z3.Implies(z3.And(0<=i,i<j,j<n), E(i)<=S(j)))]
so=z3.Solver(); so.set('timeout',30000); so.add(*pre2,*argw_fix, has, z3.Not(z3.Implies(z3.And(0<=k,k<m), S2(k)<E2(k)))); t0=time.time(); print('fixed positive duration (has, pairwise pre)', so.check(), round(time.time()-t0,3))
# full post after min-branch: if S2.min() > tmin: prepend [tmin, min]. show first row start == tmin in the end.  min over rows of S2: with has and sorted, min = S2(0)
mn=z3.Real('mn'); 
minax=[z3.ForAll([i], z3.Implies(z3.And(0<=i,i<m), z3.And(mn<=S2(i), mn<=E2(i)))), z3.Exists([i], z3.And(0<=i,i<m, z3.Or(mn==S2(i), mn==E2(i))))]
so=z3.Solver(); so.set('timeout',30000); so.add(*pre2,*argw_fix, has, *minax, z3.Not(mn==S2(0))); t0=time.time(); print('min is first start', so.check(), round(time.time()-t0,3))
