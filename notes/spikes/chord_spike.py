import z3, time
# encoding: root Int, bitmap 12 Ints, bass Int
def enc(name):
    r=z3.Int(name+'_r'); b=[z3.Int('%s_b%d'%(name,k)) for k in range(12)]; s=z3.Int(name+'_s'); return r,b,s
def enc_ok(e):
    r,b,s=e
    reg=z3.And(0<=r,r<=11,0<=s,s<=11,*[z3.Or(x==0,x==1) for x in b], z3.Or(*[z3.And(s==k,b[k]==1) for k in range(12)]))
    N=z3.And(r==-1,s==-1,*[x==0 for x in b]); X=z3.And(r==-1,s==-1,*[x==-1 for x in b])
    return z3.Or(reg,N,X)
MAJ=[1,0,0,0,1,0,0,1,0,0,0,0]; MIN=[1,0,0,1,0,0,0,1,0,0,0,0]
Q7=[1,0,0,0,1,0,0,1,0,0,1,0]; MAJ7=[1,0,0,0,1,0,0,1,0,0,0,1]; MIN7=[1,0,0,1,0,0,0,1,0,0,1,0]; ZERO=[0]*12
isX=lambda e: z3.Or(*[x<0 for x in e[1]])
eqp=lambda a,b,n: z3.And(*[a[1][k]==b[1][k] for k in range(n)])
ite=z3.If
def simple(cond): return lambda a,b: ite(isX(a),-1,ite(cond(a,b),1,0))
root=simple(lambda a,b:a[0]==b[0])
thirds=simple(lambda a,b:z3.And(a[0]==b[0],a[1][3]==b[1][3]))
thirds_inv=simple(lambda a,b:z3.And(a[0]==b[0],a[1][3]==b[1][3],a[2]==b[2]))
triads=simple(lambda a,b:z3.And(a[0]==b[0],eqp(a,b,8)))
triads_inv=simple(lambda a,b:z3.And(a[0]==b[0],eqp(a,b,8),a[2]==b[2]))
tetrads=simple(lambda a,b:z3.And(a[0]==b[0],eqp(a,b,12)))
tetrads_inv=simple(lambda a,b:z3.And(a[0]==b[0],eqp(a,b,12),a[2]==b[2]))
is_=lambda a,Q,n: z3.And(*[a[1][k]==Q[k] for k in range(n)])
def validinv(a): # valid_inversion: ones; where bass>=0: semitones[bass]
    return ite(a[2]>=0, z3.Or(*[z3.And(a[2]==k,a[1][k]!=0) for k in range(12)]), True)
def majmin(a,b):
    ok=z3.Or(is_(a,MAJ,8),is_(a,MIN,8),z3.And(a[0]<0,is_(a,ZERO,12)))
    return ite(z3.Not(ok),-1,ite(z3.And(a[0]==b[0],eqp(a,b,8)),1,0))
def majmin_inv(a,b):
    ok=z3.Or(is_(a,MAJ,8),is_(a,MIN,8),z3.And(a[0]<0,is_(a,ZERO,12)))
    return ite(z3.Or(z3.Not(ok),z3.Not(validinv(a))),-1,ite(z3.And(a[0]==b[0],a[2]==b[2],eqp(a,b,8)),1,0))
def sevenths(a,b):
    ok=z3.Or(*[is_(a,Q,12) for Q in (MAJ,MIN,MAJ7,Q7,MIN7,ZERO)])
    return ite(z3.Not(ok),-1,ite(z3.And(a[0]==b[0],eqp(a,b,12)),1,0))
def sevenths_inv(a,b):
    ok=z3.Or(*[is_(a,Q,12) for Q in (MAJ,MIN,MAJ7,Q7,MIN7,ZERO)])
    return ite(z3.Or(z3.Not(ok),z3.Not(validinv(a))),-1,ite(z3.And(a[0]==b[0],a[2]==b[2],eqp(a,b,12)),1,0))
def rot(e):  # absolute chroma: abs[(k+root)%12]=1 if b[k]!=0  (nonzero incl -1!)
    r,b,s=e
    return [z3.Or(*[z3.And(b[k]!=0, (k+r)%12==j) for k in range(12)]) for j in range(12)]
def mirex(a,b):
    ra,rb=rot(a),rot(b)
    cnt=z3.Sum([ite(z3.And(ra[j],rb[j]),1,0) for j in range(12)])
    refcnt=z3.Sum([ite(x>0,1,0) for x in a[1]])
    skip=z3.Or(z3.And(refcnt>0,refcnt<3), isX(a))
    noroot=z3.And(a[0]==-1,b[0]==-1)
    return ite(skip,-1,ite(noroot,1,ite(cnt>=3,1,0)))
a,b,c=enc('a'),enc('b'),enc('c')
H=[enc_ok(a),enc_ok(b),enc_ok(c)]
def prove(name,goal):
    so=z3.Solver(); so.set('timeout',60000); so.add(*H,z3.Not(goal)); t0=time.time(); r=so.check(); print(name,r,round(time.time()-t0,3))
    if r==z3.sat:
        m=so.model(); print('   a=',m.eval(a[0]),[m.eval(x) for x in a[1]],m.eval(a[2]),' b=',m.eval(b[0]),[m.eval(x) for x in b[1]],m.eval(b[2]))
rules=dict(root=root,thirds=thirds,thirds_inv=thirds_inv,triads=triads,triads_inv=triads_inv,tetrads=tetrads,tetrads_inv=tetrads_inv,majmin=majmin,majmin_inv=majmin_inv,sevenths=sevenths,sevenths_inv=sevenths_inv,mirex=mirex)
for n,f in rules.items():
    prove(n+' self!=0', f(a,a)!=0)
    prove(n+' -1 ref only', (f(a,b)==-1)==(f(a,c)==-1))
imp=lambda f,g: z3.Implies(f(a,b)==1,g(a,b)==1)
for x,y in [('tetrads_inv','tetrads'),('tetrads','triads'),('triads','thirds'),('thirds','root'),('thirds_inv','thirds'),('triads_inv','triads'),('majmin_inv','majmin'),('sevenths_inv','sevenths'),('majmin','triads'),('sevenths','tetrads')]:
    prove(x+' => '+y, imp(rules[x],rules[y]))
prove('tetrads=1 => mirex!=0', z3.Implies(tetrads(a,b)==1, mirex(a,b)!=0))
