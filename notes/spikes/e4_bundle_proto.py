"""Throw-away prototype of E4: symbolic execution of every evaluate() with a symbolic **kwargs map."""
import ast, sys, copy, os
REPO = os.environ.get('PROTO_REPO', '/repo/mir_eval/')
TASKS = ['beat', 'onset', 'segment', 'chord', 'melody', 'multipitch', 'transcription', 'transcription_velocity',
         'tempo', 'key', 'pattern', 'hierarchy', 'alignment']

mods = {}
def mod(m):
    if m not in mods: mods[m] = ast.parse(open(REPO + m + '.py').read())
    return mods[m]
def fdef(m, name):
    for n in mod(m).body:
        if isinstance(n, ast.FunctionDef) and n.name == name: return n
def params(fd):
    a = fd.args
    names = [x.arg for x in a.posonlyargs + a.args]          # co_varnames[:co_argcount]
    return names, a.kwarg is not None

class User:      # value the user supplied for keyword p (if any)
    def __init__(s, p): s.p = p
    def __repr__(s): return 'user[%s]' % s.p
class Default:
    def __init__(s, p, d): s.p, s.d = p, d
    def __repr__(s): return 'user[%s] or %r' % (s.p, s.d)

class Path:
    def __init__(s):
        s.over = {}          # forced/overridden kwargs
        s.facts = {}         # assumptions made on this path
        s.env = {}
        s.scores = {}        # key -> (callrepr, comp)
        s.issues = []

def dotted(e):
    parts = []
    while isinstance(e, ast.Attribute): parts.append(e.attr); e = e.value
    parts.append(e.id if isinstance(e, ast.Name) else '?'); return '.'.join(reversed(parts))

def resolve(task, name):
    """name like 'detection' or 'util.adjust_intervals' -> (module, FunctionDef)"""
    if '.' in name:
        m, f = name.rsplit('.', 1)
        m = m.split('.')[-1]
        return (m, fdef(m, f)) if os.path.exists(REPO + m + '.py') else (m, None)
    fd = fdef(task, name)
    if fd is None and name == 'filter_kwargs': return 'util', fdef('util', name)
    return task, fd

def kwval(p, path):
    return path.over.get(p, User(p))

def eval_call(task, call, path):
    name = dotted(call.func)
    if name in ('util.filter_kwargs', 'filter_kwargs'):
        target = dotted(call.args[0]); args = [ast.unparse(a) for a in call.args[1:]]
        m, fd = resolve(task, target)
        pnames, haskw = params(fd)
        explicit = {k.arg: ast.unparse(k.value) for k in call.keywords if k.arg}
        star = any(k.arg is None for k in call.keywords)
        kw = {}
        accepted = pnames[len(args):]
        if star:
            for p in explicit:
                # the same keyword given explicitly and possibly inside **kwargs
                if p in path.over or True:
                    path.issues.append("call %s: keyword '%s' passed explicitly AND **kwargs may contain it -> TypeError for user[%s]" % (target, p, p))
            if haskw:
                kw['**'] = dict(path.over); kw['**user'] = True
            for p in accepted: kw[p] = kwval(p, path)
        for p, v in explicit.items(): kw[p] = v
        dead = [k for k in path.over if k not in pnames and not haskw]
        return ('%s.%s' % (m, fd.name), tuple(args), kw), dead
    return (name, tuple(ast.unparse(a) for a in call.args), {k.arg: ast.unparse(k.value) for k in call.keywords}), []

def run(task):
    fd = fdef(task, 'evaluate')
    paths = [Path()]
    used_forced = set(); forced_keys = set()
    def exec_block(stmts, paths):
        for st in stmts:
            new = []
            for p in paths: new += exec_stmt(st, p)
            paths = new
        return paths
    def exec_stmt(st, p):
        if isinstance(st, ast.Expr):
            if isinstance(st.value, ast.Constant): return [p]
            c = st.value
            if isinstance(c, ast.Call) and dotted(c.func) == 'kwargs.setdefault':
                k = c.args[0].value; d = ast.literal_eval(c.args[1])
                if k not in p.over: p.over[k] = Default(k, d)
                return [p]
            return [p]
        if isinstance(st, ast.Assign):
            tg = st.targets[0]
            # kwargs[k] = v
            if isinstance(tg, ast.Subscript) and isinstance(tg.value, ast.Name) and tg.value.id == 'kwargs':
                k = tg.slice.value
                v = st.value
                val = p.env.get(v.id) if isinstance(v, ast.Name) else ast.literal_eval(v)
                p.over[k] = val; forced_keys.add(k); return [p]
            # x = kwargs[k]
            if isinstance(st.value, ast.Subscript) and isinstance(st.value.value, ast.Name) and st.value.value.id == 'kwargs':
                p.env[tg.id] = kwval(st.value.slice.value, p); return [p]
            if isinstance(st.value, ast.Call):
                res, dead = eval_call(task, st.value, p)
                for k in res[2] if isinstance(res[2], dict) else []:
                    if k in p.over: used_forced.add(k)
                tgs = tg.elts if isinstance(tg, ast.Tuple) else [tg]
                for i, t in enumerate(tgs):
                    comp = i if isinstance(tg, ast.Tuple) else None
                    if isinstance(t, ast.Subscript) and isinstance(t.value, ast.Name) and t.value.id == 'scores':
                        p.scores[t.slice.value] = (res, comp)
                    elif isinstance(t, ast.Name): p.env[t.id] = ('res', res, comp)
                return [p]
            # scores[k] = expr (e.g. min(...)) or name = expr
            if isinstance(tg, ast.Subscript) and isinstance(tg.value, ast.Name) and tg.value.id == 'scores':
                p.scores[tg.slice.value] = ((ast.unparse(st.value), (), {}), None); return [p]
            if isinstance(tg, ast.Name): p.env[tg.id] = ast.unparse(st.value); return [p]
            return [p]
        if isinstance(st, ast.If):
            t = ast.unparse(st.test)
            # decide if determinable
            outs = []
            for truth in (True, False):
                q = copy.deepcopy(p)
                if t == "'n' not in kwargs":
                    if 'n' in q.over and truth: continue
                    q.facts["user gave n"] = not truth
                    if not truth: pass
                elif t == "kwargs['offset_ratio'] is not None":
                    v = q.over.get('offset_ratio')
                    if v is None and 'offset_ratio' in q.over:
                        if truth: continue
                    elif isinstance(v, (Default, User)) or (isinstance(v, tuple)):
                        if 'offset_ratio is None' in q.facts:
                            if q.facts['offset_ratio is None'] == truth: continue
                        else: q.facts['offset_ratio is None'] = not truth
                    else:
                        if not truth: continue
                elif t.startswith('reference_sources.ndim'):
                    q.facts[t] = truth
                else:
                    q.facts[t] = truth
                outs += exec_block(st.body if truth else st.orelse, [q])
            return outs
        if isinstance(st, ast.Return): return [p]
        return [p]
    paths = exec_block(fd.body, paths)
    return paths, forced_keys, used_forced

for task in TASKS:
    paths, forced, used = run(task)
    print('=' * 100); print(task, 'paths:', len(paths))
    allp = set()
    for p in paths:
        for k, (res, comp) in p.scores.items():
            if isinstance(res[2], dict):
                for a in res[2]:
                    allp.add(a)
    for k in sorted(forced):
        if k not in allp: print("  !! forced keyword '%s' is a parameter of NO callee that receives kwargs (dead store)" % k)
    for i, p in enumerate(paths):
        print('  path', i, p.facts)
        for iss in sorted(set(p.issues)): print('     !!', iss)
        for k, (res, comp) in p.scores.items():
            kw = {a: v for a, v in res[2].items() if not (isinstance(v, User))} if isinstance(res[2], dict) else res[2]
            print('     %-34s = %s%s %s' % (k, res[0], '' if comp is None else '[%d]' % comp, kw if kw else ''))
