import time, sys
exec(open('/tmp/strip/re_spike.py').read().split("s=z3.String('s')")[0])
S=z3.ReSort(z3.StringSort()); ANY=z3.AllChar(S); ALL=z3.Star(ANY)
s=z3.String('s')
def has(c): return C(ALL,L(c),ALL)
def no(c): return z3.Star(z3.Diff(ANY,L(c)))
def equiv(name,A,B):
    for tag,f in (('A\\B',z3.And(z3.InRe(s,A),z3.Not(z3.InRe(s,B)))),('B\\A',z3.And(z3.InRe(s,B),z3.Not(z3.InRe(s,A))))):
        so=z3.Solver(); so.set('timeout',60000); so.add(f); t0=time.time(); r=so.check()
        print(name,tag,r,round(time.time()-t0,3), so.model()[s] if r==z3.sat else '')
def incl(name,A,B):
    so=z3.Solver(); so.set('timeout',60000); so.add(z3.InRe(s,A),z3.Not(z3.InRe(s,B))); t0=time.time(); r=so.check()
    print(name,r,round(time.time()-t0,3), so.model()[s] if r==z3.sat else '')
NX=z3.Intersect(R, z3.Complement(L('N')))      # after `if chord_label == NO_CHORD: return`
head=U(L('X'),C(root,body))                      # label without bass part (X allowed)
# 1. '/' split
equiv('slash-decomp', z3.Intersect(NX,has('/')), C(C(root,body),L('/'),deg))
incl('head no slash', C(root,body), no('/')); incl('deg no slash', deg, no('/'))
equiv('noslash-branch', z3.Intersect(NX, z3.Complement(has('/'))), head)
# 2. '(' split on head
degs=C(sdeg, z3.Star(C(L(','),sdeg)))
pre=C(root,L(':'),z3.Option(sh))
equiv('paren-decomp', z3.Intersect(head,has('(')), C(pre,L('('),degs,L(')')))
incl('pre no (', pre, no('(')); incl('degs) no (', C(degs,L(')')), no('('))
# strip(')') on degs')' gives degs: degs has no ')' at either end
incl('degs no )', degs, no(')'))
# 3. omission and ':' : omission ("*" in degs) & ":" not in pre  -> impossible since pre always has ':'
incl('pre has colon', pre, has(':'))
# no-paren branch: head minus '(' : root[:sh]? or X
equiv('noparen-branch', z3.Intersect(head, z3.Complement(has('('))), U(L('X'), C(root, z3.Option(C(L(':'),sh)))))
# 4. ':' split on pre: exactly one colon
incl('pre one colon', pre, C(no(':'),L(':'),no(':')))
equiv('root lang', root, C(z3.Range('A','G'), U(z3.Star(L('b')),z3.Star(L('#')))))
# each comma piece of degs is sdeg: degs subset (no ',' )* separated
incl('degs pieces', degs, C(sdeg, z3.Star(C(L(','),sdeg))))
