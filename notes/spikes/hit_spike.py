import z3, time
I=z3.IntSort(); Rl=z3.RealSort()
ref=z3.Function('ref',I,Rl); est=z3.Function('est',I,Rl); idx=z3.Function('idx',I,I); inv=z3.Function('inv',I,I)
n,m,w=z3.Int('n'),z3.Int('m'),z3.Real('w'); i,j,k,k2=z3.Ints('i j k k2')
rs=lambda k: ref(idx(k))
perm=[z3.ForAll([k], z3.Implies(z3.And(0<=k,k<n), z3.And(0<=idx(k),idx(k)<n, inv(idx(k))==k)), patterns=[idx(k)]),
      z3.ForAll([i], z3.Implies(z3.And(0<=i,i<n), z3.And(0<=inv(i),inv(i)<n, idx(inv(i))==i)), patterns=[inv(i)]),
      z3.ForAll([k,k2], z3.Implies(z3.And(0<=k,k<k2,k2<n), rs(k)<=rs(k2)), patterns=[z3.MultiPattern(idx(k),idx(k2))])]
left=z3.Function('left',I,I); right=z3.Function('right',I,I)
def ss(f, x, strict):  # searchsorted on sorted rs: least k with rs(k) >= x (left) / > x (right)
    cmp_=(lambda v: v>x) if strict else (lambda v: v>=x)
    return [z3.And(0<=f, f<=n), z3.ForAll([k], z3.Implies(z3.And(0<=k,k<f), z3.Not(cmp_(rs(k)))), patterns=[idx(k)]), z3.ForAll([k], z3.Implies(z3.And(f<=k,k<n), cmp_(rs(k))), patterns=[idx(k)])]
J=z3.Int('J')
H=[n>=0,m>=0,w>=0,0<=J,J<m]+perm+ss(left(J),est(J)-w,False)+ss(right(J),est(J)+w,True)
absd=lambda x: z3.If(x>=0,x,-x)
def prove(name,goal):
    so=z3.Solver(); so.set('timeout',30000); so.set('auto_config',False); so.set('smt.mbqi',False); so.add(*H,z3.Not(goal)); t0=time.time(); print(name,so.check(),round(time.time()-t0,3))
# soundness: every emitted pair (idx(k),J), left<=k<right is a hit
prove('sound', z3.Implies(z3.And(left(J)<=k,k<right(J)), absd(ref(idx(k))-est(J))<=w))
# completeness: every hit i is emitted: exists k=inv(i) in [left,right)
prove('complete', z3.Implies(z3.And(0<=i,i<n,absd(ref(i)-est(J))<=w), z3.And(left(J)<=inv(i),inv(i)<right(J), idx(inv(i))==i)))
# emitted indices in range
prove('range', z3.Implies(z3.And(left(J)<=k,k<right(J)), z3.And(0<=idx(k),idx(k)<n, left(J)<=right(J))))
so=z3.Solver(); so.add(*H, n==2, m==1); print('consistent', so.check())
