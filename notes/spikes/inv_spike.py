import z3,time
I=z3.IntSort()
# unique outputs: a(k) strictly increasing values, ac(k) counts>0 ; same for b
a=z3.Function('a',I,I); ac=z3.Function('ac',I,I); b=z3.Function('b',I,I); bc=z3.Function('bc',I,I)
na,nb=z3.Ints('na nb'); i,j,k,l=z3.Ints('i j k l')
# suffix sums of a_counts: SA(i)=sum_{k>=i} ac(k): SA(na)=0, SA(i)=ac(i)+SA(i+1)
SA=z3.Function('SA',I,I)
# spec: INV(j) = sum_{l<j} bc(l)*GE(l) where GE(l)=sum of ac(k) for a(k)>=b(l) = SA(first(l)) where first(l)= least k with a(k)>=b(l)
first=z3.Function('first',I,I); SPEC=z3.Function('SPEC',I,I)
ax=[na>=0,nb>=0,
    z3.ForAll([k,l],z3.Implies(z3.And(0<=k,k<l,l<na),a(k)<a(l)),patterns=[z3.MultiPattern(a(k),a(l))]),
    z3.ForAll([k,l],z3.Implies(z3.And(0<=k,k<l,l<nb),b(k)<b(l)),patterns=[z3.MultiPattern(b(k),b(l))]),
    z3.ForAll([k],z3.Implies(z3.And(0<=k,k<na),ac(k)>0),patterns=[ac(k)]),
    SA(na)==0, z3.ForAll([k],z3.Implies(z3.And(0<=k,k<na),SA(k)==ac(k)+SA(k+1)),patterns=[SA(k)]),
    z3.ForAll([l],z3.Implies(z3.And(0<=l,l<nb), z3.And(0<=first(l),first(l)<=na,
          z3.ForAll([k],z3.Implies(z3.And(0<=k,k<first(l)),a(k)<b(l)),patterns=[a(k)]),
          z3.ForAll([k],z3.Implies(z3.And(first(l)<=k,k<na),a(k)>=b(l)),patterns=[a(k)]))),patterns=[first(l)]),
    SPEC(0)==0, z3.ForAll([l],z3.Implies(z3.And(0<=l,l<nb),SPEC(l+1)==SPEC(l)+SA(first(l))*bc(l)),patterns=[SPEC(l+1)])]
inv_,i2,j2,inv2=z3.Int('inv'),z3.Int('i2'),z3.Int('j2'),z3.Int('inv2')
# invariant: 0<=i<=na, 0<=j<=nb, inv==SPEC(j), (forall k<i: a(k)<b(j)) if j<nb   [i never passes first(j)], i <= first(j)
Inv=lambda i,j,inv: z3.And(0<=i,i<=na,0<=j,j<=nb,inv==SPEC(j), z3.Implies(j<nb, i<=first(j)))
def prove(name,hyps,goal):
    so=z3.Solver(); so.set('timeout',30000); so.set('auto_config',False); so.set('smt.mbqi',False); so.add(*ax,*hyps,z3.Not(goal)); t0=time.time(); print(name,so.check(),round(time.time()-t0,3))
prove('init',[],Inv(0,0,0))
guard=z3.And(i<na,j<nb)
# branch 1: a[i]<b[j] -> i+1
prove('pres lt',[Inv(i,j,inv_),guard,a(i)<b(j)],Inv(i+1,j,inv_))
# branch 2: a[i]>=b[j] -> inv += sum(ac[i:])*bc[j]; j+1
prove('pres ge',[Inv(i,j,inv_),guard,a(i)>=b(j)],Inv(i,j+1,inv_+SA(i)*bc(j)))
# exit: not guard -> result == SPEC(nb)
prove('post',[Inv(i,j,inv_),z3.Not(guard)],inv_==SPEC(nb))
print('--- with hints')
# L1: first monotone: for l<l2: first(l)<=first(l2)   -- prove as lemma (by contradiction, instantiating a(first(l2)))
l2=z3.Int('l2')
def prove2(name,hyps,goal,terms=[]):
    so=z3.Solver(); so.set('timeout',30000); so.set('auto_config',False); so.set('smt.mbqi',False)
    so.add(*ax,*hyps,z3.Not(goal))
    for t in terms: so.add(t==t)   # make trigger terms available
    t0=time.time(); print(name,so.check(),round(time.time()-t0,3))
prove2('L1 first monotone',[0<=l,l<l2,l2<nb], first(l)<=first(l2), terms=[a(first(l2)),a(first(l)),b(l),b(l2)])
L1=z3.ForAll([l,l2],z3.Implies(z3.And(0<=l,l<l2,l2<nb),first(l)<=first(l2)),patterns=[z3.MultiPattern(first(l),first(l2))])
prove2('pres ge',[L1,Inv(i,j,inv_),guard,a(i)>=b(j)],Inv(i,j+1,inv_+SA(i)*bc(j)),terms=[first(j+1),first(j),a(first(j))])
# L2 tail: if first(j)==na then for all l in [j,nb]: SPEC(l)==SPEC(j)   induction step
prove2('L2 step',[L1,0<=j,j<=l,l<nb,first(j)==na,SPEC(l)==SPEC(j)], SPEC(l+1)==SPEC(j), terms=[first(l),first(j)])
L2=z3.ForAll([j,l],z3.Implies(z3.And(0<=j,j<=l,l<=nb,j<nb,first(j)==na),SPEC(l)==SPEC(j)),patterns=[z3.MultiPattern(SPEC(l),first(j))])
prove2('post',[L1,L2,Inv(i,j,inv_),z3.Not(guard)],inv_==SPEC(nb),terms=[first(j),SPEC(nb)])
