import z3,time
exec(open('/tmp/strip/inv_spike.py').read().split("inv_,i2,j2,inv2")[0])
l2=z3.Int('l2')
for mb in (False,True):
    so=z3.Solver(); so.set('timeout',30000); so.set('auto_config',False); so.set('smt.mbqi',mb)
    so.add(*ax, 0<=l,l<l2,l2<nb, z3.Not(first(l)<=first(l2)))
    h=z3.Int('h'); so.add(h==a(first(l2)))
    t0=time.time(); print('mbqi',mb,so.check(),round(time.time()-t0,3))
# explicit manual instances
so=z3.Solver(); so.set('auto_config',False); so.set('smt.mbqi',False)
k0=first(l2)
so.add(na>=0,nb>=0,0<=l,l<l2,l2<nb, b(l)<b(l2))
so.add(0<=first(l),first(l)<=na, z3.Implies(z3.And(0<=k0,k0<first(l)),a(k0)<b(l)))
so.add(0<=first(l2),first(l2)<=na, z3.Implies(z3.And(first(l2)<=k0,k0<na),a(k0)>=b(l2)))
so.add(z3.Not(first(l)<=first(l2)))
print('manual',so.check())
