import z3,time
exec(open('/tmp/strip/mm_spike.py').read().split("Valid=z3.Function")[0])
# axioms with valid() expanded as macro: (a) as a rule applied at chosen m (instantiated by hand), (b) best
def A(m_,h_): return z3.Implies(valid(m_,h_), z3.And(size(m_)<=mm(h_), size(m_)<=rows(h_), size(m_)<=cols(h_)))   # (a)+pigeonhole at (m_,h_)
def Bx(h_): return z3.And(valid(best(h_),h_), size(best(h_))==mm(h_))
base=[z3.ForAll([m],size(m)>=0,patterns=[size(m)]),
    z3.ForAll([m,i,j],pairs(tr(m),j,i)==pairs(m,i,j),patterns=[pairs(tr(m),j,i)]), z3.ForAll([m],size(tr(m))==size(m),patterns=[tr(m)]),
    z3.ForAll([n,i,j],pairs(idm(n),i,j)==z3.And(i==j,0<=i,i<n),patterns=[pairs(idm(n),i,j)]), z3.ForAll([n],z3.Implies(n>=0,size(idm(n))==n),patterns=[idm(n)]),
    z3.ForAll([h,i,j],inH(trH(h),j,i)==inH(h,i,j),patterns=[inH(trH(h),j,i)]), z3.ForAll([h],z3.And(rows(trH(h))==cols(h),cols(trH(h))==rows(h)),patterns=[trH(h)])]
def prove(name,hyps,goal):
    for mb in (False,True):
        so=z3.Solver(); so.set('timeout',30000); so.set('auto_config',False); so.set('smt.mbqi',mb); so.add(*base,*hyps,z3.Not(goal))
        t0=time.time(); r=so.check(); print(name,'mbqi',mb,r,round(time.time()-t0,3))
        if r==z3.unsat: return
sub=z3.And(rows(h1)==rows(h2),cols(h1)==cols(h2),z3.ForAll([i,j],z3.Implies(inH(h1,i,j),inH(h2,i,j)),patterns=[inH(h1,i,j)]))
prove('monotone',[sub,Bx(h1),A(best(h1),h2)],mm(h1)<=mm(h2))
prove('bounds',[Bx(h),A(best(h),h)],z3.And(0<=mm(h),mm(h)<=rows(h),mm(h)<=cols(h)))
ht=trH(h)
prove('transpose <=',[Bx(h),A(tr(best(h)),ht)],mm(h)<=mm(ht))
prove('transpose >=',[Bx(ht),A(tr(best(ht)),h)],mm(ht)<=mm(h))
prove('diag',[n>=0,rows(h)==n,cols(h)==n,z3.ForAll([i],z3.Implies(z3.And(0<=i,i<n),inH(h,i,i)),patterns=[inH(h,i,i)]),Bx(h),A(best(h),h),A(idm(n),h)],mm(h)==n)
