import z3,time
M=z3.DeclareSort('Matching'); H=z3.DeclareSort('Rel'); I=z3.IntSort(); B=z3.BoolSort()
pairs=z3.Function('pairs',M,I,I,B); size=z3.Function('size',M,I)
inH=z3.Function('inH',H,I,I,B); rows=z3.Function('rows',H,I); cols=z3.Function('cols',H,I)
mm=z3.Function('mm',H,I); best=z3.Function('best',H,M); tr=z3.Function('tr',M,M); idm=z3.Function('idm',I,M); trH=z3.Function('trH',H,H)
m=z3.Const('m',M); h,h1,h2=z3.Consts('h h1 h2',H); i,j,i2,j2,n=z3.Ints('i j i2 j2 n')
def valid(m,h):
    return z3.And(z3.ForAll([i,j],z3.Implies(pairs(m,i,j),z3.And(inH(h,i,j),0<=i,i<rows(h),0<=j,j<cols(h))),patterns=[pairs(m,i,j)]),
                  z3.ForAll([i,j,j2],z3.Implies(z3.And(pairs(m,i,j),pairs(m,i,j2)),j==j2),patterns=[z3.MultiPattern(pairs(m,i,j),pairs(m,i,j2))]),
                  z3.ForAll([i,i2,j],z3.Implies(z3.And(pairs(m,i,j),pairs(m,i2,j)),i==i2),patterns=[z3.MultiPattern(pairs(m,i,j),pairs(m,i2,j))]))
Valid=z3.Function('Valid',M,H,B)
ax=[z3.ForAll([m,h],Valid(m,h)==valid(m,h),patterns=[Valid(m,h)]),
    z3.ForAll([m,h],z3.Implies(Valid(m,h),size(m)<=mm(h)),patterns=[Valid(m,h)]),          # (a)
    z3.ForAll([h],z3.And(Valid(best(h),h),size(best(h))==mm(h)),patterns=[best(h)]),        # (b)
    z3.ForAll([m],size(m)>=0,patterns=[size(m)]),
    z3.ForAll([m,h],z3.Implies(Valid(m,h),z3.And(size(m)<=rows(h),size(m)<=cols(h))),patterns=[Valid(m,h)]),   # pigeonhole
    z3.ForAll([m,i,j],pairs(tr(m),j,i)==pairs(m,i,j),patterns=[pairs(tr(m),j,i)]), z3.ForAll([m],size(tr(m))==size(m),patterns=[tr(m)]),
    z3.ForAll([n,i,j],pairs(idm(n),i,j)==z3.And(i==j,0<=i,i<n),patterns=[pairs(idm(n),i,j)]), z3.ForAll([n],z3.Implies(n>=0,size(idm(n))==n),patterns=[idm(n)]),
    z3.ForAll([h,i,j],inH(trH(h),j,i)==inH(h,i,j),patterns=[inH(trH(h),j,i)]), z3.ForAll([h],z3.And(rows(trH(h))==cols(h),cols(trH(h))==rows(h)),patterns=[trH(h)])]
def prove(name,hyps,goal,terms=[]):
    for mb in (False,True):
        so=z3.Solver(); so.set('timeout',30000); so.set('auto_config',False); so.set('smt.mbqi',mb); so.add(*ax,*hyps,z3.Not(goal))
        for t in terms: so.add(z3.FreshConst(t.sort(),'h')==t)
        t0=time.time(); r=so.check(); print(name,'mbqi',mb,r,round(time.time()-t0,3))
        if r==z3.unsat: break
sub=z3.And(rows(h1)==rows(h2),cols(h1)==cols(h2),z3.ForAll([i,j],z3.Implies(inH(h1,i,j),inH(h2,i,j)),patterns=[inH(h1,i,j)]))
prove('monotone',[sub],mm(h1)<=mm(h2),terms=[best(h1),Valid(best(h1),h2),Valid(best(h1),h1)])
prove('bounds',[],z3.And(0<=mm(h),mm(h)<=rows(h),mm(h)<=cols(h)),terms=[best(h)])
prove('transpose <=',[],mm(h)<=mm(trH(h)),terms=[best(h),tr(best(h)),Valid(tr(best(h)),trH(h)),Valid(best(h),h)])
prove('diag',[n>=0,rows(h)==n,cols(h)==n,z3.ForAll([i],z3.Implies(z3.And(0<=i,i<n),inH(h,i,i)),patterns=[inH(h,i,i)])],mm(h)==n,terms=[idm(n),Valid(idm(n),h),best(h),Valid(best(h),h)])
so=z3.Solver(); so.set('timeout',20000); so.add(*ax); print('axioms consistent?',so.check())
