import numpy as np, warnings, itertools, collections, traceback, sys
warnings.simplefilter('ignore')
import mir_eval
from mir_eval import beat,onset,segment,chord,melody,multipitch,transcription,transcription_velocity,tempo,key,pattern,hierarchy,alignment
rng=np.random.RandomState(int(sys.argv[1]) if len(sys.argv)>1 else 0)
issues=collections.defaultdict(list)
def rec(task,kind,detail,inp):
    k=(task,kind,detail)
    if len(issues[k])<2: issues[k].append(inp)
def events(lo=0,hi=12,maxn=7,step=0.125,allow_dup=True):
    n=rng.randint(0,maxn+1)
    x=np.sort(rng.randint(int(lo/step),int(hi/step),size=n)*step)
    return x.astype(float)
def contiguous(t0,t1,maxn=4,step=0.125):
    n=rng.randint(1,maxn+1)
    cuts=np.unique(np.concatenate([[t0,t1], rng.randint(int(t0/step)+1,int(t1/step),size=n-1)*step])) if t1-t0>step else np.array([t0,t1])
    return np.array(list(zip(cuts[:-1],cuts[1:])))
def check_range(task,scores,inp,unbounded=()):
    for k,v in scores.items():
        if isinstance(v,(tuple,list,np.ndarray)): rec(task,'nonscalar',k,inp); continue
        v=float(v)
        if k in unbounded: continue
        if not np.isfinite(v): rec(task,'nonfinite',k,inp)
        elif v<-1e-9 or v>1+1e-9: rec(task,'outofrange',k+':%.3f'%v,inp)
def run(task,f,inp,unbounded=()):
    try: s=f(*inp)
    except ValueError as e: rec(task,'ValueError',str(e)[:60],inp); return
    except Exception as e: rec(task,type(e).__name__,str(e)[:60],inp); return
    check_range(task,s,inp,unbounded)
N=int(sys.argv[2]) if len(sys.argv)>2 else 300
labs=['a','b','c','A']
chords=['C','C:min','G:7','N','X','D#:maj7/3','Bb:sus4(b7)','A:(1,5)','F:hdim7','C:maj(*1)/5','E:9']
for it in range(N):
    r,e=events(5,12),events(5,12)
    run('beat',beat.evaluate,(r,e),unbounded=('P-score','Information gain'))
    run('onset',onset.evaluate,(events(),events()))
    T=rng.randint(1,9)*0.5
    ri=contiguous(0,T); ei_end=T+rng.choice([-0.5,0,0,0.5]); 
    ei=contiguous(0,max(ei_end,0.125))
    rl=[labs[rng.randint(4)] for _ in ri]; el=[labs[rng.randint(4)] for _ in ei]
    run('segment',segment.evaluate,(ri,rl,ei,el),unbounded=('Ref-to-est deviation','Est-to-ref deviation','Mutual Information','Adjusted Rand Index','Adjusted Mutual Information'))
    t0=rng.randint(0,4)*0.5
    ri=contiguous(t0,t0+T); es=max(0,t0+rng.choice([-0.5,0,0,0.5])); ee=t0+T+rng.choice([-0.5,0,0,0.5])
    ei=contiguous(es,max(ee,es+0.125))
    run('chord',chord.evaluate,(ri,[chords[rng.randint(len(chords))] for _ in ri],ei,[chords[rng.randint(len(chords))] for _ in ei]))
    # melody
    n=rng.randint(1,7); t=np.arange(n)*0.125; m=rng.randint(1,7); t2=np.arange(m)*0.125*rng.choice([1,1,2])
    fr=rng.choice([0,0,220.,440.,-220.,230.],size=n); fe=rng.choice([0,220.,440.,-440.,225.],size=m)
    run('melody',melody.evaluate,(t,fr,t2,fe))
    # multipitch
    mk=lambda n:[np.array(sorted(rng.choice([220.,440.,660.,225.,880.],size=rng.randint(0,3),replace=False))) for _ in range(n)]
    run('multipitch',multipitch.evaluate,(t,mk(n),t2,mk(m)),unbounded=('Substitution Error','Miss Error','False Alarm Error','Total Error','Chroma Substitution Error','Chroma Miss Error','Chroma False Alarm Error','Chroma Total Error'))
    # transcription
    def notes():
        k=rng.randint(0,5); on=rng.randint(0,40,size=k)*0.125; du=rng.randint(1,8,size=k)*0.125
        return np.array([on,on+du]).T.reshape(-1,2), rng.choice([220.,440.,445.,880.],size=k), rng.randint(0,128,size=k).astype(float)
    a,b=notes(),notes()
    run('transcription',transcription.evaluate,(a[0],a[1],b[0],b[1]),unbounded=('Average_Overlap_Ratio','Average_Overlap_Ratio_no_offset'))
    run('transcription_velocity',transcription_velocity.evaluate,(a[0],a[1],a[2],b[0],b[1],b[2]),unbounded=('Average_Overlap_Ratio','Average_Overlap_Ratio_no_offset'))
    run('tempo',tempo.evaluate,(rng.choice([0,60.,90,120.],size=2)+np.array([0,1e-9]),rng.randint(0,5)/4.,rng.choice([0,60.,61,120.,180],size=2)))
    ks=['C major','c# minor','Db major','X','a other','G minor']
    run('key',key.evaluate,(ks[rng.randint(6)],ks[rng.randint(6)]))
    def pats():
        return [[[(float(rng.randint(0,4)),float(60+rng.randint(0,3))) for _ in range(rng.randint(1,4))] for _ in range(rng.randint(1,3))] for _ in range(rng.randint(0,3))]
    run('pattern',pattern.evaluate,(pats(),pats()))
    k=rng.randint(1,5); ra=np.sort(rng.randint(0,40,size=k)*0.125); ea=np.sort(rng.randint(0,40,size=k)*0.125)
    run('alignment',alignment.evaluate,(ra,ea),unbounded=('mae','aae','perceptual'))
    # hierarchy
    T=rng.randint(2,9)*0.5
    rh=[contiguous(0,T,maxn=1)]+[contiguous(0,T) for _ in range(rng.randint(0,3))]
    eh=[contiguous(0,T+rng.choice([0,0,.5]),maxn=1)]; eh+= [contiguous(0,eh[0][-1,1]) for _ in range(rng.randint(0,3))]
    run('hierarchy',hierarchy.evaluate,(rh,[[labs[rng.randint(4)] for _ in x] for x in rh],eh,[[labs[rng.randint(4)] for _ in x] for x in eh]))
for k,v in sorted(issues.items()):
    print(k)
    print('    e.g.',repr(v[0])[:400].replace('\n',' '))
