import z3, time
p,r,b,p2=z3.Reals('p r b p2')
F=lambda p,r: (1+b*b)*p*r/((b*b)*p+r)
def prove(name, hyps, goal):
    so=z3.Solver(); so.set('timeout',30000); so.add(*hyps, z3.Not(goal)); t0=time.time(); print(name, so.check(), round(time.time()-t0,3))
H=[0<=p,p<=1,0<=r,r<=1,b>0, z3.Not(z3.And(p==0,r==0))]
prove('den>0', H, (b*b)*p+r>0)
prove('F>=0', H, F(p,r)>=0)
prove('F<=1', H, F(p,r)<=1)
prove('F<=max', H, F(p,r)<=z3.If(p>r,p,r))
prove('F>=min', H, F(p,r)>=z3.If(p<r,p,r))
prove('sym b=1', H+[b==1], F(p,r)==F(r,p))
prove('mono p', H+[p<=p2,p2<=1], F(p,r)<=F(p2,r))
prove('F=1 iff', H, (F(p,r)==1)==z3.And(p==1,r==1))
# ratio lemma: 0<=m<=a, a>0 => 0<=m/a<=1
m,a=z3.Reals('m a')
prove('ratio', [0<=m,m<=a,a>0], z3.And(m/a>=0,m/a<=1))
# AOR <= 1
rs,re_,es,ee=z3.Reals('rs re es ee')
mx=lambda x,y: z3.If(x>y,x,y); mn=lambda x,y: z3.If(x<y,x,y)
prove('aor<=1', [rs<re_, es<ee], (mn(re_,ee)-mx(rs,es))/(mx(re_,ee)-mn(rs,es))<=1)
