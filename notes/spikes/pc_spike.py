import z3,time
s=z3.String('s'); i=z3.Int('i')
L=lambda x: z3.Re(x)
sharp=z3.Concat(z3.Range('A','G'), z3.Star(L('#')))
flat=z3.Concat(z3.Range('A','G'), z3.Star(L('b')))
def prove(name,hyps,goal,to=30000):
    so=z3.Solver(); so.set('timeout',to); so.add(*hyps,z3.Not(goal)); t0=time.time(); print(name,so.check(),round(time.time()-t0,3))
ch=lambda k: z3.SubString(s,k,1)
prove('pos>0 is #', [z3.InRe(s,sharp), 1<=i, i<z3.Length(s)], ch(i)==z3.StringVal('#'))
prove('pos0 in A-G', [z3.InRe(s,sharp)], z3.InRe(ch(0), z3.Range('A','G')))
prove('len>=1', [z3.InRe(s,sharp)], z3.Length(s)>=1)
prove('flat pos>0 is b', [z3.InRe(s,flat), 1<=i, i<z3.Length(s)], ch(i)==z3.StringVal('b'))
# loop step: semitone after idx chars = base + (idx-1) ; step at idx>=1 reads '#': +1
