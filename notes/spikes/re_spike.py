import re, sys, time
sys.path.insert(0,'/repo')
import z3
try:
    import re._parser as sre_parse
except ImportError:
    import sre_parse
import ast
src=open('/repo/mir_eval/chord.py').read()
t=ast.parse(src)
pat=None
for n in t.body:
    if isinstance(n,ast.Assign) and getattr(n.targets[0],'id',None)=='CHORD_RE':
        pat=n.value.args[0].value
print(len(pat))
def conv(p):
    # p: SubPattern
    parts=[]
    for op,av in p:
        op=str(op)
        if op=='LITERAL': parts.append(z3.Re(chr(av)))
        elif op=='AT': continue  # anchors ^ $ handled globally
        elif op=='IN':
            alts=[]
            for o,a in av:
                o=str(o)
                if o=='LITERAL': alts.append(z3.Re(chr(a)))
                elif o=='RANGE': alts.append(z3.Range(chr(a[0]),chr(a[1])))
                else: raise Exception(o)
            parts.append(alts[0] if len(alts)==1 else z3.Union(*alts))
        elif op=='SUBPATTERN':
            parts.append(conv(av[3]))
        elif op=='BRANCH':
            alts=[conv(x) for x in av[1]]
            parts.append(z3.Union(*alts))
        elif op=='MAX_REPEAT':
            lo,hi,sub=av
            r=conv(sub)
            if lo==0 and str(hi)=='MAXREPEAT': parts.append(z3.Star(r))
            elif lo==0 and hi==1: parts.append(z3.Option(r))
            elif lo==1 and str(hi)=='MAXREPEAT': parts.append(z3.Plus(r))
            else: raise Exception((lo,hi))
        else: raise Exception(op)
    if not parts: return z3.Re("")
    return parts[0] if len(parts)==1 else z3.Concat(*parts)
R=conv(sre_parse.parse(pat))
# spec grammar
L=lambda s: z3.Re(s)
U=lambda *a: z3.Union(*a) if len(a)>1 else a[0]
C=lambda *a: z3.Concat(*a)
root=C(z3.Range('A','G'), U(z3.Star(L('b')), z3.Star(L('#'))))
num=U(*[L(str(i)) for i in range(1,14)])
deg=C(U(z3.Star(L('b')), z3.Star(L('#'))), num)
sdeg=C(z3.Option(L('*')),deg)
deglist=C(L('('), sdeg, z3.Star(C(L(','),sdeg)), L(')'))
shorts="maj|min|dim|aug|1|5|sus2|sus4|maj6|min6|7|maj7|min7|dim7|hdim7|minmaj7|aug7|9|maj9|min9|11|maj11|min11|13|maj13|min13".split('|')
sh=U(*[L(x) for x in shorts])
body=z3.Option(U(C(L(':'),sh,z3.Option(deglist)), C(L(':'),deglist)))
spec=U(L('N'),L('X'),C(root,body,z3.Option(C(L('/'),deg))))
s=z3.String('s')
for name,f in [('code_not_spec', z3.And(z3.InRe(s,R), z3.Not(z3.InRe(s,spec)))),('spec_not_code', z3.And(z3.InRe(s,spec), z3.Not(z3.InRe(s,R))))]:
    so=z3.Solver(); so.set('timeout',120000); so.add(f)
    t0=time.time(); r=so.check(); print(name,r,time.time()-t0)
    if r==z3.sat: print(so.model()[s])
# at most one slash
so=z3.Solver(); so.set('timeout',60000)
anyc=z3.Star(z3.AllChar(z3.ReSort(z3.StringSort())))
so.add(z3.InRe(s,R), z3.InRe(s, C(anyc,L('/'),anyc,L('/'),anyc)))
t0=time.time(); print('two slashes', so.check(), time.time()-t0)
open('/tmp/strip/eq.smt2','w').write("(set-logic QF_SLIA)\n(declare-const s String)\n(assert %s)\n(check-sat)\n"%z3.And(z3.InRe(s,R), z3.Not(z3.InRe(s,spec))).sexpr())
# vacuity: mutated spec
shorts2=[x for x in shorts if x!='aug7']
sh2=U(*[L(x) for x in shorts2])
body2=z3.Option(U(C(L(':'),sh2,z3.Option(deglist)), C(L(':'),deglist)))
spec2=U(L('N'),L('X'),C(root,body2,z3.Option(C(L('/'),deg))))
so=z3.Solver(); so.add(z3.InRe(s,R), z3.Not(z3.InRe(s,spec2))); t0=time.time(); print(so.check(), so.model()[s], time.time()-t0)
# documented-harte-grammar where a bare ":" is disallowed etc. try: what about "C:" ?
so=z3.Solver(); so.add(z3.InRe(s,R), s==z3.StringVal("C:")); print('C: accepted?', so.check())
print(bool(re.match(pat,'C:')), bool(re.match(pat,'C/')), bool(re.match(pat,'C:maj()')))
