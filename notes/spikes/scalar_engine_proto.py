"""Throw-away prototype of the scalar engine (E1): AST of the real function -> paths -> z3 VCs."""
import ast, sys, time, itertools
import z3

import os
REPO = os.environ.get('PROTO_REPO','/repo/mir_eval/')

def load_fn(module, name):
    t = ast.parse(open(REPO + module + '.py').read())
    for n in t.body:
        if isinstance(n, ast.FunctionDef) and n.name == name:
            return n
    raise KeyError(name)

def load_const(module, name):
    t = ast.parse(open(REPO + module + '.py').read())
    for n in t.body:
        if isinstance(n, ast.Assign) and getattr(n.targets[0], 'id', None) == name:
            return ast.literal_eval(n.value)
    raise KeyError(name)

class Raise(Exception):
    def __init__(self, cls): self.cls = cls

class Opt:   # Option[T]: symbolic None-ness
    def __init__(self, isnone, val): self.isnone, self.val = isnone, val

NONE = object()

def is_sym(v): return isinstance(v, z3.ExprRef)

def to_bool(v):
    if isinstance(v, bool): return z3.BoolVal(v)
    if isinstance(v, z3.BoolRef): return v
    if is_sym(v): return v != 0
    if isinstance(v, (int, float)): return z3.BoolVal(v != 0)
    if v is None: return z3.BoolVal(False)
    raise TypeError(v)

def to_num(v):
    if isinstance(v, bool): return z3.RealVal(1 if v else 0)
    if isinstance(v, z3.BoolRef): return z3.If(v, z3.RealVal(1), z3.RealVal(0))
    if isinstance(v, (int, float)): return z3.RealVal(repr(v)) if isinstance(v, float) else z3.IntVal(v)
    return v

class Engine:
    def __init__(self, fn, contracts=None, consts=None, unroll=None):
        self.fn = fn; self.contracts = contracts or {}; self.consts = consts or {}
        self.obligations = []   # (name, pathcond, goal)
        self.unroll = unroll or {}

    # ---- expression evaluation: returns list of (value, pathcond-additions) to allow splitting
    def ev(self, e, env, pc):
        """yield (value, pc) pairs"""
        if isinstance(e, ast.Constant):
            yield e.value, pc; return
        if isinstance(e, ast.Name):
            if e.id in env: yield env[e.id], pc
            elif e.id in self.consts: yield self.consts[e.id], pc
            else: raise NameError(e.id)
            return
        if isinstance(e, ast.Tuple) or isinstance(e, ast.List):
            def rec(items, acc, pc):
                if not items: yield tuple(acc) if isinstance(e, ast.Tuple) else list(acc), pc; return
                for v, pc2 in self.ev(items[0], env, pc):
                    yield from rec(items[1:], acc + [v], pc2)
            yield from rec(e.elts, [], pc); return
        if isinstance(e, ast.UnaryOp):
            for v, pc2 in self.ev(e.operand, env, pc):
                if isinstance(e.op, ast.Not): yield z3.simplify(z3.Not(to_bool(v))), pc2
                elif isinstance(e.op, ast.USub): yield -to_num(v), pc2
                else: raise NotImplementedError(e.op)
            return
        if isinstance(e, ast.BinOp):
            for a, pc1 in self.ev(e.left, env, pc):
                for b, pc2 in self.ev(e.right, env, pc1):
                    yield from self.binop(e.op, a, b, pc2, e)
            return
        if isinstance(e, ast.BoolOp):
            # short circuit by path splitting on first operand
            def rec(vals, pc):
                for v, pc1 in self.ev(vals[0], env, pc):
                    if len(vals) == 1: yield v, pc1; continue
                    b = to_bool(v)
                    if isinstance(e.op, ast.And):
                        if self.feasible(pc1 + [z3.Not(b)]): yield z3.BoolVal(False), pc1 + [z3.Not(b)]
                        if self.feasible(pc1 + [b]): yield from rec(vals[1:], pc1 + [b])
                    else:
                        if self.feasible(pc1 + [b]): yield z3.BoolVal(True), pc1 + [b]
                        if self.feasible(pc1 + [z3.Not(b)]): yield from rec(vals[1:], pc1 + [z3.Not(b)])
            yield from rec(e.values, pc); return
        if isinstance(e, ast.Compare):
            def rec(left, ops, comps, acc, pc):
                if not ops: yield z3.simplify(z3.And(*acc)) if len(acc) > 1 else acc[0], pc; return
                for r, pc1 in self.ev(comps[0], env, pc):
                    c = self.cmp(ops[0], left, r)
                    yield from rec(r, ops[1:], comps[1:], acc + [c], pc1)
            for l, pc0 in self.ev(e.left, env, pc):
                yield from rec(l, e.ops, e.comparators, [], pc0)
            return
        if isinstance(e, ast.IfExp):
            for c, pc1 in self.ev(e.test, env, pc):
                b = to_bool(c)
                if self.feasible(pc1 + [b]): yield from self.ev(e.body, env, pc1 + [b])
                if self.feasible(pc1 + [z3.Not(b)]): yield from self.ev(e.orelse, env, pc1 + [z3.Not(b)])
            return
        if isinstance(e, ast.Subscript):
            for base, pc1 in self.ev(e.value, env, pc):
                for idx, pc2 in self.ev(e.slice, env, pc1):
                    if isinstance(base, dict): yield base[idx], pc2
                    else: yield base[idx], pc2
            return
        if isinstance(e, ast.Call):
            yield from self.call(e, env, pc); return
        if isinstance(e, ast.Attribute):
            d = self.dotted(e)
            yield ('attr', d), pc; return
        raise NotImplementedError(ast.dump(e))

    def dotted(self, e):
        parts = []
        while isinstance(e, ast.Attribute): parts.append(e.attr); e = e.value
        parts.append(e.id if isinstance(e, ast.Name) else '<expr>'); return '.'.join(reversed(parts))

    def binop(self, op, a, b, pc, node):
        for x in (a, b):
            if isinstance(x, Opt):
                self.obligations.append(('safe:not-None@L%d' % node.lineno, list(pc), z3.Not(x.isnone)))
                pc = pc + [z3.Not(x.isnone)]
        a = a.val if isinstance(a, Opt) else a; b = b.val if isinstance(b, Opt) else b
        a, b = to_num(a), to_num(b)
        if isinstance(a, list) or isinstance(b, list):     # elementwise on fixed-size arrays
            n = len(a) if isinstance(a, list) else len(b)
            aa = a if isinstance(a, list) else [a] * n; bb = b if isinstance(b, list) else [b] * n
            outs = [[]]; pcs = [pc]
            res = []
            for x, y in zip(aa, bb):
                (v, pc), = list(self.binop(op, x, y, pc, node))
                res.append(v)
            yield res, pc; return
        if isinstance(op, ast.Add): yield a + b, pc
        elif isinstance(op, ast.Sub): yield a - b, pc
        elif isinstance(op, ast.Mult): yield a * b, pc
        elif isinstance(op, ast.Pow):
            assert isinstance(b, z3.IntNumRef) and b.as_long() == 2, 'only **2'
            yield a * a, pc
        elif isinstance(op, ast.Div):
            self.obligations.append(('safe:div@L%d' % node.lineno, list(pc), b != 0))
            yield a / b, pc + [b != 0]
        elif isinstance(op, ast.Mod):
            self.obligations.append(('safe:mod@L%d' % node.lineno, list(pc), b != 0))
            yield a % b, pc + [b != 0]
        else: raise NotImplementedError(op)

    def cmp(self, op, l, r):
        if isinstance(op, (ast.Is, ast.IsNot)):
            assert r is None
            v = l.isnone if isinstance(l, Opt) else z3.BoolVal(l is None)
            return v if isinstance(op, ast.Is) else z3.Not(v)
        if isinstance(l, Opt) or isinstance(r, Opt):
            lo = l if isinstance(l, Opt) else Opt(z3.BoolVal(False), to_num(l))
            ro = r if isinstance(r, Opt) else Opt(z3.BoolVal(False), to_num(r))
            eq = z3.Or(z3.And(lo.isnone, ro.isnone), z3.And(z3.Not(lo.isnone), z3.Not(ro.isnone), lo.val == ro.val))
            if isinstance(op, ast.Eq): return eq
            if isinstance(op, ast.NotEq): return z3.Not(eq)
            raise NotImplementedError
        if isinstance(l, str) and is_sym(r): l = self.enum(l, r)
        if isinstance(r, str) and is_sym(l): r = self.enum(r, l)
        if isinstance(l, str) and isinstance(r, str):
            return z3.BoolVal({ast.Eq: l == r, ast.NotEq: l != r}[type(op)])
        l, r = to_num(l), to_num(r)
        return {ast.Eq: lambda: l == r, ast.NotEq: lambda: l != r, ast.Lt: lambda: l < r, ast.LtE: lambda: l <= r,
                ast.Gt: lambda: l > r, ast.GtE: lambda: l >= r}[type(op)]()

    def enum(self, s, like):
        sort = like.sort()
        for i in range(sort.num_constructors()):
            if sort.constructor(i).name() == s: return sort.constructor(i)()
        raise KeyError(s)

    def call(self, e, env, pc):
        name = self.dotted(e.func) if isinstance(e.func, (ast.Attribute, ast.Name)) else None
        if name in ('warnings.warn',):
            yield None, pc; return
        # evaluate args
        def rec(args, acc, pc):
            if not args: yield acc, pc; return
            for v, pc1 in self.ev(args[0], env, pc): yield from rec(args[1:], acc + [v], pc1)
        for args, pc1 in rec(e.args, [], pc):
            if name and name.endswith('.format'):
                yield 'msg', pc1
            elif name == 'float': yield to_num(args[0]), pc1
            elif name == 'bool': yield to_bool(args[0]), pc1
            elif name == 'ValueError': yield ('exc', 'ValueError'), pc1
            elif name == 'enumerate': yield [(i, v) for i, v in enumerate(args[0])], pc1
            elif name == 'np.abs':
                a = args[0]
                f = lambda x: z3.If(to_num(x) >= 0, to_num(x), -to_num(x))
                yield ([f(x) for x in a] if isinstance(a, list) else f(a)), pc1
            elif name in ('np.min', 'np.max', 'min', 'max'):
                a = args[0] if len(args) == 1 else args
                a = [to_num(x) for x in a]
                r = a[0]
                for x in a[1:]:
                    r = z3.If(x < r, x, r) if name.endswith('min') else z3.If(x > r, x, r)
                yield r, pc1
            elif name in self.contracts:
                yield from self.contracts[name](self, args, pc1)
            else: raise NotImplementedError(name)

    def feasible(self, pc):
        s = z3.Solver(); s.set('timeout', 2000); s.add(*self.pre, *pc)
        return s.check() != z3.unsat

    # ---- statements: generator of (env, pc, outcome) ; outcome None = fallthrough
    def ex_block(self, stmts, env, pc):
        if not stmts: yield env, pc, None; return
        for env1, pc1, out in self.ex(stmts[0], env, pc):
            if out is not None: yield env1, pc1, out
            else: yield from self.ex_block(stmts[1:], env1, pc1)

    def ex(self, st, env, pc):
        if isinstance(st, ast.Expr):
            if isinstance(st.value, ast.Constant): yield env, pc, None; return
            for _, pc1 in self.ev(st.value, env, pc): yield env, pc1, None
            return
        if isinstance(st, ast.Assign):
            for v, pc1 in self.ev(st.value, env, pc):
                env1 = dict(env)
                for tg in st.targets: self.assign(tg, v, env1)
                yield env1, pc1, None
            return
        if isinstance(st, ast.Return):
            for v, pc1 in self.ev(st.value, env, pc): yield env, pc1, ('return', v)
            return
        if isinstance(st, ast.Raise):
            cls = st.exc.func.id if isinstance(st.exc, ast.Call) else st.exc.id   # message args dropped by design
            yield env, pc, ('raise', cls)
            return
        if isinstance(st, ast.If):
            for c, pc1 in self.ev(st.test, env, pc):
                b = to_bool(c)
                if self.feasible(pc1 + [b]): yield from self.ex_block(st.body, env, pc1 + [b])
                if self.feasible(pc1 + [z3.Not(b)]): yield from self.ex_block(st.orelse, env, pc1 + [z3.Not(b)])
            return
        if isinstance(st, ast.For):    # fixed-length unrolling only
            for it, pc1 in self.ev(st.iter, env, pc):
                assert isinstance(it, (list, tuple)), 'only fixed-length loops in prototype'
                def rec(items, env, pc):
                    if not items: yield env, pc, None; return
                    env1 = dict(env); self.assign(st.target, items[0], env1)
                    for env2, pc2, out in self.ex_block(st.body, env1, pc):
                        if out is not None: yield env2, pc2, out
                        else: yield from rec(items[1:], env2, pc2)
                yield from rec(list(it), env, pc1)
            return
        raise NotImplementedError(ast.dump(st)[:80])

    def assign(self, tg, v, env):
        if isinstance(tg, ast.Name): env[tg.id] = v
        elif isinstance(tg, ast.Tuple):
            assert len(tg.elts) == len(v), 'unpack arity'
            for t, x in zip(tg.elts, v): self.assign(t, x, env)
        elif isinstance(tg, ast.Subscript):
            base = env[tg.value.id]; idx = tg.slice.value if isinstance(tg.slice, ast.Constant) else env[tg.slice.id]
            new = list(base); new[idx] = v; env[tg.value.id] = new
        else: raise NotImplementedError(tg)

    def run(self, env, pre):
        self.pre = pre
        body = self.fn.body
        return list(self.ex_block(body, env, []))

def discharge(name, pre, pc, goal, timeout=10000):
    s = z3.Solver(); s.set('timeout', timeout); s.add(*pre, *pc, z3.Not(goal))
    t0 = time.time(); r = s.check(); dt = time.time() - t0
    return r, dt, (s.model() if r == z3.sat else None)

def verify(title, eng, env, pre, post, raises=None, show_model=None):
    paths = eng.run(env, pre)
    n = 0; bad = 0; tt = 0
    for i, (_, pc, out) in enumerate(paths):
        kind, val = out if out else ('fallthrough', None)
        if kind == 'return':
            for cname, goal in post(val):
                r, dt, m = discharge(cname, pre, pc, goal); n += 1; tt += dt
                if r != z3.unsat:
                    bad += 1; print('   FAIL %s#post:%s/p%d -> %s' % (title, cname, i, r), (show_model(m) if (m and show_model) else ''))
        elif kind == 'raise':
            cond = (raises or {}).get(val)
            goal = cond if cond is not None else z3.BoolVal(False)
            r, dt, m = discharge('exc', pre, pc, goal); n += 1; tt += dt
            if r != z3.unsat: bad += 1; print('   FAIL %s#exc:%s/p%d -> %s' % (title, val, i, r))
    for cname, pc, goal in eng.obligations:
        r, dt, m = discharge(cname, pre, pc, goal); n += 1; tt += dt
        if r != z3.unsat: bad += 1; print('   FAIL %s#%s -> %s' % (title, cname, r), (show_model(m) if (m and show_model) else ''))
    print('%-34s paths=%d obligations=%d failed=%d solver=%.3fs' % (title, len(paths), n, bad, tt))
    return bad

if __name__ == '__main__':
    R = z3.Real
    # ---------------- util.f_measure
    p, r, b = R('precision'), R('recall'), R('beta')
    pre = [0 <= p, p <= 1, 0 <= r, r <= 1, b > 0]
    spec = z3.If(z3.And(p == 0, r == 0), 0, (1 + b * b) * p * r / (b * b * p + r))
    eng = Engine(load_fn('util', 'f_measure'))
    verify('util.f_measure', eng, dict(precision=p, recall=r, beta=b), pre,
           lambda res: [('range', z3.And(to_num(res) >= 0, to_num(res) <= 1)), ('def', to_num(res) == spec)],
           show_model=lambda m: {str(d): m[d] for d in m})
    # ---------------- tempo.detection  (validate as contract)
    r0, r1, e0, e1, w, tol = R('r0'), R('r1'), R('e0'), R('e1'), R('w'), R('tol')
    valid = z3.And(r0 >= 0, r1 >= 0, z3.Or(r0 > 0, r1 > 0), e0 >= 0, e1 >= 0, 0 <= w, w <= 1)
    def c_validate(eng, args, pc):
        yield None, pc + [valid]          # normal outcome; (the ValueError outcome is the complement, checked separately)
    eng = Engine(load_fn('tempo', 'detection'), contracts={'validate': c_validate})
    pre = [valid]      # only the normal-validate outcome explored here
    def post_tempo(res):
        ps, one, both = res
        h0 = z3.And(r0 > 0, z3.Or(z3.If(r0 - e0 >= 0, r0 - e0, e0 - r0) / r0 <= tol, z3.If(r0 - e1 >= 0, r0 - e1, e1 - r0) / r0 <= tol))
        h1 = z3.And(r1 > 0, z3.Or(z3.If(r1 - e0 >= 0, r1 - e0, e0 - r1) / r1 <= tol, z3.If(r1 - e1 >= 0, r1 - e1, e1 - r1) / r1 <= tol))
        return [('range', z3.And(to_num(ps) >= 0, to_num(ps) <= 1)),
                ('def', to_num(ps) == w * z3.If(h0, 1.0, 0.0) + (1 - w) * z3.If(h1, 1.0, 0.0)),
                ('one', to_bool(one) == z3.Or(h0, h1)), ('both', to_bool(both) == z3.And(h0, h1)),
                ('both=>one', z3.Implies(to_bool(both), to_bool(one)))]
    verify('tempo.detection', eng, dict(reference_tempi=[r0, r1], reference_weight=w, estimated_tempi=[e0, e1], tol=tol), pre,
           post_tempo, raises={'ValueError': z3.Or(tol < 0, tol > 1)})
    # ---------------- key.weighted_score (validate, split_key_string as contracts)
    Mode, (MAJ, MIN, OTH, NOMODE) = z3.EnumSort('Mode', ['major', 'minor', 'other', 'nomode'])
    rk, ek = z3.Int('rk'), z3.Int('ek'); rn, en = z3.Bool('rk_none'), z3.Bool('ek_none'); rm, em = z3.Const('rm', Mode), z3.Const('em', Mode)
    pre = [z3.Implies(z3.Not(rn), z3.And(0 <= rk, rk < 12, rm != NOMODE)), z3.Implies(rn, rm == NOMODE),
           z3.Implies(z3.Not(en), z3.And(0 <= ek, ek < 12, em != NOMODE)), z3.Implies(en, em == NOMODE)]
    keys = {'R': (Opt(rn, rk), rm), 'E': (Opt(en, ek), em)}
    def c_split(eng, args, pc): yield keys[args[0]], pc
    def c_valid(eng, args, pc): yield None, pc
    eng = Engine(load_fn('key', 'weighted_score'), contracts={'split_key_string': c_split, 'validate': c_valid})
    d = (ek - rk) % 12
    table = z3.If(z3.And(z3.Or(z3.And(rn, en), z3.And(z3.Not(rn), z3.Not(en), rk == ek)), rm == em), 1.0,
            z3.If(z3.Or(rn, en), 0.0,
            z3.If(z3.And(em == rm, d == 7), 0.5,
            z3.If(z3.And(em != rm, rm == MAJ, d == 9), 0.3,
            z3.If(z3.And(em != rm, rm == MIN, d == 3), 0.3,
            z3.If(z3.And(em != rm, d == 0), 0.2, 0.0))))))
    def post_key(res):
        v = to_num(res)
        return [('table', v == table), ('range', z3.Or(v == 0, v == 0.2, v == 0.3, v == 0.5, v == 1))]
    verify('key.weighted_score', eng, dict(reference_key='R', estimated_key='E'), pre, post_key)
    # transposition lemma over the table (C09)
    t = z3.Int('t'); sub = lambda f: z3.substitute(f, (rk, (rk + t) % 12), (ek, (ek + t) % 12))
    rr, dt, m = discharge('lemma', pre + [0 <= t, t < 12], [], table == sub(table)); print('lemma_C09_key_transpose', rr, round(dt, 3))
