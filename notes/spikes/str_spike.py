import time, sys
exec(open('/tmp/strip/re_spike.py').read().split("s=z3.String('s')")[0])
s,a,b=z3.Strings('s a b')
anyc=z3.Star(z3.AllChar(z3.ReSort(z3.StringSort())))
noslash=z3.Star(z3.Diff(z3.AllChar(z3.ReSort(z3.StringSort())), L('/')))
head=C(root,body)
def chk(name,*fs,to=60000):
    so=z3.Solver(); so.set('timeout',to); so.add(*fs); t0=time.time(); r=so.check(); print(name,r,round(time.time()-t0,3)); 
    if r==z3.sat: print(so.model())
# python: a,b = s.split('/') under s in R and '/' in s
i=z3.IndexOf(s,z3.StringVal('/'),0)
pre=[z3.InRe(s,R), z3.Contains(s,z3.StringVal('/')), a==z3.SubString(s,0,i), b==z3.SubString(s,i+1,z3.Length(s)-i-1)]
chk('b has slash', *pre, z3.Contains(b,z3.StringVal('/')))
chk('a not head', *pre, z3.Not(z3.InRe(a,head)))
chk('b not deg', *pre, z3.Not(z3.InRe(b,deg)))
chk('sanity sat', *pre)
