import z3, time
A=z3.ArraySort(z3.IntSort(), z3.RealSort())
Sum=z3.Function('Sum', A, z3.IntSort(), z3.RealSort())   # Sum(a,n)=a[0]+..+a[n-1]
a,b=z3.Consts('a b',A); n,k,i=z3.Ints('n k i')
ax=[z3.ForAll([a], Sum(a,0)==0), z3.ForAll([a,k], z3.Implies(k>=0, Sum(a,k+1)==Sum(a,k)+a[k]))]
def prove(name,hyps,goal):
    so=z3.Solver(); so.set('timeout',20000); so.add(*ax,*hyps,z3.Not(goal)); t0=time.time(); print(name,so.check(),round(time.time()-t0,3))
# monotone lemma, induction step: IH at k, prove at k+1
pw=z3.ForAll([i], z3.Implies(z3.And(0<=i,i<n), a[i]<=b[i]))
prove('mono base',[pw], Sum(a,0)<=Sum(b,0))
prove('mono step',[pw,0<=k,k<n, Sum(a,k)<=Sum(b,k)], Sum(a,k+1)<=Sum(b,k+1))
# use lemma as axiom: precision <= 1: tp[i] <= nest[i] => Sum(tp)/Sum(nest) <= 1
mono=z3.ForAll([a,b,n], z3.Implies(z3.And(n>=0, z3.ForAll([i], z3.Implies(z3.And(0<=i,i<n), a[i]<=b[i]))), Sum(a,n)<=Sum(b,n)))
tp,ne,zero=z3.Consts('tp ne zero',A)
prove('precision<=1',[mono, n>=0, z3.ForAll([i], z3.Implies(z3.And(0<=i,i<n), z3.And(0<=tp[i], tp[i]<=ne[i]))), Sum(ne,n)>0], Sum(tp,n)/Sum(ne,n)<=1)
# identity e_tot = e_sub+e_miss+e_fa via linearity lemma on pointwise identity
nr=z3.Const('nr',A)
mx=lambda x,y: z3.If(x>y,x,y); mn=lambda x,y: z3.If(x<y,x,y)
tot=z3.Lambda([i], mx(nr[i],ne[i])-tp[i]); sub=z3.Lambda([i], mn(nr[i],ne[i])-tp[i]); miss=z3.Lambda([i], mx(nr[i]-ne[i],0)); fa=z3.Lambda([i], mx(ne[i]-nr[i],0))
# induction step for Sum(tot,k)==Sum(sub,k)+Sum(miss,k)+Sum(fa,k)
prove('ident base',[], Sum(tot,0)==Sum(sub,0)+Sum(miss,0)+Sum(fa,0))
prove('ident step',[k>=0, Sum(tot,k)==Sum(sub,k)+Sum(miss,k)+Sum(fa,k)], Sum(tot,k+1)==Sum(sub,k+1)+Sum(miss,k+1)+Sum(fa,k+1))
