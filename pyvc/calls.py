"""Call dispatch of the symbolic executor: builtins, methods, library models, repository callees
(by contract, or inlined when the contract says so), and the clause / spec vocabulary of contracts."""
import ast

import z3

from . import frontend
from .values import *      # noqa
from .symex import OutOfSubset, St, new_ref, SliceV, NAN, INF, Engine
from . import kinds


def ev_args(eng, e, st):
    """yield ((args, kwargs) | Raised, st)"""
    pos = []
    for a in e.args:
        if isinstance(a, ast.Starred):
            raise OutOfSubset('*args at call site')
        pos.append(a)
    kws = [k for k in e.keywords]
    for vals, st1 in eng.ev_many(pos + [k.value for k in kws], st):
        if isinstance(vals, Raised):
            yield vals, st1
            continue
        args = vals[:len(pos)]
        kwargs = {}
        bad = False
        for k, v in zip(kws, vals[len(pos):]):
            if k.arg is None:
                o = st1.heap[v.oid] if isinstance(v, Ref) else None
                if not isinstance(o, DictV):
                    raise OutOfSubset('** of a non-dict')
                for kk, vv in o.items.items():
                    if kk in kwargs:
                        bad = True
                    kwargs[kk] = vv
            else:
                if k.arg in kwargs:
                    bad = True
                kwargs[k.arg] = v
        if bad:
            yield Raised('TypeError'), st1
        else:
            yield (args, kwargs), st1


def ev_call(eng, e, st):
    d = frontend.dotted(e.func)
    # dropped by extraction (DESIGN 2.1): warnings.warn(...) ; message formatting
    if d is not None:
        r = frontend.resolve(eng.mod, d) if d.split('.')[0] not in st.env else None
        if r and r[0] == 'lib' and r[1] in ('warnings.warn',):
            yield None, st
            return
    if isinstance(e.func, ast.Attribute) and e.func.attr == 'format' and isinstance(e.func.value, (ast.Constant, ast.JoinedStr)):
        if isinstance(e.func.value, ast.Constant) and e.args and all(isinstance(a, ast.Name) for a in e.args) and \
                any(is_z3(st.env.get(a.id)) and st.env[a.id].sort() == kinds.OBJ_SORT for a in e.args):
            # a string assembled from abstract text values is data, not a message: an uninterpreted function of its parts
            vals = [st.env[a.id] for a in e.args]
            if all(is_z3(v) and v.sort() == kinds.OBJ_SORT for v in vals):
                f = uninterpreted('format[%s]' % e.func.value.value, ['ObjT'] * len(vals), 'ObjT')
                yield f(*vals), st
                return
        yield '<msg>', st
        return
    for f, st0 in eng.ev(e.func, st):
        if isinstance(f, Raised):
            yield f, st0
            continue
        if isinstance(f, FnV) and f.kind == 'spec' and f.name in LAZY_SPEC:
            yield from LAZY_SPEC[f.name](eng, e, st0)
            continue
        clause_in_lemma = isinstance(f, FnV) and f.kind == 'spec' and f.name in ('requires', 'ensures') and eng.lemma_mode
        if clause_in_lemma:
            eng.spec_mode = True       # clause arguments are formulas: no path splitting, no obligations
        try:
            arg_outcomes = list(ev_args(eng, e, st0))
        finally:
            if clause_in_lemma:
                eng.spec_mode = False
        for ak, st1 in arg_outcomes:
            if isinstance(ak, Raised):
                yield ak, st1
                continue
            args, kwargs = ak
            yield from apply(eng, f, args, kwargs, st1, e)


def apply(eng, f, args, kwargs, st, node=None):
    if not isinstance(f, FnV):
        raise OutOfSubset('call of %r' % (f,))
    if f.kind == 'exc':
        yield Obj('exc', f.name), st
    elif f.kind == 'builtin':
        yield from builtin(eng, f.name, args, kwargs, st)
    elif f.kind == 'method':
        yield from method(eng, f.env['self'], f.name, args, kwargs, st)
    elif f.kind == 'lib':
        from . import npmodel
        fn = npmodel.LIB.get(f.name)
        if fn is None:
            raise OutOfSubset('no model for library function %s' % f.name)
        yield from fn(eng, st, args, kwargs)
    elif f.kind == 'lambda':
        yield from call_lambda(eng, f, args, st)
    elif f.kind == 'nested':
        yield from call_nested(eng, f, args, kwargs, st)
    elif f.kind == 'repo':
        yield from call_repo(eng, f.name, args, kwargs, st)
    elif f.kind == 'spec':
        yield from SPEC[f.name](eng, args, kwargs, st)
    elif f.kind == 'specdef':
        yield from call_specdef(eng, f, args, kwargs, st)
    elif f.kind == 'uf':
        if NATIVE_MODE[0] and not any(is_z3(a) for a in args) and f.name in NATIVE_UF:
            yield NATIVE_UF[f.name](*args), st          # concrete replay: the spec function has an executable meaning
        else:
            def _arg(i, a):
                if not isinstance(a, str):
                    return to_z3(to_num(a) if not is_bool_like(a) else a)
                if f.node.domain(i) == kinds.OBJ_SORT:
                    # a string literal where an object is expected (e.g. a callee's default `comment="#"`): one constant per literal
                    return z3.Const('strlit!%s' % a.encode('unicode_escape').decode(), kinds.OBJ_SORT)
                return enum_const(f.node.domain(i), a)
            yield f.node(*[_arg(i, a) for i, a in enumerate(args)]), st
    else:
        raise OutOfSubset('call kind %s' % f.kind)


def call_lambda(eng, f, args, st):
    lam = f.node
    names = [a.arg for a in lam.args.args]
    saved = st.env
    env = dict(f.env)
    env.update({k: v for k, v in saved.items() if k not in env})
    env.update(dict(zip(names, args)))
    st.env = env
    for v, st1 in eng.ev(lam.body, st):
        st1.env = saved if st1 is st else dict(saved)
        yield v, st1


def bind(fd, args, kwargs, eng, st):
    """bind call arguments to the callee's parameters; returns env or Raised"""
    pos, kwonly, has_kw, has_var = frontend.params(fd)
    dflt = frontend.defaults(fd)
    env = {}
    if len(args) > len(pos) and not has_var:
        return Raised('TypeError')
    for p, a in zip(pos, args):
        env[p] = a
    extra = {}
    for k, v in kwargs.items():
        if k in env:
            return Raised('TypeError')
        if k in pos or k in kwonly:
            env[k] = v
        elif has_kw:
            extra[k] = v
        else:
            return Raised('TypeError')
    for p in pos + kwonly:
        if p not in env:
            if p in dflt:
                try:
                    env[p] = ast.literal_eval(dflt[p])
                except Exception:
                    # non-literal default: evaluate in the callee's module context
                    for v, _ in eng.ev(dflt[p], st):
                        env[p] = v
                        break
            else:
                return Raised('TypeError')
    if has_kw:
        env[fd.args.kwarg.arg] = new_ref(st, DictV(extra))
    if has_var:
        env[fd.args.vararg.arg] = tuple(args[len(pos):])
    return env


def call_nested(eng, f, args, kwargs, st):
    fd = f.node
    env = bind(fd, args, kwargs, eng, st)
    if isinstance(env, Raised):
        yield env, st
        return
    saved = st.env
    inner = dict(saved)
    inner.update(env)
    st.env = inner
    saved_stmt = eng.cur_stmt
    for st1, out in eng.ex_block(frontend.docstring_stripped(fd), st):
        eng.cur_stmt = saved_stmt
        # closures may rebind outer names only via nonlocal (not supported): restore caller env
        st1.env = dict(saved)
        if out is None or out[0] == 'return':
            yield (out[1] if out else None), st1
        elif out[0] == 'raise':
            yield Raised(out[1]), st1
        else:
            raise OutOfSubset('break/continue escaping a nested function')


def call_specdef(eng, f, args, kwargs, st):
    """a plain `def` of the sidecar file: a spec function, always inlined"""
    fd = f.node
    env = bind(fd, args, kwargs, eng, st)
    if isinstance(env, Raised):
        raise OutOfSubset('bad call of spec function %s' % f.name)
    saved = st.env
    st.env = env
    saved_stmt = eng.cur_stmt
    for st1, out in eng.ex_block(frontend.docstring_stripped(fd), st):
        eng.cur_stmt = saved_stmt
        st1.env = dict(saved)
        if out is None or out[0] == 'return':
            yield (out[1] if out else None), st1
        else:
            raise OutOfSubset('spec function %s raised' % f.name)


def call_repo(eng, qual, args, kwargs, st):
    if eng.concrete:
        # translation cross-check: callees are the real functions under CPython
        from . import native
        f = native.real_function(qual)
        a = [native.unlift(x, st) for x in args]
        k = {n: native.unlift(x, st) for n, x in kwargs.items()}
        import warnings
        with warnings.catch_warnings():
            warnings.simplefilter('ignore')
            try:
                r = f(*a, **k)
            except Exception as ex:
                yield Raised(type(ex).__name__), st
                return
        yield native.lift(r, st), st
        return
    reg = eng.registry
    c = reg.get(qual) if reg is not None else None
    view = getattr(getattr(eng, 'sidecar', None), 'views', {}).get(qual[len('mir_eval.'):] if qual.startswith('mir_eval.') else qual)
    if view is not None:
        c = view
        eng.trusted_facts.add('sidecar-local opaque view of the contract of %s (assumed): %s' % (view.target, view.note))
    if qual in eng.inline or (c is None and eng.auto_inline):
        yield from inline_repo(eng, qual, args, kwargs, st)
        return
    if c is None:
        raise OutOfSubset('callee %s has no contract (and is not declared inline)' % qual)
    from . import contract
    yield from contract.apply_contract(eng, c, args, kwargs, st)


def inline_repo(eng, qual, args, kwargs, st):
    mod2, fd2 = frontend.function(qual)
    env = bind(fd2, args, kwargs, eng, st)
    if isinstance(env, Raised):
        yield env, st
        return
    child = Engine(mod2, fd2, eng.qual + '>' + qual, eng.registry, eng.lib, eng.concrete, eng.feas_timeout)
    child.obligations = eng.obligations
    child.inline = eng.inline
    child.auto_inline = eng.auto_inline
    child.input_syms = eng.input_syms
    child.default_props = eng.default_props
    child.spec_mode = eng.spec_mode
    child.loop_invariants = {}
    eng.inlined.add(qual)
    child.inlined = eng.inlined
    saved = st.env
    st.env = env
    saved_stmt = eng.cur_stmt
    for st1, out in child.ex_block(frontend.docstring_stripped(fd2), st):
        eng.cur_stmt = saved_stmt
        st1.env = dict(saved)
        if out is None or out[0] == 'return':
            yield (out[1] if out else None), st1
        elif out[0] == 'raise':
            yield Raised(out[1]), st1
        else:
            raise OutOfSubset('break/continue escaping a function')


# ----------------------------------------------------------------------------- builtins

def seq_items(eng, v, st):
    """concrete list of items of a fixed-length sequence, or None"""
    if isinstance(v, tuple):
        return list(v)
    if isinstance(v, list):
        return v
    if isinstance(v, Ref):
        o = st.heap[v.oid]
        if isinstance(o, ListV):
            return list(o.items)
        if isinstance(o, ArrV) and isinstance(o.shape[0], int):
            if o.ndim == 1:
                return [o.at(k) for k in range(o.shape[0])]
            return [new_ref(st, ArrV(o.shape[1:], lambda *i, k=k, o=o: o.at(k, *i), o.dtype)) for k in range(o.shape[0])]
        if isinstance(o, DictV):
            return list(o.items)
    if isinstance(v, RangeV):
        lo, hi = concrete(v.lo), concrete(v.hi)
        if lo is not None and hi is not None:
            return list(range(int(lo), int(hi)))
    return None


class ZipV:
    """zip(a, b, ...) where some sequence has symbolic length: iteration stops at the shortest"""
    def __init__(self, seqs):
        self.seqs = seqs


class EnumV:
    """enumerate(seq) over a sequence of symbolic length"""
    def __init__(self, seq):
        self.seq = seq


class RangeV:
    def __init__(self, lo, hi):
        self.lo, self.hi = lo, hi


def length(eng, v, st):
    if isinstance(v, (tuple, list, str)):
        return len(v)
    if isinstance(v, Ref):
        o = st.heap[v.oid]
        if isinstance(o, ListV):
            return len(o.items)
        if isinstance(o, SymListV):
            return o.n
        if isinstance(o, ArrV):
            return o.shape[0]
        if isinstance(o, DictV):
            return len(o.items)
    if isinstance(v, RangeV):
        return maxv(sub(v.hi, v.lo), 0)
    raise OutOfSubset('len of %r' % (v,))


def builtin(eng, name, args, kwargs, st):
    if name == 'len':
        yield length(eng, args[0], st), st
    elif name == 'float':
        v = args[0]
        if isinstance(v, Opt):
            eng.oblige('safe', 'not-None', st, not_(v.isnone))
            v = v.val
        if isinstance(v, str):
            raise OutOfSubset('float(str)')
        if v is NAN or v is INF:
            yield v, st
        else:
            yield to_real(v), st
    elif name == 'int':
        v = args[0]
        if is_real_like(v):
            v3 = to_z3(v)
            yield (z3.If(v3 >= 0, z3.ToInt(v3), -z3.ToInt(-v3)) if is_z3(v) else int(v)), st    # truncation toward 0
        else:
            yield to_num(v), st
    elif name == 'bool':
        yield eng.truth(args[0], st), st
    elif name == 'abs':
        yield absv(args[0]), st
    elif name in ('min', 'max'):
        items = seq_items(eng, args[0], st) if len(args) == 1 else list(args)
        if items is None:
            from . import npmodel
            yield from npmodel.reduce_minmax(eng, st, args[0], name)
            return
        if len(items) == 0:
            yield Raised('ValueError'), st
            return
        r = items[0]
        for x in items[1:]:
            r = minv(r, x) if name == 'min' else maxv(r, x)
        yield r, st
    elif name == 'range':
        if len(args) == 1:
            yield RangeV(0, args[0]), st
        elif len(args) == 2:
            yield RangeV(args[0], args[1]), st
        else:
            raise OutOfSubset('range with step')
    elif name == 'enumerate':
        items = seq_items(eng, args[0], st)
        if items is None:
            if len(args) != 1 or kwargs:
                raise OutOfSubset('enumerate(seq, start) over symbolic-length sequence')
            yield EnumV(args[0]), st          # only usable as the iterable of a for loop (cut with an invariant)
            return
        yield tuple((i, x) for i, x in enumerate(items)), st
    elif name == 'zip':
        seqs = [seq_items(eng, a, st) for a in args]
        if any(s is None for s in seqs):
            yield ZipV(list(args)), st         # only usable as the iterable of a for loop (cut with an invariant)
            return
        yield tuple(zip(*seqs)), st
    elif name == 'isinstance':
        # A3: parameter kinds are fixed by the contract; an array-kinded value is an ndarray
        v, t = args[0], args[1]
        tn = t.name if isinstance(t, FnV) else str(t)
        if isinstance(v, Ref) and isinstance(st.heap[v.oid], ArrV) and tn.endswith('ndarray'):
            yield True, st
        else:
            raise OutOfSubset('isinstance(%r, %s)' % (v, tn))
    elif name in ('list', 'tuple'):
        if not args:
            yield (new_ref(st, ListV([])) if name == 'list' else ()), st
            return
        items = seq_items(eng, args[0], st)
        if items is None:
            o = st.heap[args[0].oid] if isinstance(args[0], Ref) else None
            if isinstance(o, SymListV) and name == 'list':
                yield new_ref(st, SymListV(o.n, o.at, o.elem, 'fresh')), st
                return
            raise OutOfSubset('%s() of symbolic-length sequence' % name)
        yield (new_ref(st, ListV(items)) if name == 'list' else tuple(items)), st
    elif name == 'sum':
        items = seq_items(eng, args[0], st)
        if items is None:
            from . import npmodel
            a = npmodel.arr_of(eng, st, args[0])
            if a is not None and a.ndim == 1:
                yield npmodel.reduce_sum(eng, st, a, args[0] if isinstance(args[0], Ref) else None), st
                return
            raise OutOfSubset('sum over symbolic-length sequence')
        r = 0
        for x in items:
            r = add(r, x)
        yield r, st
    elif name in ('all', 'any'):
        items = seq_items(eng, args[0], st)
        if items is None:
            raise OutOfSubset('all/any over symbolic-length sequence')
        bs = [eng.truth(x, st) for x in items]
        yield (and_(*bs) if name == 'all' else or_(*bs)), st
    elif name == 'str':
        yield '<str>', st
    elif name == 'print':
        yield None, st
    elif name == 'dict':
        yield new_ref(st, DictV({})), st
    else:
        raise OutOfSubset('builtin %s' % name)


def method(eng, obj, name, args, kwargs, st):
    from . import npmodel
    if isinstance(obj, str):
        if name == 'format':
            yield '<msg>', st
        elif name in ('lower', 'upper', 'strip'):
            yield getattr(obj, name)(*args), st
        elif name == 'split':
            yield new_ref(st, ListV(obj.split(*args))), st
        elif name == 'join':
            items = seq_items(eng, args[0], st)
            yield obj.join(items), st
        elif name in ('startswith', 'endswith', 'count', 'replace', 'find', 'index', 'isdigit'):
            yield getattr(obj, name)(*args), st
        else:
            raise OutOfSubset('str.%s' % name)
        return
    if isinstance(obj, Ref):
        o = st.heap[obj.oid]
        if isinstance(o, ArrV):
            yield from npmodel.arr_method(eng, st, obj, o, name, args, kwargs)
            return
        if isinstance(o, ListV):
            if name == 'append':
                eng.note_mutation(obj, st)
                st.heap[obj.oid] = ListV(o.items + (args[0],), o.origin)
                yield None, st
            elif name == 'insert':
                eng.note_mutation(obj, st)
                i = args[0]
                if not isinstance(i, int):
                    raise OutOfSubset('list.insert at symbolic index')
                items = list(o.items)
                items.insert(i, args[1])
                st.heap[obj.oid] = ListV(items, o.origin)
                yield None, st
            elif name == 'extend':
                eng.note_mutation(obj, st)
                items = seq_items(eng, args[0], st)
                st.heap[obj.oid] = ListV(o.items + tuple(items), o.origin)
                yield None, st
            elif name == 'index':
                raise OutOfSubset('list.index')
            elif name == 'copy':
                yield new_ref(st, ListV(o.items)), st
            else:
                raise OutOfSubset('list.%s' % name)
            return
        if isinstance(o, DictV):
            if name == 'get':
                k = args[0]
                dflt = args[1] if len(args) > 1 else None
                if isinstance(k, (str, int)):
                    yield o.items.get(k, dflt), st
                else:
                    ks = list(o.items)
                    r = dflt
                    for kk in reversed(ks):
                        r = eng.merge_val(eq(k, kk), o.items[kk], r) if r is not None else o.items[kk]
                    if dflt is None:
                        # .get without default on a symbolic key: None if absent
                        present = or_(*[eq(k, kk) for kk in ks])
                        yield Opt(not_(present), r), st
                    else:
                        yield r, st
            elif name == 'keys':
                yield tuple(o.items), st
            elif name == 'values':
                yield tuple(o.items.values()), st
            elif name == 'items':
                yield tuple(o.items.items()), st
            elif name == 'setdefault':
                eng.note_mutation(obj, st)
                k = args[0]
                if k not in o.items:
                    d = dict(o.items)
                    d[k] = args[1]
                    st.heap[obj.oid] = DictV(d, o.origin)
                yield st.heap[obj.oid].items[k], st
            else:
                raise OutOfSubset('dict.%s' % name)
            return
        if isinstance(o, SymListV):
            if name == 'append':
                eng.note_mutation(obj, st)
                x = args[0]
                st.heap[obj.oid] = SymListV(add(o.n, 1), lambda i, o=o, x=x: ite(eq(i, o.n), x, o.at(i)), o.elem, o.origin)
                yield None, st
            elif name == 'insert':
                eng.note_mutation(obj, st)
                if concrete(args[0]) != 0:
                    raise OutOfSubset('list.insert at a position other than 0 on a symbolic list')
                x = args[1]
                st.heap[obj.oid] = SymListV(add(o.n, 1), lambda i, o=o, x=x: ite(eq(i, 0), x, o.at(sub(i, 1))), o.elem, o.origin)
                yield None, st
            elif name == 'copy':
                yield new_ref(st, SymListV(o.n, o.at, o.elem)), st
            else:
                raise OutOfSubset('method %s on symbolic list' % name)
            return
    raise OutOfSubset('method %s on %r' % (name, obj))


# ----------------------------------------------------------------------------- list comprehension (fixed length)
def ev_listcomp(eng, e, st):
    if len(e.generators) != 1:
        raise OutOfSubset('nested comprehension')
    g = e.generators[0]
    for seq, st1 in eng.ev(g.iter, st):
        if isinstance(seq, Raised):
            yield seq, st1
            continue
        items = seq_items(eng, seq, st1)
        if items is None:
            yield from symbolic_map(eng, e, g, seq, st1)
            continue

        def rec(i, acc, st):
            if i == len(items):
                yield new_ref(st, ListV(acc)), st
                return
            outs = list(eng.assign(g.target, items[i], st))
            for st2, out in outs:
                conds_ok = True
                # filters
                def filt(k, st3):
                    if k == len(g.ifs):
                        yield True, st3
                        return
                    for c, st4 in eng.ev(g.ifs[k], st3):
                        for t, st5 in eng.split(st4, eng.truth(c, st4)):
                            if t:
                                yield from filt(k + 1, st5)
                            else:
                                yield False, st5
                for keep, st3 in filt(0, st2):
                    if not keep:
                        yield from rec(i + 1, acc, st3)
                    else:
                        for v, st4 in eng.ev(e.elt, st3):
                            if isinstance(v, Raised):
                                yield v, st4
                            else:
                                yield from rec(i + 1, acc + [v], st4)
        yield from rec(0, [], st1)


def symbolic_map(eng, e, g, seq, st):
    """[elt for x in seq] over a sequence of symbolic length n, without filters, when elt evaluated at a symbolic
    position is one pure value (single path, no exception, heap unchanged): the result is the list k -> elt[x := seq[k]]"""
    from . import npmodel
    if g.ifs:
        raise OutOfSubset('filtered comprehension over symbolic-length sequence')
    a = npmodel.arr_of(eng, st, seq)
    if a is None:
        raise OutOfSubset('comprehension over symbolic-length sequence')
    n = a.shape[0]
    i = z3.Int(fresh_name('ci'))
    st1 = st.fork()
    st1.assume(and_(0 <= i, i < to_z3(n)))
    if a.ndim == 1:
        item = a.at(i)
    else:
        item = new_ref(st1, ArrV(tuple(a.shape[1:]), lambda *r, a=a, i=i: a.at(i, *r), a.dtype))
    heap_before = dict(st1.heap)
    outs = []
    for st2, _ in eng.assign(g.target, item, st1):
        for v, st3 in eng.ev(e.elt, st2):
            outs.append((v, st3))
    if len(outs) != 1 or isinstance(outs[0][0], Raised):
        raise OutOfSubset('comprehension over symbolic-length sequence whose element is not a single pure value')
    v = outs[0][0]
    if any(outs[0][1].heap.get(oid) is not obj for oid, obj in heap_before.items()):
        raise OutOfSubset('comprehension over symbolic-length sequence whose element expression writes to the heap')

    def plain(x):
        return is_z3(x) or isinstance(x, (int, float, bool)) or (isinstance(x, tuple) and all(plain(y) for y in x))
    if not plain(v):
        raise OutOfSubset('comprehension over symbolic-length sequence with non-scalar elements')

    def inst(x, k):
        if isinstance(x, tuple):
            return tuple(inst(y, k) for y in x)
        return z3.substitute(x, (i, to_z3(k))) if is_z3(x) else x
    if isinstance(v, tuple):
        elem = 'tuple'
    else:
        elem = 'bool' if is_bool_like(v) else 'int' if is_int_like(v) else 'real'
    yield new_ref(st, SymListV(n, lambda k, v=v: inst(v, k), elem)), st


# ----------------------------------------------------------------------------- spec vocabulary
def _bound_var(prefix='i'):
    return z3.Int(fresh_name(prefix))


def spec_forall(eng, args, kwargs, st, exists=False):
    """forall(lo, hi, lambda i: body)  /  exists(lo, hi, lambda i: body)"""
    lo, hi, lam = args
    loc, hic = concrete(lo), concrete(hi)
    if loc is not None and hic is not None and hic - loc <= 256:
        parts = []
        for k in range(int(loc), int(hic)):
            for v, _ in call_lambda(eng, lam, [k], st):
                parts.append(to_bool(v))
        yield (or_(*parts) if exists else and_(*parts)), st
        return
    i = _bound_var(lam.node.args.args[0].arg)
    body = None
    for v, _ in call_lambda(eng, lam, [i], st):
        body = to_bool(v)
    rng = and_(le(lo, i), lt(i, hi))
    pats = kwargs.get('patterns')
    if exists:
        yield z3.Exists([i], and_(rng, body)), st
    else:
        yield z3.ForAll([i], implies(rng, body)), st


def spec_forall2(eng, args, kwargs, st):
    """forall2(lo, hi, lambda i, j: body)  -- both range over [lo, hi)"""
    lo, hi, lam = args
    loc, hic = concrete(lo), concrete(hi)
    if loc is not None and hic is not None and hic - loc <= 48:
        parts = []
        for a in range(int(loc), int(hic)):
            for b in range(int(loc), int(hic)):
                for v, _ in call_lambda(eng, lam, [a, b], st):
                    parts.append(to_bool(v))
        yield and_(*parts), st
        return
    i, j = _bound_var('i'), _bound_var('j')
    body = None
    for v, _ in call_lambda(eng, lam, [i, j], st):
        body = to_bool(v)
    rng = and_(le(lo, i), lt(i, hi), le(lo, j), lt(j, hi))
    yield z3.ForAll([i, j], implies(rng, body)), st


def spec_forall2_rect(eng, args, kwargs, st):
    """forall2_rect(n, m, lambda i, j: body): i in [0, n), j in [0, m)"""
    n, m, lam = args
    nc, mc = concrete(n), concrete(m)
    if (nc is not None and nc <= 0) or (mc is not None and mc <= 0):
        yield True, st          # an empty rectangle
        return
    if nc is not None and mc is not None and nc * mc <= 400:
        parts = []
        for a in range(int(nc)):
            for b in range(int(mc)):
                for v, _ in call_lambda(eng, lam, [a, b], st):
                    parts.append(to_bool(v))
        yield and_(*parts), st
        return
    i, j = _bound_var('i'), _bound_var('j')
    body = None
    for v, _ in call_lambda(eng, lam, [i, j], st):
        body = to_bool(v)
    yield z3.ForAll([i, j], implies(and_(le(0, i), lt(i, n), le(0, j), lt(j, m)), body)), st


def spec_forall_real(eng, args, kwargs, st):
    lam = args[0]
    x = z3.Real(fresh_name(lam.node.args.args[0].arg))
    body = None
    for v, _ in call_lambda(eng, lam, [x], st):
        body = to_bool(v)
    yield z3.ForAll([x], body), st


def spec_implies(eng, args, kwargs, st):
    yield implies(to_bool(args[0]), to_bool(args[1])), st


def spec_iff(eng, args, kwargs, st):
    yield eq(to_bool(args[0]), to_bool(args[1])), st


def spec_ite(eng, args, kwargs, st):
    c, a, b = to_bool(args[0]), args[1], args[2]
    if isinstance(a, Ref) and isinstance(b, Ref):
        ao, bo = st.heap[a.oid], st.heap[b.oid]
        if isinstance(ao, ArrV) and isinstance(bo, ArrV) and ao.ndim == bo.ndim:
            if isinstance(c, bool):
                yield (a if c else b), st
                return
            shape = tuple(ite(c, x, y) for x, y in zip(ao.shape, bo.shape))
            yield new_ref(st, ArrV(shape, lambda *i, ao=ao, bo=bo: ite(c, ao.at(*i), bo.at(*i)), ao.dtype)), st
            return
    yield eng.merge_val(c, a, b), st


class LemmaInstanceDiscarded(Exception):
    pass


def add_clause(eng, st, cl):
    """record a contract clause together with the branch facts of the contract body under which it was stated"""
    skip = getattr(eng, 'defined_facts', set())
    cl['guard'] = [x for x in st.pc[getattr(eng, 'base_pc_len', len(st.pc)):] if not (is_z3(x) and x.get_id() in skip)]
    eng.clauses.append(cl)


def define_fact(eng, st, fact):
    """a defining fact of a fresh spec symbol: assumed on this path and, inside a contract, carried with the clauses
    (it is not a branch condition, so it never becomes part of a clause guard)"""
    if not hasattr(eng, 'defined_facts'):
        eng.defined_facts = set()
    eng.defined_facts.add(fact.get_id())
    st.assume(fact)
    if getattr(eng, 'clauses', None) is not None:
        add_clause(eng, st, {'kind': 'define', 'cond': fact})


def clause(kind):
    def f(eng, args, kwargs, st):
        label = kwargs.get('label')
        props = kwargs.get('props')
        if eng.lemma_mode and eng.concrete:
            for i, a in enumerate(args):
                c = to_bool(a)
                c = concrete(c) if is_z3(c) else c
                if kind == 'requires':
                    if c is not True:
                        raise LemmaInstanceDiscarded()
                else:
                    eng.instance_results.append((label or 'e', c))
            yield None, st
            return
        if eng.lemma_mode:
            for i, a in enumerate(args):
                if kind == 'requires':
                    st.assume(to_bool(a))
                else:
                    lab = label or 'e'
                    eng.oblige('lemma', lab if len(args) == 1 else '%s.%d' % (lab, i), st, to_bool(a),
                               props.split() if isinstance(props, str) else None)
            yield None, st
            return
        if eng.clauses is None:
            raise OutOfSubset('%s outside a contract' % kind)
        for i, a in enumerate(args):
            add_clause(eng, st, {'kind': kind, 'cond': to_bool(a), 'label': label if len(args) == 1 or label is None else '%s.%d' % (label, i),
                                'props': props.split() if isinstance(props, str) else None,
                                'line': getattr(eng.cur_stmt, 'lineno', None), 'pc': list(st.pc)})
        yield None, st
    return f


def spec_raises(eng, args, kwargs, st):
    cls = args[0].name if isinstance(args[0], FnV) else args[0]
    when = kwargs.get('when', True)
    add_clause(eng, st, {'kind': 'raises', 'cls': cls, 'cond': to_bool(when), 'label': kwargs.get('label') or cls,
                        'props': (kwargs.get('props') or '').split() or None, 'line': getattr(eng.cur_stmt, 'lineno', None)})
    yield None, st


def spec_declare(kind):
    def f(eng, args, kwargs, st):
        kwargs = dict(kwargs)
        # literal keyword values (e.g. havoc={'acc': 'obj'}) are read from the source of the clause
        call = getattr(getattr(eng, 'cur_stmt', None), 'value', None)
        if isinstance(call, ast.Call):
            for kw in call.keywords:
                if kw.arg in ('havoc',):
                    try:
                        kwargs[kw.arg] = ast.literal_eval(kw.value)
                    except ValueError:
                        pass
        eng.clauses.append({'kind': kind, 'args': args, 'kwargs': kwargs})
        yield None, st
    return f


def spec_old(eng, args, kwargs, st):
    yield args[0], st


def spec_isnan(eng, args, kwargs, st):
    yield (args[0] is NAN), st


def spec_absr(eng, args, kwargs, st):
    yield absv(args[0]), st


def spec_is_none(eng, args, kwargs, st):
    v = args[0]
    yield (v.isnone if isinstance(v, Opt) else v is None), st


def spec_val(eng, args, kwargs, st):
    v = args[0]
    yield (v.val if isinstance(v, Opt) else v), st


def spec_length(eng, args, kwargs, st):
    if args[0] is None:
        yield 0, st
    else:
        yield length(eng, args[0], st), st


def spec_array_of(eng, args, kwargs, st):
    """array_of(n, lambda i: e)  /  array_of(n, m, lambda i, j: e): a definitional array (used by `returns`)"""
    *dims, lam = args
    dt = kwargs.get('dtype', 'real')

    def at(*i, lam=lam):
        for v, _ in call_lambda(eng, lam, list(i), st):
            return v
    return_ref = new_ref(st, ArrV(tuple(dims), at, dt))
    yield return_ref, st


_UF = {}
NATIVE_UF = {}
NATIVE_MODE = [False]      # executable meanings of spec symbols are used only while replaying natively


def _chord_spec():
    import importlib.util
    import os
    p = os.path.join(os.path.dirname(os.path.dirname(os.path.abspath(__file__))), 'contracts', '_chord_spec.py')
    sp = importlib.util.spec_from_file_location('_chord_spec', p)
    m = importlib.util.module_from_spec(sp)
    sp.loader.exec_module(m)
    return m


def _native_chord():
    m = _chord_spec()

    def enc(l):
        try:
            return m.encode(l)
        except Exception:
            return None
    NATIVE_UF['enc_root'] = lambda l: (enc(l) or (0, [0] * 12, 0))[0]
    NATIVE_UF['enc_bit'] = lambda l, k: (enc(l) or (0, [0] * 12, 0))[1][int(k)]
    NATIVE_UF['enc_bass'] = lambda l: (enc(l) or (0, [0] * 12, 0))[2]
    NATIVE_UF['valid_label'] = lambda l: m.accepts(l)
    NATIVE_UF['encodable'] = lambda l: enc(l) is not None


_native_chord()


def _native_key():
    import importlib.util
    import os
    p = os.path.join(os.path.dirname(os.path.dirname(os.path.abspath(__file__))), 'contracts', '_key_spec.py')
    sp = importlib.util.spec_from_file_location('_key_spec', p)
    m = importlib.util.module_from_spec(sp)
    sp.loader.exec_module(m)

    def parsed(k):
        try:
            return m.parse(k)
        except ValueError:
            return None
    NATIVE_UF['valid_key'] = lambda k: parsed(k) is not None
    NATIVE_UF['key_is_x'] = lambda k: parsed(k) == ('x',)
    NATIVE_UF['key_tonic'] = lambda k: (parsed(k) or (0, 'major'))[0] if parsed(k) != ('x',) else 0
    NATIVE_UF['key_mode'] = lambda k: (parsed(k) or (0, 'major'))[1] if parsed(k) != ('x',) else 'major'


_native_key()

import math as _math
def _opaque_bounds(I):
    return sorted(set(round(float(x), 5) for row in I for x in row))


# opaque interval arrays (contracts/segment_detection.py) are carried as tuples of (start, end) pairs in native replay
NATIVE_UF['valid_iv'] = lambda I: all(len(r) == 2 and r[0] >= 0 and r[1] >= 0 and r[0] < r[1] for r in I)
NATIVE_UF['n_bounds'] = lambda I: len(_opaque_bounds(I))
NATIVE_UF['bound'] = lambda I, k: _opaque_bounds(I)[int(k)] if 0 <= int(k) < len(_opaque_bounds(I)) else 0.0
def _pattern_estab(p, q, metric='cardinality_score'):
    best = 0.0
    for op in p:
        for oq in q:
            inter = len(set(tuple(e) for e in op) & set(tuple(e) for e in oq))
            best = max(best, inter / float(max(len(op), len(oq))) if max(len(op), len(oq)) else 0.0)
    return best


# opaque patterns (contracts/pattern.py): tuples of occurrences, each a tuple of (onset, midi) pairs
NATIVE_UF['valid_pattern'] = lambda p: len(p) > 0 and all(all(len(e) == 2 for e in occ) for occ in p)
NATIVE_UF['estab'] = _pattern_estab
NATIVE_UF['rnd4'] = lambda x: round(float(x), 4)
NATIVE_UF['log2'] = lambda x: _math.log2(float(x)) if float(x) > 0 else 0.0


def uninterpreted(name, arg_kinds, res_kind):
    key = (name, tuple(arg_kinds), res_kind)
    if key not in _UF:
        def sort_of(k):
            if k.startswith('Enum:'):
                _, nm, members = k.split(':')
                return enum_sort(nm, members.split(','))[0]
            return {'Int': z3.IntSort(), 'Real': z3.RealSort(), 'Bool': z3.BoolSort(), 'ObjT': kinds.OBJ_SORT}[k]
        _UF[key] = z3.Function(name, *([sort_of(a) for a in arg_kinds] + [sort_of(res_kind)]))
    return _UF[key]


def spec_returns(eng, args, kwargs, st):
    eng.clauses.append({'kind': 'returns', 'value': args[0]})
    yield None, st


# ----------------------------------------------------------------------------- maximum matchings (spec level)
_MM = None


def _mm_fn():
    global _MM
    if _MM is None:
        _MM = z3.Function('mm', z3.IntSort(), z3.IntSort(), z3.ArraySort(z3.IntSort(), z3.IntSort(), z3.BoolSort()), z3.IntSort())
    return _MM


def _rel_term(eng, lam, st):
    i, j = z3.Int(fresh_name('i')), z3.Int(fresh_name('j'))
    body = None
    saved = eng.spec_mode
    eng.spec_mode = True           # a relation is a formula: no obligations, no path splitting while it is built
    try:
        for v, _ in call_lambda(eng, lam, [i, j], st):
            body = to_z3(to_bool(v))
    finally:
        eng.spec_mode = saved
    return z3.Lambda([i, j], body), (lambda a, b: z3.substitute(body, (i, to_z3(a)), (j, to_z3(b))))


def max_matching(n, m, rel):
    """size of a maximum one-to-one sub-relation of rel on range(n) x range(m) (augmenting paths)"""
    match = [-1] * m

    def try_(u, seen):
        for v in range(m):
            if rel(u, v) and not seen[v]:
                seen[v] = True
                if match[v] < 0 or try_(match[v], seen):
                    match[v] = u
                    return True
        return False
    return sum(1 for u in range(n) if try_(u, [False] * m))


def spec_mm(eng, args, kwargs, st):
    """mm(n, m, lambda i, j: R(i, j)): size of a maximum matching of relation R on range(n) x range(m)"""
    n, m, lam = args
    if not is_z3(n) and not is_z3(m):
        def rel(a, b):
            for v, _ in call_lambda(eng, lam, [a, b], st):
                return concrete(to_bool(v)) if is_z3(to_bool(v)) else to_bool(v)
        try:
            yield max_matching(int(n), int(m), rel), st
            return
        except Exception:
            pass
    R, _ = _rel_term(eng, lam, st)
    yield _mm_fn()(to_z3(n), to_z3(m), R), st


def _mm_axiom(name):
    def f(eng, args, kwargs, st):
        if eng.concrete:
            yield None, st
            return
        eng.trusted_facts.add('maximum-matching fact mm_%s (mathematical property of maximum bipartite matchings, trusted, not machine-checked)' % name)
        MM = _mm_fn()
        if name == 'bounds':
            n, m, lam = args
            R, _ = _rel_term(eng, lam, st)
            t = MM(to_z3(n), to_z3(m), R)
            st.assume(and_(t >= 0, le(t, n), le(t, m)))
        elif name == 'monotone':        # R1 subset of R2  ==>  mm(R1) <= mm(R2)
            n, m, lam1, lam2 = args
            R1, r1 = _rel_term(eng, lam1, st)
            R2, r2 = _rel_term(eng, lam2, st)
            i, j = z3.Int(fresh_name('i')), z3.Int(fresh_name('j'))
            eng.oblige('lemma', 'mm-monotone-premise', st, z3.ForAll([i, j], z3.Implies(
                z3.And(0 <= i, i < to_z3(n), 0 <= j, j < to_z3(m), r1(i, j)), r2(i, j))))
            st.assume(MM(to_z3(n), to_z3(m), R1) <= MM(to_z3(n), to_z3(m), R2))
        elif name == 'transpose':       # mm(n, m, R) == mm(m, n, R transposed)
            n, m, lam1, lam2 = args
            R1, r1 = _rel_term(eng, lam1, st)
            R2, r2 = _rel_term(eng, lam2, st)
            i, j = z3.Int(fresh_name('i')), z3.Int(fresh_name('j'))
            eng.oblige('lemma', 'mm-transpose-premise', st, z3.ForAll([i, j], z3.Implies(
                z3.And(0 <= i, i < to_z3(n), 0 <= j, j < to_z3(m)), r1(i, j) == r2(j, i))))
            st.assume(MM(to_z3(n), to_z3(m), R1) == MM(to_z3(m), to_z3(n), R2))
        elif name == 'diagonal':        # n == m and R(i, i) for all i  ==>  mm == n
            n, m, lam = args
            R, r = _rel_term(eng, lam, st)
            i = z3.Int(fresh_name('i'))
            eng.oblige('lemma', 'mm-diagonal-premise', st, z3.And(to_z3(eq(n, m)), z3.ForAll([i], z3.Implies(z3.And(0 <= i, i < to_z3(n)), r(i, i)))))
            st.assume(MM(to_z3(n), to_z3(m), R) == to_z3(n))
        yield None, st
    return f


def spec_loop_index(eng, args, kwargs, st):
    yield st.env['__idx%d' % int(args[0])], st


def spec_sum(eng, args, kwargs, st):
    from . import sums, npmodel
    a = npmodel.arr_of(eng, st, args[0])
    if a is not None and a.ndim == 1 and isinstance(a.shape[0], int):
        yield npmodel.reduce_sum(eng, st, a), st
    else:
        yield sums.sum_of(eng, st, a), st


def spec_median(eng, args, kwargs, st):
    """median_of(a): the same function symbol the model of np.median uses"""
    from . import sums, npmodel
    a = npmodel.arr_of(eng, st, args[0])
    if a is not None and a.ndim == 1 and isinstance(a.shape[0], int) and a.shape[0] > 0 and all(concrete(a.at(k)) is not None for k in range(a.shape[0])):
        import statistics
        yield statistics.median([concrete(a.at(k)) for k in range(a.shape[0])]), st
        return
    n = to_z3(a.shape[0])
    med = npmodel.MED()(sums.lam_of(a), n)
    # the median of a non-empty sequence lies between two of its cells (the fact the model of np.median also states)
    lo, hi = z3.Int(fresh_name('medlo')), z3.Int(fresh_name('medhi'))
    fact = z3.Implies(n > 0, z3.And(0 <= lo, lo < n, 0 <= hi, hi < n, to_z3(to_real(to_num(a.at(lo)))) <= med, med <= to_z3(to_real(to_num(a.at(hi))))))
    define_fact(eng, st, fact)
    eng.trusted_facts.add('np.median(a) is a function of the cell sequence and lies between two cells of a (library fact, not machine-checked)')
    yield med, st


def spec_rows_extremum(op):
    def f(eng, args, kwargs, st):
        """row_min(n, m, lambda i, j: cell) / row_max: the array  i -> min (max) over 0 <= j < m of cell(i, j), for m > 0"""
        from . import npmodel
        n, m, lam = args

        def cell(i, j):
            saved_mode = eng.spec_mode
            eng.spec_mode = True        # a cell of a spec term is a formula wherever it is evaluated (also from later cross-instances)
            try:
                for v, _ in call_lambda(eng, lam, [i, j], st):
                    return v
            finally:
                eng.spec_mode = saved_mode
        if not is_z3(n) and not is_z3(m):
            # concrete evaluation (native replay)
            rows = []
            for i in range(int(n)):
                vals = [concrete(cell(i, j)) for j in range(int(m))]
                rows.append((min(vals) if op == 'min' else max(vals)) if vals else 0.0)
            yield new_ref(st, ArrV((int(n),), lambda i, rows=rows: rows[int(i)], 'real')), st
            return
        saved = eng.spec_mode
        eng.spec_mode = True
        try:
            at = npmodel.extremum_rows(eng, st, cell, n, m, op)
        finally:
            eng.spec_mode = saved
        yield new_ref(st, ArrV((n,), at, 'real')), st
    return f


def _sum_fact(name):
    def f(eng, args, kwargs, st):
        from . import sums, npmodel
        arrs = [npmodel.arr_of(eng, st, a) for a in args if isinstance(a, Ref)]
        if arrs and all(isinstance(a.shape[0], int) for a in arrs if a is not None):
            yield None, st          # concrete evaluation (native replay): sums are computed, no lemma is needed
            return
        saved = eng.spec_mode
        eng.spec_mode = True
        try:
            prem, concl = sums.fact(name, eng, st, args)
        finally:
            eng.spec_mode = saved
        label = kwargs.get('label', name)
        if eng.lemma_mode or eng.ghost_mode:
            eng.spec_mode = False
            eng.oblige('lemma' if eng.lemma_mode else 'ghost', label + '-premise', st, prem)
            st.assume(concl)
        elif eng.clauses is not None:
            add_clause(eng, st, {'kind': 'hint', 'premise': prem, 'conclusion': concl, 'label': label, 'line': getattr(eng.cur_stmt, 'lineno', None)})
        else:
            raise OutOfSubset('%s outside a contract / lemma' % name)
        yield None, st
    return f


def spec_floor(eng, args, kwargs, st):
    yield to_real(floor_(args[0])), st


def spec_axiom(eng, args, kwargs, st):
    """axiom(cond, note='...'): a stated property of an uninterpreted symbol of the sidecar (e.g. the range of a similarity score that an
    assumed contract defines).  Assumed wherever the contract is used and listed as a trusted fact in the evidence."""
    if eng.concrete:
        yield None, st
        return
    cond = to_z3(to_bool(args[0]))
    eng.trusted_facts.add('axiom of %s: %s' % (eng.qual, kwargs.get('note', 'stated property of an uninterpreted symbol')))
    define_fact(eng, st, cond)
    yield None, st


def spec_assert_step(eng, args, kwargs, st):
    """assert_step(cond): an intermediate fact, proved as its own obligation and then available to the clauses that follow"""
    if eng.concrete:
        yield None, st
        return
    cond = to_z3(to_bool(args[0]))
    label = kwargs.get('label', 'step')
    if eng.lemma_mode or getattr(eng, 'ghost_mode', False):
        saved = eng.spec_mode
        eng.spec_mode = False
        try:
            eng.oblige('lemma' if eng.lemma_mode else 'ghost', label, st, cond)      # proved here, then known on this path
        finally:
            eng.spec_mode = saved
    elif eng.clauses is not None:
        add_clause(eng, st, {'kind': 'hint', 'premise': cond, 'conclusion': cond, 'label': label, 'line': getattr(eng.cur_stmt, 'lineno', None)})
    yield None, st


def spec_columns_of(eng, args, kwargs, st):
    """columns_of(n_rows, converters, lambda col, row: number, lambda col, row: text): what io.load_delimited returns"""
    n_rows, convs, fnum, ftxt = args
    items = seq_items(eng, convs, st)
    cols = []
    for k, cv in enumerate(items):
        name = cv.name if isinstance(cv, FnV) else str(cv)
        if name == 'float':
            def at(r, k=k):
                for v, _ in call_lambda(eng, fnum, [k, r], st):
                    return v
            cols.append(new_ref(st, SymListV(n_rows, at, 'real')))
        else:
            def at(r, k=k):
                for v, _ in call_lambda(eng, ftxt, [k, r], st):
                    return v
            cols.append(new_ref(st, SymListV(n_rows, at, 'obj')))
    yield (cols[0] if len(cols) == 1 else tuple(cols)), st


def spec_fmt(eng, args, kwargs, st):
    f = uninterpreted('format[%s]' % args[0], ['ObjT'] * (len(args) - 1), 'ObjT')
    yield f(*args[1:]), st


SPEC = {
    'columns_of': spec_columns_of,
    'fmt': spec_fmt,
    'assert_step': spec_assert_step,
    'floor': spec_floor,
    'sum_of': spec_sum, 'median_of': spec_median, 'axiom': spec_axiom, 'row_min': spec_rows_extremum('min'), 'row_max': spec_rows_extremum('max'),
    'sum_nonneg': _sum_fact('sum_nonneg'), 'sum_le': _sum_fact('sum_le'), 'sum_eq': _sum_fact('sum_eq'), 'sum_add': _sum_fact('sum_add'),
    'sum_scale': _sum_fact('sum_scale'), 'sum_zero': _sum_fact('sum_zero'), 'sum_ge_term': _sum_fact('sum_ge_term'), 'sum_telescope': _sum_fact('sum_telescope'), 'sum_const': _sum_fact('sum_const'),
    'mm': spec_mm,
    'mm_bounds': _mm_axiom('bounds'),
    'mm_monotone': _mm_axiom('monotone'),
    'mm_transpose': _mm_axiom('transpose'),
    'mm_diagonal': _mm_axiom('diagonal'),
    'loop_index': spec_loop_index,
    'array_of': spec_array_of,
    'returns': spec_returns,
    'forall': spec_forall,
    'exists': lambda eng, a, k, st: spec_forall(eng, a, k, st, exists=True),
    'forall2': spec_forall2,
    'forall2_rect': spec_forall2_rect,
    'forall_real': spec_forall_real,
    'implies': spec_implies,
    'iff': spec_iff,
    'ite': spec_ite,
    'requires': clause('requires'),
    'ensures': clause('ensures'),
    'raises': spec_raises,
    'inline': spec_declare('inline'),
    'invariant': spec_declare('invariant'),
    'ghost': spec_declare('ghost'),
    'decreases': spec_declare('decreases'),
    'assigns': spec_declare('assigns'),
    'old': spec_old,
    'isnan': spec_isnan,
    'absr': spec_absr,
    'is_none': spec_is_none,
    'val': spec_val,
    'length': spec_length,
}

def lazy_ite(eng, e, st):
    """ite(c, a, b): when the condition is a concrete boolean only the selected branch is evaluated (so that
    `ite(i == n, d, a[i])` is evaluable on concrete arrays); otherwise all three arguments are evaluated as usual"""
    if len(e.args) != 3 or e.keywords:
        raise OutOfSubset('ite takes three positional arguments')
    for c, st1 in eng.ev(e.args[0], st):
        if isinstance(c, Raised):
            yield c, st1
            continue
        cb = to_bool(c)
        if isinstance(cb, bool):
            yield from eng.ev(e.args[1] if cb else e.args[2], st1)
            continue
        for a, st2 in eng.ev(e.args[1], st1):
            if isinstance(a, Raised):
                yield a, st2
                continue
            for b, st3 in eng.ev(e.args[2], st2):
                if isinstance(b, Raised):
                    yield b, st3
                    continue
                yield from spec_ite(eng, [c, a, b], {}, st3)


LAZY_SPEC = {'ite': lazy_ite}
