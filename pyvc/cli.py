"""./check driver: decides one property, writes evidence/<id>.json, prints VIOLATION / KNOWN-FINDING lines.

Exit codes: 0 property held on everything decided; 1 violation; 2 undecided (unknown, timeout,
out-of-subset, contract no longer binds); 3 checker crash / broken machinery.
"""
import argparse
import hashlib
import importlib
import json
import os
import re
import sys
import time
import traceback

HERE = os.path.dirname(os.path.dirname(os.path.abspath(__file__)))
EVID = os.environ.get('PYVC_EVIDENCE_DIR') or os.path.join(HERE, 'evidence')

from . import frontend, contract, run, native      # noqa

ASSUMPTIONS = {
    'A1': 'A1 floats (float, np.float64) are modelled as mathematical reals; nan/inf only arise from the few statements that mention them',
    'A2': 'A2 Python/NumPy integers are mathematical integers (no int64 wrap-around)',
    'A3': 'A3 parameter kinds are fixed by the contract signature; calls with other dynamic types are not modelled',
    'A4': 'A4 NumPy alias model: basic slicing/.T/reshape/asarray of an ndarray are views, everything else is fresh',
    'A5': 'A5 static name resolution (no monkey-patching); module-level tables are read from the real AST each run',
    'A6': 'A6 warnings.warn does not raise',
    'A7': 'A7 dict iteration is insertion-ordered; set iteration order is arbitrary',
    'A8': 'A8 implicit exceptions modelled: ZeroDivisionError, IndexError, KeyError, ValueError (unpack, empty reduction, broadcast), TypeError (None arithmetic, duplicate keyword)',
    'A9': 'A9 a possibly-zero divisor yields a `safe:div` obligation whether the division is Python- or NumPy-typed',
}

DROPPED = 'extraction drops: docstrings, warnings.warn(...) calls, message arguments of raise X(...), type annotations'


def load_known():
    p = os.path.join(HERE, 'known_findings.json')
    if not os.path.exists(p):
        return {'findings': [], 'fixed': []}
    return json.load(open(p))


def sanitize(s):
    return re.sub(r'[^A-Za-z0-9_.#@-]+', '_', s)[:150]


def write_replay(prop, res, ob, extra):
    d = os.path.join(EVID, 'replays')
    os.makedirs(d, exist_ok=True)
    path = os.path.join(d, '%s__%s.json' % (prop, sanitize(ob['id'])))
    rec = dict(property=prop, obligation=ob['id'], kind=ob['kind'], target_kind=res['kind'], target=res['name'],
               inputs=ob.get('model'), note=ob.get('note'), goal=ob.get('goal'), solver=ob.get('backend'),
               solver_verdict=ob.get('verdict'), repo=frontend.REPO, source_sha256=frontend.source_hashes(), **extra)
    with open(path, 'w') as f:
        json.dump(rec, f, indent=1, default=str)
    return os.path.relpath(path, HERE) if path.startswith(HERE) else path


def replay_file(path):
    rec = json.load(open(path))
    print('replay of %s (%s)' % (rec['obligation'], rec['property']))
    if rec.get('engine'):
        mod = importlib.import_module('pyvc.engines.' + rec['engine'])
        ok, detail = mod.replay(rec)
        print(detail)
        return 1 if ok else 0
    if rec['target_kind'] == 'lemma' and rec.get('inputs'):
        r = native.replay_lemma(rec['target'], rec['inputs'])
        print(json.dumps(r, indent=1, default=str))
        return 1 if r['confirmed'] else 0
    if rec['target_kind'] == 'fn' and rec.get('inputs'):
        r = native.replay_function(rec['target'], rec['inputs'])
        print(json.dumps(r, indent=1, default=str))
        return 1 if r['confirmed'] else 0
    print('no native inputs recorded for this obligation (no-failing-input-found); solver output:')
    print(rec.get('goal'))
    return 0


def main(argv=None):
    ap = argparse.ArgumentParser()
    ap.add_argument('prop', nargs='?')
    ap.add_argument('--tier', default=os.environ.get('VERIF_TIER', 'quick'))
    ap.add_argument('--replay')
    ap.add_argument('--list', action='store_true')
    a = ap.parse_args(argv)
    if a.replay:
        return replay_file(a.replay)
    from . import props
    if a.list:
        for p in sorted(props.PLAN):
            print(p, props.PLAN[p]['level'])
        return 0
    prop = a.prop
    tier = a.tier if a.tier in ('quick', 'thorough') else 'quick'
    seed = int(os.environ.get('VERIF_SEED', '0') or 0)
    t0 = time.time()
    try:
        return check(prop, tier, seed, t0)
    except SystemExit:
        raise
    except Exception:
        traceback.print_exc()
        print('CHECKER-ERROR property=%s' % prop)
        return 3


def check(prop, tier, seed, t0):
    from . import props
    plan = props.PLAN.get(prop)
    if plan is None:
        print('property %s is not claimed (see MANIFEST.json not_applicable)' % prop)
        return 3
    timeout = 10.0 if tier == 'quick' else 60.0
    known = load_known()
    reg = contract.Registry()
    cs, ls = reg.for_property(prop)
    tasks = []
    # the callees whose contracts the lemmas of this property use are verified in this check as well
    import ast as _ast
    for l in ls:
        by_name = {c.fd.name: c for c in l.sidecar.contracts}
        for n in _ast.walk(l.fd):
            if isinstance(n, _ast.Call) and isinstance(n.func, _ast.Name) and n.func.id in by_name and by_name[n.func.id] not in cs:
                cs.append(by_name[n.func.id])
    assumed_here = [c.target for c in cs if c.assumed]
    for c in cs:
        if c.assumed:
            continue        # assumed contracts are used at call sites only; their bodies get bounded conformance checks
        fnd = [f for f in known['findings'] if f.get('target') == c.target]
        if c.shards > 1:
            # a function with many obligations: every shard regenerates the VCs and discharges its share
            for k in range(c.shards):
                tasks.append(dict(kind='fn', name=c.target, timeout=timeout, findings=fnd, shard=(k, c.shards)))
        else:
            tasks.append(dict(kind='fn', name=c.target, timeout=timeout, findings=fnd))
    for l in ls:
        tasks.append(dict(kind='lemma', name=l.name, timeout=timeout))
    results = run.run_tasks(tasks)
    # modular proofs rest on the contracts of the callees they use: every such callee is verified in this check too (to a fixpoint),
    # so that a change inside a callee that breaks this property is reported by this property's check
    verified = set(c.target for c in cs if not c.assumed)
    dependency_fns = set()
    for _round in range(4):
        used_now = set()
        for res in results:
            if res.get('status') == 'ok':
                used_now |= set(res.get('used_contracts', []))
        todo = []
        for t in sorted(used_now - verified):
            c = reg.get(t)
            if c is None or c.assumed:
                continue
            todo.append(c)
        if not todo:
            break
        more = []
        for c in todo:
            verified.add(c.target)
            dependency_fns.add(c.target)
            fnd = [f for f in known['findings'] if f.get('target') == c.target]
            if c.shards > 1:
                for k in range(c.shards):
                    more.append(dict(kind='fn', name=c.target, timeout=timeout, findings=fnd, shard=(k, c.shards)))
            else:
                more.append(dict(kind='fn', name=c.target, timeout=timeout, findings=fnd))
        results.extend(run.run_tasks(more))
    # plug-in engines (E3 frames, E4 bundles, regex, bounded stand-ins ...)
    bounded = []
    for ename in plan.get('engines', []):
        mod = importlib.import_module('pyvc.engines.' + ename)
        r = mod.run(prop, tier, seed, known)
        results.extend(r.get('results', []))
        bounded.extend(r.get('bounded', []))

    violations, undecided, kf_lines, crashed, unconfirmed = [], [], [], [], []
    facts = set()
    fuzzed = {}
    n_ob = n_ok = 0
    by_backend = {}
    solver_time = 0.0
    slowest = []
    samples = []
    functions, lemmas, inlined, used, lib_used = [], [], set(), set(), set()
    failing_ids = set()
    # a lemma of this property is proved from callee contracts: every postcondition of those callees carries the property
    lemma_deps = set()
    for res in results:
        if res.get('kind') == 'lemma' and res['status'] == 'ok':
            lemma_deps |= set(res.get('used_contracts', []))
    for res in results:
        if res['status'] == 'error':
            crashed.append(res)
            continue
        if res['status'] != 'ok':
            # the function left the verified subset (typically: changed code): before giving up, look for a real failing input of its contract
            hit = None
            if res['kind'] == 'fn':
                try:
                    hit, _tried = native.fuzz_contract(res['name'], seed, 300, reg)
                except Exception:
                    hit = None
            if hit is not None:
                o = dict(id='%s#contract:native-search' % res['name'], kind='contract', label='native-search', props=[prop], line=None, expect='unsat',
                         verdict='undischarged', backend='native', time=0.0, model=hit['inputs'], goal='the contract of %s holds' % res['name'],
                         note='%s (%s); failing input found by native contract search: %s' % (res['status'], res['detail'], hit['native']['failed'][:2]),
                         native=hit['native'], finding=None)
                violations.append((dict(res, obligations=[o]), o))
                continue
            undecided.append('%s %s: %s (%s)' % (res['kind'], res['name'], res['status'], res['detail']))
            continue
        if res['name'] not in (functions if res['kind'] != 'lemma' else lemmas):
            (functions if res['kind'] != 'lemma' else lemmas).append(res['name'])
        inlined |= set(res.get('inlined', []))
        used |= set(res.get('used_contracts', []))
        lib_used |= set(res.get('lib_used', []))
        facts |= set(res.get('trusted_facts', []))
        mine = [o for o in res['obligations'] if prop in o['props'] or (res['kind'] == 'fn' and res['name'] in lemma_deps and o['kind'] in ('post', 'exc'))
                or (res['kind'] == 'fn' and res['name'] in dependency_fns and o['kind'] not in ('cover', 'canary'))]
        if not mine and res['kind'] != 'engine' and not res.get('shard'):
            undecided.append('%s %s generated no obligation for %s' % (res['kind'], res['name'], prop))
        for o in mine:
            n_ob += 1
            solver_time += o['time']
            slowest.append((round(o['time'], 2), o['id'], o['backend']))
            by_backend[o['backend']] = by_backend.get(o['backend'], 0) + 1
            v = o['verdict']
            if v == 'unknown-reachability':
                # consistency of the hypotheses could not be confirmed by the solver (quantifiers): recorded, not fatal
                n_ok += 1
                unconfirmed.append(o['id'])
            elif v in ('discharged', 'reachable'):
                n_ok += 1
                if len(samples) < 12 and o['kind'] not in ('cover', 'canary', 'safe') and o['id'] not in [s['id'] for s in samples]:
                    samples.append(dict(id=o['id'], kind=o['kind'], verdict=v, backend=o['backend'], time_s=o['time'], goal=o['goal'][:200]))
            elif v == 'known-finding':
                n_ok += 1
                f = [f for f in known['findings'] if f['id'] == o['finding']][0]
                line = 'KNOWN-FINDING: property=%s %s [%s, obligation %s discharged outside `%s`]' % (
                    prop, f['what'], f['id'], o['id'], f['exclude'])
                if line not in kf_lines:
                    # the recorded witness must still fail on the real code; otherwise the finding is stale
                    r = native.replay_function(res['name'], f['witness']) if res['kind'] == 'fn' else {'confirmed': True}
                    if r['confirmed']:
                        kf_lines.append(line)
                    else:
                        print('note: known finding %s no longer reproduces natively (%s)' % (f['id'], r.get('outcome')))
            elif v == 'refuted':
                if o['id'] in failing_ids:
                    n_ok += 0
                    continue
                failing_ids.add(o['id'])
                violations.append((res, o))
            elif v == 'vacuous':
                crashed.append(dict(name=res['name'], detail='hypotheses of %s are unsatisfiable (vacuous contract)' % o['id']))
            else:
                # undecided by the solvers: look for a real failing input of this function's contract before giving up
                hit = None
                if res['kind'] == 'fn' and res['name'] not in fuzzed:
                    try:
                        wanted_ = [o2.get('label') for o2 in mine if o2['verdict'] not in ('discharged', 'reachable', 'unknown-reachability', 'known-finding') and o2.get('label')]
                        hit, tried = native.fuzz_contract(res['name'], seed, 300, reg, want_labels=wanted_)
                    except Exception:
                        hit, tried = None, 0
                    fuzzed[res['name']] = hit
                elif res['kind'] == 'fn':
                    hit = fuzzed[res['name']]
                if hit is not None:
                    # the input is attributed to the undecided obligations of the clauses it falsifies (to the first undecided obligation of
                    # the function when it falsifies a clause of another kind, e.g. an undeclared exception)
                    bad_labels = [f_[5:-9] for f_ in hit['native']['failed'] if f_.startswith('post:') and f_.endswith(' is false')]
                    is_mine = any((o.get('label') or '') == b_ or (o.get('label') or '').startswith(b_ + '.') for b_ in bad_labels)
                    first = not any(r_ is res for r_, _o in violations)
                    if not (is_mine or (first and not any((o2.get('label') or '') == b_ or (o2.get('label') or '').startswith(b_ + '.')
                                                       for o2 in mine for b_ in bad_labels if o2['verdict'] not in ('discharged', 'reachable')))):
                        hit = None
                if hit is not None and o['id'] not in failing_ids:
                    failing_ids.add(o['id'])
                    o = dict(o, model=hit['inputs'], verdict='undischarged', note=(o.get('note') or '') + ' | solver: %s; failing input found by native contract search: %s' % (v, hit['native']['failed'][:2]))
                    violations.append((res, o))
                else:
                    undecided.append('%s: %s (%s)' % (o['id'], v, o['backend']))
    # continuous translation check: the executor in concrete mode must agree with CPython on the functions under contract
    xc_cases, xc_bad, xc_fns = 0, [], 0
    for c in cs:
        if c.assumed:
            continue
        try:
            ncase, bad = native.crosscheck(c.target, seed, 3 if tier == 'quick' else 25, reg)
        except Exception as ex:
            ncase, bad = 0, [dict(inputs=None, engine='cross-check crashed: %s' % str(ex)[:200], cpython='')]
        xc_fns += 1
        xc_cases += ncase
        for b in bad:
            # the engine and CPython disagree on this input.  If the real function violates its own contract there, the code is at fault (and is
            # reported as such); if the engine simply cannot interpret the (changed) code concretely, the comparison says nothing; otherwise
            # the translation is at fault
            try:
                r_ = native.replay_function(c.target, b['inputs'], reg) if b.get('inputs') is not None else {'confirmed': False}
            except Exception:
                r_ = {'confirmed': False}
            if r_.get('confirmed'):
                o_ = dict(id='%s#contract:cross-check' % c.target, kind='contract', label='cross-check', props=[prop], line=None, expect='unsat', verdict='undischarged',
                          backend='native', time=0.0, model=b['inputs'], goal='the contract of %s holds' % c.target,
                          note='found while comparing the engine with CPython: %s' % (r_.get('failed') or [])[:2], native=r_, finding=None)
                if o_['id'] not in failing_ids:
                    failing_ids.add(o_['id'])
                    violations.append((dict(kind='fn', name=c.target, obligations=[o_]), o_))
                continue
            if str(b.get('engine', '')).startswith("('engine-error'"):
                continue
            # does the real function give the same answer in a fresh interpreter?  If not, its result depends on what was evaluated earlier
            # in the process: hidden state in the code, not a translation fault
            fresh_ = native.fresh_outcome(c.target, b['inputs']) if b.get('inputs') is not None else None
            if fresh_ is not None and fresh_ != str(b.get('cpython')):
                o_ = dict(id='%s#contract:history-dependence' % c.target, kind='contract', label='history-dependence', props=[prop], line=None, expect='unsat',
                          verdict='undischarged', backend='native', time=0.0, model=b['inputs'], goal='%s is a function of its arguments' % c.target,
                          note='the result on this input depends on earlier calls in the process: fresh interpreter %s, after other calls %s' % (fresh_[:120], str(b.get('cpython'))[:120]),
                          native=dict(confirmed=True, fresh=fresh_, in_process=str(b.get('cpython'))), finding=None)
                if o_['id'] not in failing_ids:
                    failing_ids.add(o_['id'])
                    violations.append((dict(kind='fn', name=c.target, obligations=[o_]), o_))
                continue
            xc_bad.append(dict(function=c.target, **b))
    # lemmas are also run natively: random small instances that satisfy every `requires`, executed with the REAL functions
    lemma_native = {}
    for l in ls:
        try:
            r = native.lemma_instances(l, reg, seed, 200 if tier == 'quick' else 2000, 4 if tier == 'quick' else 40)
        except Exception as ex:
            r = dict(tried=0, satisfied=0, violated=[], note='instance harness error: %s' % str(ex)[:120])
        lemma_native[l.name] = dict(tried=r['tried'], satisfied=r['satisfied'], violated=len(r['violated']), note=r.get('note', ''))
        for v in r['violated'][:1]:
            res = dict(kind='lemma', name=l.name)
            o = dict(id='lemma.%s#native:%s' % (l.name, v['clause']), kind='lemma', model=v['inputs'], verdict='refuted', backend='native-instance',
                     note='the lemma is false on the real functions for this input', goal=v['clause'], native=dict(confirmed=True))
            violations.append((dict(kind='engine', engine=None, name='lemma.' + l.name), o))
    # findings recorded as an excluded precondition of a contract: the witness is replayed natively on every run
    for f in known['findings']:
        if f.get('kind') != 'precondition':
            continue
        c = reg.get(f['target'])
        if c is None or prop not in c.props or not any(r['name'] == c.target for r in results):
            continue
        try:
            obs = native.observe(c.target, f['witness'])
        except Exception as ex:
            obs = dict(bad=False, outcome='witness not replayable: %s' % ex)
        if obs['bad']:
            kf_lines.append('KNOWN-FINDING: property=%s %s [%s, excluded by the precondition of the contract of %s; witness outcome: %s]' % (
                prop, f['what'], f['id'], c.target, obs['outcome'][:80]))
        else:
            print('note: known finding %s no longer reproduces natively (%s)' % (f['id'], obs['outcome'][:120]))
    # findings identified by a concrete native witness (defects outside the deductive core, e.g. floating-point artefacts)
    for f in known['findings']:
        if f.get('kind') != 'native-witness' or prop not in (f.get('properties') or [f['property']]):
            continue
        try:
            bad, shown = native.run_witness(f['witness'], f['bad'])
        except Exception as ex:
            bad, shown = False, 'witness not replayable: %s' % ex
        if bad:
            kf_lines.append('KNOWN-FINDING: property=%s %s [%s; witness result: %s]' % (prop, f['what'], f['id'], shown[:100]))
        else:
            print('note: known finding %s no longer reproduces natively (%s)' % (f['id'], shown[:120]))
    # baseline of obligation ids (vacuity / regression guard)
    base_path = os.path.join(HERE, 'baseline', '%s.json' % prop)
    ids_now = sorted({o['id'] for res in results if res['status'] == 'ok' for o in res['obligations'] if prop in o['props'] or (res['kind'] == 'fn' and res['name'] in lemma_deps and o['kind'] in ('post', 'exc'))})
    if os.path.exists(base_path):
        base = json.load(open(base_path))
        missing = [i for i in base['ids'] if i not in ids_now]
        for i in missing:
            undecided.append('obligation %s of the baseline was not generated (contract no longer binds?)' % i)
    elif os.environ.get('PYVC_WRITE_BASELINE'):
        pass
    if os.environ.get('PYVC_WRITE_BASELINE') and not violations and not undecided and not crashed:
        os.makedirs(os.path.dirname(base_path), exist_ok=True)
        json.dump({'property': prop, 'ids': ids_now}, open(base_path, 'w'), indent=0)

    out_lines = []
    n_viol = 0
    viol_records = []
    for res, o in violations:
        extra = {}
        confirmed = False
        if res['kind'] == 'fn':
            try:
                try:
                    r = native.replay_function(res['name'], o['model']) if o.get('model') else dict(confirmed=False)
                except Exception as ex:
                    r = dict(confirmed=False, detail='model not replayable natively: %s' % str(ex)[:200])
                if not r['confirmed']:
                    # the counter-model is abstract (or not reproducible in floats): search the function's bounded pool
                    from . import pools
                    for inp in pools.function_inputs(res['name'], seed):
                        r2 = native.replay_function(res['name'], inp)
                        if r2['confirmed']:
                            r = r2
                            o['model'] = inp
                            break
                extra = dict(native=r)
                confirmed = r['confirmed']
            except Exception as ex:
                extra = dict(native=dict(confirmed=False, detail='replay crashed: %s' % ex))
        elif res['kind'] == 'lemma' and o.get('model'):
            try:
                r = native.replay_lemma(res['name'], o['model'], reg)
            except Exception as ex:
                r = dict(confirmed=False, detail='lemma replay crashed: %s' % str(ex)[:200])
            extra = dict(native=r)
            confirmed = r['confirmed']
        elif res['kind'] == 'engine':
            extra = dict(engine=res.get('engine'), native=o.get('native'))
            confirmed = bool((o.get('native') or {}).get('confirmed'))
        path = write_replay(prop, res, o, extra)
        n_viol += 1
        line = 'VIOLATION property=%s replay=%s' % (prop, path)
        if not confirmed:
            line += ' obligation=%s no-failing-input-found' % o['id']
        out_lines.append(line)
        viol_records.append(dict(obligation=o['id'], replay=path, confirmed=confirmed, note=o.get('note'), model=o.get('model')))

    level = plan['level']
    # cover / canary checks the solver could not decide (quantified hypotheses): look for a concrete witness of reachability instead
    native_reach = {}
    for oid in list(unconfirmed):
        fn_ = oid.split('#')[0]
        if fn_ not in native_reach:
            try:
                native_reach[fn_] = native.reach_witness(fn_, seed, 200, reg)
            except Exception:
                native_reach[fn_] = None
        if native_reach[fn_] is not None:
            unconfirmed.remove(oid)
    wall = time.time() - t0
    trusted = sorted('model contract of library function %s (assumed: its symbolic facts are trusted; its concrete branch is compared with the real library by the translation cross-check of every function that uses it)' % l for l in lib_used)
    trusted += ['assumed contract (body not verified deductively; %s): %s' % (c.note or 'bounded conformance only', c.target) for c in reg.by_target.values() if c.assumed and (c.target in used or c.target in assumed_here)]
    trusted += ['z3 %s / cvc5 1.0.3 / z3 4.8.12 as back ends' % __import__('z3').get_version_string(), DROPPED]
    trusted += sorted(facts)
    trusted += plan.get('trusted', [])
    cov = dict(obligations=n_ob, discharged=n_ok, checker_cmd='./check %s --tier %s' % (prop, tier), trusted_base=trusted,
               samples=samples or [dict(note='no obligation sample')],
               functions_under_contract=sorted(functions), lemmas=sorted(lemmas), inlined_callees=sorted(inlined),
               callee_contracts_used=sorted(used), by_backend=by_backend, solver_time_s=round(solver_time, 3),
               slowest_obligations=[dict(time_s=t, id=i, backend=b) for t, i, b in sorted(slowest, reverse=True)[:5]],
               bounded_checks=bounded, known_findings=kf_lines, undecided=undecided, violations=viol_records,
               consistency_unconfirmed=unconfirmed,
               consistency_native_witnesses={k: json.loads(json.dumps(v, default=str)) for k, v in native_reach.items() if v is not None},
               translation_crosscheck=dict(functions=xc_fns, cases=xc_cases, mismatches=xc_bad[:5]),
               lemma_native_instances=lemma_native,
               source_sha256=frontend.source_hashes(), repo=frontend.REPO,
               explanation=plan.get('explanation', ''), not_decided=plan.get('not_decided', []))
    ev = dict(property_id=prop, tier=tier, seed=seed, level=level, coverage=cov,
              assumptions=[ASSUMPTIONS[k] for k in plan.get('assumptions', ['A1', 'A2', 'A3', 'A5', 'A6', 'A8', 'A9'])] + plan.get('extra_assumptions', []),
              wall_s=round(wall, 2), violations=n_viol)
    os.makedirs(EVID, exist_ok=True)
    with open(os.path.join(EVID, '%s.json' % prop), 'w') as f:
        json.dump(ev, f, indent=1, default=str)

    print('property %s tier=%s: %d obligations, %d discharged, %d violations, %d undecided, %d bounded checks, %.1fs' % (
        prop, tier, n_ob, n_ok, n_viol, len(undecided), len(bounded), wall))
    for l in kf_lines:
        print(l)
    for l in out_lines:
        print(l)
    for b in bounded:
        if b.get('failures'):
            pass
    if xc_bad and not n_viol:
        # the engine disagrees with CPython on the unchanged semantics of a function: the machinery, not the code, is at fault
        for b in xc_bad[:3]:
            print('CHECKER-ERROR translation cross-check: %s engine=%s cpython=%s inputs=%s' % (b['function'], b['engine'], b['cpython'], b['inputs']))
        return 3
    if crashed:
        for c in crashed:
            print('CHECKER-ERROR %s: %s' % (c.get('name'), c.get('detail')))
        if any(v.get('confirmed') for v in viol_records):
            return 1        # a violation replayed on the real code stands whatever happened elsewhere in the run
        return 3
    if n_viol:
        return 1
    if undecided:
        for u in undecided:
            print('UNDECIDED', u)
        return 2
    if n_ob == 0 and not (level == 'other' and sum(b.get('cases', 0) for b in bounded) > 0):
        print('UNDECIDED no obligations generated')
        return 2
    return 0


if __name__ == '__main__':
    sys.exit(main())
