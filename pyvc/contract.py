"""Sidecar contracts: loading, modular use at call sites, and verification of a function body
against its own contract.  Contracts live in /verif/contracts/*.py, are parsed (never imported)
and are keyed by the qualified name of the repository function they describe.
"""
import ast
import glob
import os

import z3

from . import frontend, kinds
from .values import *       # noqa
from .symex import Engine, St, Obligation, OutOfSubset, new_ref
from . import calls

HERE = os.path.dirname(os.path.dirname(os.path.abspath(__file__)))
CONTRACT_DIR = os.path.join(HERE, 'contracts')


class Sidecar:
    """a parsed contract file; quacks like frontend.Module for name resolution"""

    def __init__(self, path):
        self.path = path
        self.name = 'contracts.' + os.path.basename(path)[:-3]
        self.src = open(path).read()
        self.tree = ast.parse(self.src)
        self.functions = {}
        self.assigns = {}
        self.imports = {m: 'mir_eval.' + m for m in frontend.MODULES}
        self.contracts = []
        self.views = {}
        self.lemmas = []
        for n in self.tree.body:
            if isinstance(n, ast.FunctionDef):
                deco = None
                for d in n.decorator_list:
                    if isinstance(d, ast.Call) and isinstance(d.func, ast.Name) and d.func.id in ('contract', 'lemma', 'assumed_contract'):
                        deco = d
                if deco is None:
                    self.functions[n.name] = n
                elif deco.func.id in ('contract', 'assumed_contract'):
                    c = Contract(self, n, deco)
                    if c.view:
                        if not c.assumed:
                            raise ValueError('view=True is only allowed on assumed contracts (%s)' % c.target)
                        self.views[c.target] = c
                    else:
                        self.contracts.append(c)
                else:
                    self.lemmas.append(Lemma(self, n, deco))
            elif isinstance(n, ast.Assign) and len(n.targets) == 1 and isinstance(n.targets[0], ast.Name):
                self.assigns[n.targets[0].id] = n.value


def _kw(deco, name, default=None):
    for k in deco.keywords:
        if k.arg == name:
            return ast.literal_eval(k.value)
    return default


class Contract:
    def __init__(self, sidecar, fd, deco):
        self.sidecar = sidecar
        self.fd = fd
        self.target = ast.literal_eval(deco.args[0])
        if self.target.startswith('mir_eval.'):
            self.target = self.target[len('mir_eval.'):]
        self.props = tuple((_kw(deco, 'props', '') or '').split())
        self.assumed = deco.func.id == 'assumed_contract'
        self.note = _kw(deco, 'note', '')
        self.shards = _kw(deco, 'shards', 1)
        # view=True: an assumed, sidecar-local restatement of a callee's contract over opaque values (used only by the
        # functions of this sidecar; the registry keeps the real contract of the target)
        self.view = bool(_kw(deco, 'view', False))
        self.mask_triggers = bool(_kw(deco, 'mask_triggers', False))   # extra E-matching triggers for boolean-mask selections
        self.allows_nonfinite = bool(_kw(deco, 'nonfinite', False))      # the documented result may be nan (stated by an ensures)
        a = fd.args
        self.param_names = [x.arg for x in a.posonlyargs + a.args + a.kwonlyargs]
        self.param_kinds = {x.arg: kinds.parse_kind(x.annotation) for x in a.posonlyargs + a.args + a.kwonlyargs}
        self.result_kind = kinds.parse_kind(fd.returns) if fd.returns is not None else None
        # without a result kind `result` is None at call sites (and None[k] is 0 in the total semantics of the specification language):
        # such a contract can be verified against its function but must not be used by callers / lemmas
        self.untyped_result = self.result_kind is None and any(isinstance(n, ast.Name) and n.id == 'result' for n in ast.walk(fd)) \
            and not any(isinstance(n, ast.Call) and isinstance(n.func, ast.Name) and n.func.id == 'returns' for n in ast.walk(fd))
        self.body = frontend.docstring_stripped(fd)
        self.post_names = self._post_names()

    def _post_names(self):
        post = {'result'}
        changed = True
        while changed:
            changed = False
            for s in self.body:
                if isinstance(s, ast.Assign) and any(isinstance(n, ast.Name) and n.id in post for n in ast.walk(s.value)):
                    for t in s.targets:
                        for n in ast.walk(t):
                            if isinstance(n, ast.Name) and n.id not in post:
                                post.add(n.id)
                                changed = True
        return post

    def mentions_post(self, stmt):
        return any(isinstance(n, ast.Name) and n.id in self.post_names for n in ast.walk(stmt))


class Lemma:
    def __init__(self, sidecar, fd, deco):
        self.sidecar = sidecar
        self.fd = fd
        self.props = tuple((ast.literal_eval(deco.args[0]) or '').split())
        self.name = fd.name
        a = fd.args
        self.param_names = [x.arg for x in a.args]
        self.param_kinds = {x.arg: kinds.parse_kind(x.annotation) for x in a.args}
        self.body = frontend.docstring_stripped(fd)


class Registry:
    def __init__(self, directory=CONTRACT_DIR):
        self.sidecars = [Sidecar(p) for p in sorted(glob.glob(os.path.join(directory, '*.py')))
                         if not os.path.basename(p).startswith('_')]
        self.by_target = {}
        self.lemmas = []
        for sc in self.sidecars:
            for c in sc.contracts:
                if c.target in self.by_target:
                    raise ValueError('duplicate contract for %s' % c.target)
                self.by_target[c.target] = c
            self.lemmas.extend(sc.lemmas)

    def get(self, qual):
        if qual.startswith('mir_eval.'):
            qual = qual[len('mir_eval.'):]
        return self.by_target.get(qual)

    def for_property(self, prop):
        return [c for c in self.by_target.values() if prop in c.props], [l for l in self.lemmas if prop in l.props]


def spec_engine(sidecar, fd, qual, registry):
    eng = Engine(sidecar, fd, qual, registry)
    eng.sidecar = sidecar
    eng.spec_mode = True
    eng.spec_funcs = {n: FnV('spec', n) for n in calls.SPEC}
    for n, f in sidecar.functions.items():
        eng.spec_funcs[n] = FnV('specdef', n, f)
    for c in sidecar.contracts:
        eng.spec_funcs.setdefault(c.fd.name, FnV('repo', c.target))
    for n, v in sidecar.assigns.items():
        if isinstance(v, ast.Call) and isinstance(v.func, ast.Name) and v.func.id == 'uninterpreted':
            name, arg_kinds, res_kind = [ast.literal_eval(a) for a in v.args]
            eng.spec_funcs[n] = FnV('uf', name, calls.uninterpreted(name, arg_kinds, res_kind))
    return eng


def eval_clauses(c, env, st, registry, phase):
    """run the contract body on `env` in the given phase ('pre' | 'post'); returns list of clause dicts.
    The state `st` supplies heap and facts; it is not extended."""
    eng = spec_engine(c.sidecar, c.fd, c.target + '$contract', registry)
    eng.clauses = []
    st2 = st.fork()
    st2.env = dict(env)
    eng.base_pc_len = len(st2.pc)
    body = [s for s in c.body if (phase == 'post') or not c.mentions_post(s)]
    n = 0
    last = None
    for st3, out in eng.ex_block(body, st2):
        n += 1
        last = st3
        if out is not None and out[0] == 'raise':
            raise OutOfSubset('contract body of %s raised %s' % (c.target, out[1]))
    if n == 0:
        raise OutOfSubset('contract body of %s has no feasible path' % c.target)
    # an `if` of the contract body may split it: every clause holds under the branch facts it was stated under
    # (clauses stated before the split carry an empty guard and appear once)
    out = []
    auto = {}
    seen = set()
    for cl in eng.clauses:
        g = [to_z3(x) for x in cl.pop('guard', [])]
        key = (cl['kind'], cl.get('label'), cl.get('line'), tuple(x.get_id() for x in g), id(cl.get('cond')) if not g else None)
        if cl['kind'] == 'returns':
            if n != 1:
                raise OutOfSubset('returns() in a contract body that splits into %d paths' % n)
            cl['heap'] = last.heap
        if g:
            guard = z3.And(*g) if len(g) > 1 else g[0]
            if cl['kind'] in ('requires', 'ensures', 'define'):
                cl['cond'] = z3.Implies(guard, to_z3(cl['cond']))
            elif cl['kind'] == 'raises':
                cl['cond'] = z3.And(guard, to_z3(cl['cond']))
            elif cl['kind'] == 'hint':
                cl['premise'] = z3.Implies(guard, to_z3(cl['premise']))
                cl['conclusion'] = z3.Implies(guard, to_z3(cl['conclusion']))
        k = cl['kind']
        if cl.get('label') is None and k in ('requires', 'ensures'):
            auto[k] = auto.get(k, 0) + 1
            cl['label'] = '%s%d' % (k[0], auto[k])
        out.append(cl)
    # several `raises` of one class stated on different branches: the documented condition is their disjunction
    merged, by_cls = [], {}
    for cl in out:
        if cl['kind'] == 'raises' and n > 1:
            if cl['cls'] in by_cls:
                by_cls[cl['cls']]['cond'] = or_(by_cls[cl['cls']]['cond'], cl['cond'])
                continue
            by_cls[cl['cls']] = cl
        merged.append(cl)
    return merged


def fresh_result(c, st, record=None):
    if c.result_kind is None:
        return None
    return kinds.fresh(c.result_kind, fresh_name(c.target.split('.')[-1] + '.res'), st, new_ref, 'fresh', record)


def apply_contract(eng, c, args, kwargs, st):
    """use of a callee's contract at a call site (modular: the callee body is not looked at)"""
    mod2, fd2 = frontend.function(c.target)
    env = calls.bind(fd2, args, kwargs, eng, st)
    if isinstance(env, Raised):
        yield env, st
        return
    if getattr(c, 'untyped_result', False):
        raise OutOfSubset('contract of %s speaks about `result` but declares no result kind: not usable at call sites' % c.target)
    eng.used_contracts.add(c.target)
    short = c.target
    pre = eval_clauses(c, env, st, eng.registry, 'pre')
    for cl in pre:
        if cl['kind'] == 'requires':
            eng.oblige('pre@call', '%s.%s' % (short, cl['label']), st, cl['cond'])
    raises = [cl for cl in pre if cl['kind'] == 'raises']
    # exceptional outcomes
    for cl in raises:
        cond = cl['cond']
        if isinstance(cond, bool) and not cond:
            continue
        if eng.feasible(st, cond):
            st_e = st.fork()
            st_e.assume(cond)
            yield Raised(cl['cls']), st_e
    # normal outcome
    for cl in raises:
        st.assume(not_(cl['cond']))
    if not eng.feasible(st):
        return
    ret = [cl for cl in pre if cl['kind'] == 'returns']
    if ret:
        # definitional result: the contract says exactly what is returned (only allowed in assumed contracts)
        if not c.assumed:
            raise OutOfSubset('returns() in a non-assumed contract (%s)' % c.target)
        res = ret[0]['value']
        # objects created while evaluating the clause live in the clause state: re-create them here
        res = rehome(res, ret[0]['heap'], st)
    else:
        res = fresh_result(c, st)
    env2 = dict(env)
    env2['result'] = res
    post = eval_clauses(c, env2, st, eng.registry, 'post')
    for cl in post:
        if cl['kind'] in ('ensures', 'define'):
            st.assume(cl['cond'])
    yield res, st


def rehome(v, heap, st):
    if isinstance(v, Ref):
        if v.oid not in st.heap:
            st.heap[v.oid] = heap[v.oid]
        return v
    if isinstance(v, tuple):
        return tuple(rehome(x, heap, st) for x in v)
    return v


def check_result_kind(kind, v, st):
    """structural conformance of an actual result with the declared kind -> (ok, why)"""
    if kind is None:
        return True, ''
    if isinstance(kind, kinds.KTup):
        if not isinstance(v, tuple):
            return False, 'expected a %d-tuple, got a non-tuple' % len(kind.items)
        if len(v) != len(kind.items):
            return False, 'expected a %d-tuple, got a %d-tuple' % (len(kind.items), len(v))
        for k, x in zip(kind.items, v):
            ok, why = check_result_kind(k, x, st)
            if not ok:
                return ok, why
        return True, ''
    if isinstance(kind, (kinds.KReal, kinds.KInt, kinds.KBool)):
        if isinstance(v, (tuple, Ref)) or v is None:
            return False, 'expected a scalar, got %s' % ('a tuple' if isinstance(v, tuple) else 'a container/None')
        return True, ''
    return True, ''


class FunctionReport:
    def __init__(self, qual):
        self.qual = qual
        self.obligations = []
        self.paths = 0
        self.status = 'ok'           # ok | out-of-subset | error
        self.detail = ''
        self.inlined = set()
        self.used_contracts = set()
        self.input_record = {}
        self.env = None
        self.st0 = None
        self.trusted_facts = set()


def verify_function(c, registry, feas_timeout=300):
    """generate all obligations for repository function `c.target` against contract `c`"""
    rep = FunctionReport(c.target)
    from . import npmodel as _npm
    del _npm.EXT_RECORDS[:]
    try:
        mod, fd = frontend.function(c.target)
    except KeyError as ex:
        rep.status, rep.detail = 'unbound', 'function %s not found: %s' % (c.target, ex)
        return rep
    real_params = frontend.params(fd)
    missing = [p for p in c.param_names if p not in real_params[0] + real_params[1]]
    if missing:
        rep.status, rep.detail = 'unbound', 'contract parameters %s are not parameters of %s' % (missing, c.target)
        return rep
    eng = Engine(mod, fd, c.target, registry, feas_timeout=feas_timeout)
    eng.sidecar = c.sidecar           # sidecar-local view contracts of callees
    eng.mask_triggers = getattr(c, 'mask_triggers', False)
    eng.default_props = c.props
    st = St()
    env = {}
    record = {}
    try:
        dflt = frontend.defaults(fd)
        for p in real_params[0] + real_params[1]:
            if p in c.param_kinds and c.param_kinds[p] is not None:
                env[p] = kinds.fresh(c.param_kinds[p], p, st, new_ref, 'param:' + p, record)
            elif p in dflt:
                env[p] = ast.literal_eval(dflt[p])
            else:
                raise OutOfSubset('parameter %s of %s has no kind in the contract and no default' % (p, c.target))
        eng.input_syms = record
        rep.input_record = record
        rep.env = dict(env)
        pre_heap = dict(st.heap)
        pre = eval_clauses(c, env, st, registry, 'pre')
        for cl in pre:
            if cl['kind'] == 'requires':
                st.assume(cl['cond'])
            elif cl['kind'] == 'define':
                st.assume(to_z3(cl['cond']))        # axioms / defining facts stated before the body runs
            elif cl['kind'] == 'inline':
                for a in cl['args']:
                    eng.inline.add(a[len('mir_eval.'):] if a.startswith('mir_eval.') else a)
            elif cl['kind'] == 'invariant':
                eng.loop_invariants.setdefault(cl['kwargs'].get('loop', 0), []).append(cl)
                for nm, kd in (cl['kwargs'].get('havoc') or {}).items() if isinstance(cl['kwargs'].get('havoc'), dict) else []:
                    eng.havoc_kinds[nm] = kd
            elif cl['kind'] == 'ghost':
                if 'before_loop' in cl['kwargs']:
                    eng.ghosts.setdefault(('before', cl['kwargs']['before_loop']), []).append(cl)
                else:
                    eng.ghosts.setdefault(cl['kwargs'].get('after_loop', 0), []).append(cl)
        eng.inv_funcs = spec_engine(c.sidecar, c.fd, c.target, registry).spec_funcs
        raises = [cl for cl in pre if cl['kind'] == 'raises']
        # cover: the precondition is satisfiable (vacuity guard)
        ob = Obligation('%s#cover:pre' % c.target, 'cover', 'pre', list(st.pc), z3.BoolVal(False), c.props, fd.lineno,
                        expect='sat')
        rep.obligations.append(ob)
        st.env = dict(env)
        rep.st0 = st.fork()
        outs = eng.run_body(frontend.docstring_stripped(fd), st)
        rep.paths = len(outs)
        n_ret = 0
        for pi, (st1, out) in enumerate(outs):
            eng.cur_stmt = None
            if out[0] == 'return':
                v = out[1]
                n_ret += 1
                ok, why = check_result_kind(c.result_kind, v, st1)
                if not ok:
                    ob = Obligation('%s#arity:result' % c.target, 'arity', 'result', list(st1.pc), z3.BoolVal(False),
                                    c.props, fd.lineno, note=why)
                    ob.inputs = record
                    eng.obligations.append(ob)
                    continue
                # the contract speaks about the pre-state of the parameters
                st_c = st1.fork()
                for oid, o in pre_heap.items():
                    st_c.heap[oid] = o
                env2 = dict(env)
                env2['result'] = v
                post = eval_clauses(c, env2, st_c, registry, 'post')
                extra = []          # conclusions of hints (lemma applications) proved so far on this path
                for cl in post:
                    if cl['kind'] == 'define':
                        extra.append(to_z3(cl['cond']))       # defining facts of a spec term (conservative: the symbol is fresh)
                    if cl['kind'] == 'hint':
                        ob = Obligation('%s#hint:%s' % (c.target, cl['label']), 'post', 'hint:' + cl['label'], list(st1.pc) + list(extra),
                                        cl['premise'], c.props, cl['line'], note='premise of a lemma application')
                        ob.inputs = record
                        eng.obligations.append(ob)
                        extra.append(cl['conclusion'])
                    if cl['kind'] == 'ensures':
                        ob = Obligation('%s#post:%s' % (c.target, cl['label']), 'post', cl['label'], list(st1.pc) + list(extra),
                                        to_z3(cl['cond']), cl['props'] or c.props, cl['line'])
                        ob.inputs = record
                        eng.obligations.append(ob)
                for cl in raises:
                    ob = Obligation('%s#exc:%s-iff' % (c.target, cl['label']), 'exc', cl['label'] + '-iff', list(st1.pc),
                                    to_z3(not_(cl['cond'])), cl['props'] or c.props, cl['line'],
                                    note='returned normally although the documented %s condition holds' % cl['cls'])
                    ob.inputs = record
                    eng.obligations.append(ob)
                if n_ret == 1:
                    ob = Obligation('%s#canary:false' % c.target, 'canary', 'false', list(st1.pc), z3.BoolVal(False),
                                    c.props, fd.lineno, expect='sat')
                    eng.obligations.append(ob)
            elif out[0] == 'raise':
                cls = out[1]
                decl = [cl for cl in raises if cl['cls'] == cls]
                goal = or_(*[cl['cond'] for cl in decl]) if decl else False
                ob = Obligation('%s#exc:%s-only-when' % (c.target, cls), 'exc', cls + '-only-when', list(st1.pc),
                                to_z3(goal), (decl[0]['props'] if decl and decl[0]['props'] else c.props), fd.lineno,
                                note=('raised %s outside its documented condition' % cls) if decl else
                                ('raised undeclared exception %s' % cls))
                ob.inputs = record
                eng.obligations.append(ob)
            else:
                raise OutOfSubset('loop control outside loop')
        rep.obligations.extend(eng.obligations)
        rep.inlined = set(eng.inlined)
        rep.used_contracts = set(eng.used_contracts)
        rep.trusted_facts = set(eng.trusted_facts)
    except OutOfSubset as ex:
        rep.status, rep.detail = 'out-of-subset', str(ex)
        rep.obligations = []
    except TypeError as ex:
        if 'no z3 rendering' not in str(ex):
            raise
        # a container reached a place where the contract of a callee expects an opaque / scalar value: the code is outside
        # what this contract set can follow (undecided, not a checker crash)
        rep.status, rep.detail = 'out-of-subset', 'value of an unexpected shape reaches a contract boundary: %s' % ex
        rep.obligations = []
    return rep


def verify_lemma(lem, registry, feas_timeout=300):
    """a lemma is a ghost client: executed like a function; `requires` are assumed, `ensures` are proved"""
    rep = FunctionReport('lemma.' + lem.name)
    from . import npmodel as _npm
    del _npm.EXT_RECORDS[:]
    eng = spec_engine(lem.sidecar, lem.fd, 'lemma.' + lem.name, registry)
    eng.spec_mode = False
    eng.lemma_mode = True
    eng.default_props = lem.props
    st = St()
    record = {}
    try:
        env = {p: kinds.fresh(lem.param_kinds[p], p, st, new_ref, 'param:' + p, record) for p in lem.param_names}
        eng.input_syms = record
        rep.input_record = record
        st.env = env
        outs = eng.run_body(lem.body, st)
        rep.paths = len(outs)
        for st1, out in outs:
            if out[0] == 'raise':
                ob = Obligation('lemma.%s#exc:%s' % (lem.name, out[1]), 'exc', out[1], list(st1.pc), z3.BoolVal(False),
                                lem.props, lem.fd.lineno, note='lemma client raised %s' % out[1])
                ob.inputs = record
                eng.obligations.append(ob)
        if outs:
            ob = Obligation('lemma.%s#canary:false' % lem.name, 'canary', 'false', list(outs[0][0].pc), z3.BoolVal(False), lem.props,
                            lem.fd.lineno, expect='sat')
            eng.obligations.append(ob)
        rep.obligations = eng.obligations
        rep.used_contracts = set(eng.used_contracts)
        rep.trusted_facts = set(eng.trusted_facts)
    except OutOfSubset as ex:
        rep.status, rep.detail = 'out-of-subset', str(ex)
    return rep


def eval_expr(c, expr_src, env, st, registry):
    """evaluate an expression of the contract language (e.g. the exclusion predicate of a known finding)
    over the parameters of the function described by contract `c`"""
    node = ast.parse(expr_src, mode='eval').body
    eng = spec_engine(c.sidecar, c.fd, c.target + '$expr', registry)
    st2 = st.fork()
    st2.env = dict(env)
    for v, _ in eng.ev(node, st2):
        return to_z3(to_bool(v))
