"""Failure lists of the bounded engines that serve several properties: a message is kept only if the relation it reports
belongs to the property being checked (first matching keyword decides; unmatched messages are always kept)."""


class Fails(list):
    def __init__(self, prop, rules):
        super().__init__()
        self.prop, self.rules = prop, rules

    def append(self, msg):
        for key, props in self.rules:
            if key in msg:
                if self.prop in props:
                    list.append(self, msg)
                return
        list.append(self, msg)
