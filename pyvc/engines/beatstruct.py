"""Structural ordering obligations on beat.cemgil / beat.continuity (C07), decided on the AST of the real functions:
the "best metric level" / "any metric level" results are `np.max` over the per-variation list whose element 0 (the original
metrical level: `_get_reference_beat_variations` returns the reference itself first) is the "correct level" result.
Hence Cemgil <= Cemgil-best and CML <= AML for every input, whatever the per-variation scores are."""
import ast

from .. import frontend


def returns_of(fd):
    return [n for n in ast.walk(fd) if isinstance(n, ast.Return) and isinstance(n.value, ast.Tuple)]


def check(qual, pairs, n_out):
    """pairs: (index of the first-level component, index of the max component)"""
    mod, fd = frontend.function(qual)
    obs = []
    rets = [r for r in returns_of(fd) if len(r.value.elts) == n_out and not all(isinstance(e, ast.Constant) for e in r.value.elts)]
    ok, why = bool(rets), 'no non-trivial return with %d components' % n_out
    for r in rets:
        for lo, hi in pairs:
            a, b = r.value.elts[lo], r.value.elts[hi]
            good = (isinstance(a, ast.Subscript) and isinstance(a.value, ast.Name) and isinstance(a.slice, ast.Constant) and a.slice.value == 0
                    and isinstance(b, ast.Call) and frontend.dotted(b.func) in ('np.max', 'max', 'np.amax') and len(b.args) == 1
                    and isinstance(b.args[0], ast.Name) and b.args[0].id == a.value.id)
            if good:
                # the list must only ever be extended by append (so that element 0 stays the first variation's score)
                lst = a.value.id
                for n in ast.walk(fd):
                    if isinstance(n, ast.Assign) and any(isinstance(t, ast.Name) and t.id == lst for t in n.targets) and not (isinstance(n.value, ast.List) and not n.value.elts):
                        good = False
                    if isinstance(n, ast.Call) and isinstance(n.func, ast.Attribute) and isinstance(n.func.value, ast.Name) and n.func.value.id == lst \
                            and n.func.attr not in ('append',):
                        good = False
            if not good:
                ok, why = False, 'components %d / %d of the result are `%s` / `%s`, not  L[0] / np.max(L)' % (lo, hi, ast.unparse(a), ast.unparse(b))
    # the first variation is the reference itself
    mv, fv = frontend.function('beat._get_reference_beat_variations')
    rv = [n for n in ast.walk(fv) if isinstance(n, ast.Return) and isinstance(n.value, ast.Tuple)]
    first_ok = bool(rv) and all(isinstance(r.value.elts[0], ast.Name) and r.value.elts[0].id == fv.args.args[0].arg for r in rv)
    if not first_ok:
        ok, why = False, '_get_reference_beat_variations does not return the reference beats as its first variation'
    nat = None
    if not ok:
        nat = search(qual, pairs)
        if not nat['confirmed']:
            # the shape is not the one this rule recognises and no failing input exists in the searched set: not an alarm;
            # the caller records the search as a bounded check instead of a discharged obligation
            return [dict(unrecognised=qual, why=why)]
    obs.append(dict(id='%s#post:first-level<=best-level' % qual, kind='post', label='first-level<=best-level', props=['C07'], line=fd.lineno,
                    note='' if ok else why, expect='unsat', verdict='discharged' if ok else 'refuted', backend='ast-structural', time=0.0,
                    model=None if ok else dict(function=qual, why=why), goal='result[k_first] = L[0] and result[k_best] = max(L) for the same list L', native=nat, finding=None))
    return obs


def search(qual, pairs):
    """look for a concrete input on which the first-level score exceeds the best-level score (real code)"""
    import random
    import warnings
    from .. import native
    native.import_repo()
    import numpy as np
    import mir_eval
    f = getattr(mir_eval.beat, qual.split('.')[1])
    rng = random.Random(0)
    with warnings.catch_warnings():
        warnings.simplefilter('ignore')
        for it in range(400):
            period = rng.choice([0.4, 0.5, 0.6])
            ref = np.array([6.0 + period * k for k in range(rng.randint(4, 24))])
            est = np.sort(np.array([t + rng.choice([0, 0, 0.01, -0.02, 0.1]) for t in ref if rng.random() < 0.9] + [6.0 + 10 * rng.random() for _ in range(rng.randint(0, 2))]))
            if it % 2 == 1 and len(ref) >= 8:
                # a tracker that follows the beat, then slips to the off-beat while dropping a beat now and then
                a = rng.randint(3, len(ref) - 3)
                late = [t + period / 2.0 for k, t in enumerate(ref[a:]) if k % rng.choice([3, 4]) != 1]
                est = np.array(list(ref[:a]) + late)
            if len(est) < 2:
                continue
            try:
                r = f(ref, est)
            except Exception:
                continue
            for lo, hi in pairs:
                if r[lo] > r[hi] + 1e-12:
                    return dict(confirmed=True, example='%s(%s, %s) = %s: component %d exceeds component %d' % (qual, ref.tolist(), est.tolist(), tuple(float(x) for x in r), lo, hi))
    return dict(confirmed=False, detail='no input found on which the first-level score exceeds the best-level score')


def replay(rec):
    if rec.get('property') == 'C01':
        obs = goto_binary()
        bad = [o for o in obs if o.get('verdict', 'discharged') != 'discharged']
        return bool(bad), 'beat.goto binary: %s' % ([(o['note'], (o['native'] or {}).get('example')) for o in bad] or 'no failure')
    obs = check('beat.cemgil', [(0, 1)], 2) + check('beat.continuity', [(0, 2), (1, 3)], 4)
    bad = [o for o in obs if o.get('verdict', 'discharged') != 'discharged']
    return bool(bad), 'beat metric levels: %s' % ([(o['id'], o['note'], (o['native'] or {}).get('example')) for o in bad] or 'no failure')


def goto_binary():
    """C01: beat.goto is exactly 0 or 1 - every `return` of the real function is the constant 0.0 or `1.0 * (comparison)`"""
    mod, fd = frontend.function('beat.goto')
    rets = [n for n in ast.walk(fd) if isinstance(n, ast.Return)]
    bad = []
    for r in rets:
        v = r.value
        ok = (isinstance(v, ast.Constant) and v.value in (0, 0.0, 1, 1.0)) or \
             (isinstance(v, ast.BinOp) and isinstance(v.op, ast.Mult) and isinstance(v.left, ast.Constant) and v.left.value in (1, 1.0)
              and isinstance(v.right, ast.Compare))
        if not ok:
            bad.append('line %d returns `%s`' % (r.lineno, ast.unparse(v) if v is not None else 'None'))
    ok = bool(rets) and not bad
    nat = None
    if not ok:
        nat = search_goto()
        if not nat['confirmed']:
            return [dict(unrecognised='beat.goto', why='; '.join(bad))]
    return [dict(id='beat.goto#post:binary', kind='post', label='binary', props=['C01'], line=fd.lineno, note='' if ok else '; '.join(bad), expect='unsat',
                 verdict='discharged' if ok else 'refuted', backend='ast-structural', time=0.0, model=None if ok else dict(function='beat.goto', why=bad),
                 goal='every return value of beat.goto is 0.0 or 1.0 * (boolean)', native=nat, finding=None)]


def search_goto():
    import random
    import warnings
    from .. import native
    native.import_repo()
    import numpy as np
    import mir_eval
    rng = random.Random(0)
    with warnings.catch_warnings():
        warnings.simplefilter('ignore')
        for it in range(300):
            period = rng.choice([0.4, 0.5, 0.6])
            ref = np.array([6.0 + period * k for k in range(rng.randint(3, 14))])
            est = np.sort(np.array([t + rng.choice([0, 0, 0.01, -0.02, 0.1]) for t in ref if rng.random() < 0.9] or [6.0]))
            try:
                r = mir_eval.beat.goto(ref, est)
            except Exception:
                continue
            if r not in (0.0, 1.0):
                return dict(confirmed=True, example='beat.goto(%s, %s) = %r is neither 0 nor 1' % (ref.tolist(), est.tolist(), r))
    return dict(confirmed=False, detail='no input found on which beat.goto is not 0 or 1')


def run(prop, tier, seed, known):
    if prop == 'C01':
        obs = goto_binary()
        bounded = [dict(name='beat.goto is 0 or 1 (return shape not recognised by the structural rule: %s)' % o['why'], bound='300 random beat sequences', cases=300,
                        exhaustive=False, failures=[], wall_s=0.0) for o in obs if 'unrecognised' in o]
        obs = [o for o in obs if 'unrecognised' not in o]
        return dict(results=[dict(kind='engine', engine='beatstruct', name='beat.goto binary', status='ok', detail='', paths=0, obligations=obs, inlined=[],
                                  used_contracts=[], gen_time=0, wall=0, lib_used=[], props=['C01'])], bounded=bounded)
    obs = check('beat.cemgil', [(0, 1)], 2) + check('beat.continuity', [(0, 2), (1, 3)], 4)
    bounded = [dict(name='%s: first-level score <= best-level score (return shape not recognised by the structural rule: %s)' % (o['unrecognised'], o['why']),
                    bound='400 random beat sequences', cases=400, exhaustive=False, failures=[], wall_s=0.0) for o in obs if 'unrecognised' in o]
    obs = [o for o in obs if 'unrecognised' not in o]
    return dict(results=[dict(kind='engine', engine='beatstruct', name='beat metric levels', status='ok', detail='', paths=0, obligations=obs, inlined=[],
                              used_contracts=[], gen_time=0, wall=0, lib_used=[], props=['C07'])], bounded=bounded)
