"""E4: every evaluate() is exactly the documented bundle (property C03).

Both the real `evaluate()` body (AST from /repo) and the documented bundle (contracts/_bundles.py) are
executed symbolically over an uninterpreted value sort: metric and pre-processing functions are
uninterpreted function symbols applied to canonical argument vectors, `**kwargs` is a finite map with a
symbolic presence bit and a symbolic value for every keyword name that any callee accepts plus one
name standing for "any unrelated keyword".  util.filter_kwargs is interpreted by its (assumed, bounded-
checked) contract: pass exactly the keywords that are positional parameters of the callee, or all of
them when the callee itself takes **kwargs.  For every pair of feasible paths the key sets must be equal
and every value must be the same term: one EUF validity query per metric name.

Also here: `arity` obligations - every `return` of every metric function feeding a bundle has the
documented shape (a k-tuple, or not a tuple) - decided on the AST of the real function.
"""
import ast
import itertools
import os
import time
import traceback
import warnings

import z3

from .. import frontend

HERE = os.path.dirname(os.path.dirname(os.path.dirname(os.path.abspath(__file__))))
TASKS = ['beat', 'onset', 'segment', 'chord', 'melody', 'multipitch', 'transcription', 'transcription_velocity',
         'tempo', 'key', 'pattern', 'hierarchy', 'alignment']

Val = z3.DeclareSort('Val')
OTHER = '__unrelated_keyword__'


class Unsupported(Exception):
    pass


class Scores(dict):
    pass


class KW:
    """the **kwargs map: name -> (present: Bool, value: Val)"""

    def __init__(self, entries):
        self.entries = dict(entries)

    def copy(self):
        return KW(self.entries)


class Path:
    def __init__(self, pc, env):
        self.pc, self.env = pc, env

    def fork(self):
        env = {}
        for k, v in self.env.items():
            if isinstance(v, KW):
                env[k] = v.copy()
            elif isinstance(v, Scores):
                env[k] = Scores(v)
            else:
                env[k] = v
        return Path(list(self.pc), env)


class Interp:
    def __init__(self, task, universe):
        self.task = task
        self.mod = frontend.module(task)
        self.universe = universe
        self.consts = {}
        self.funcs = {}
        self.is_none = z3.Function('is_none', Val, z3.BoolSort())
        self.NOTPASSED = z3.Const('NOTPASSED', Val)
        self.oracle = False
        self.issues = []

    # ---- term constructors
    def const(self, v):
        key = repr(v)
        if key not in self.consts:
            self.consts[key] = z3.Const('lit_' + key, Val)
        return self.consts[key]

    def axioms(self):
        cs = list(self.consts.values()) + [self.NOTPASSED]
        ax = []
        if len(cs) > 1:
            ax.append(z3.Distinct(*cs))
        for k, c in self.consts.items():
            ax.append(self.is_none(c) == (k == 'None'))
        ax.append(z3.Not(self.is_none(self.NOTPASSED)))
        return ax

    def app(self, name, args):
        key = (name, len(args))
        if key not in self.funcs:
            self.funcs[key] = z3.Function('%s/%d' % key, *([Val] * len(args) + [Val])) if args else z3.Const(name + '/0', Val)
        return self.funcs[key](*args) if args else self.funcs[key]

    def comp(self, v, i, n):
        return self.app('component_%d_of_%d' % (i, n), [v])

    def user_kw(self, universe):
        return KW({k: (z3.Bool('has[%s]' % k), z3.Const('user[%s]' % k, Val)) for k in universe})

    def kw_value(self, kw, name):
        if name in kw.entries:
            p, v = kw.entries[name]
            if p is True:
                return v
            if p is False:
                return self.NOTPASSED
            return z3.If(p, v, self.NOTPASSED)
        return self.NOTPASSED

    # ---- resolution of callee names
    def resolve_callee(self, node):
        d = frontend.dotted(node)
        if d is None:
            return None
        if self.oracle:
            parts = d.split('.')
            if len(parts) == 2 and parts[0] in frontend.MODULES:
                m = frontend.module(parts[0])
                if parts[1] in m.functions:
                    return ('repo', parts[0], parts[1])
                if parts[1] in m.assigns:
                    return ('const', parts[0], parts[1])
            return ('other', d)
        r = frontend.resolve(self.mod, d)
        if r[0] == 'repo':
            m = frontend.module(r[1])
            if r[2] in m.functions:
                return r
            if r[2] in m.assigns:
                return ('const', r[1], r[2])
        return ('other', '.'.join(r[1:]) if r[0] == 'lib' else d)

    def canonical_call(self, r, pos, kws, kw_map=None, forced=None):
        """App of repo function r=('repo', m, f) on positional values `pos`, explicit keywords `kws`,
        optionally a filtered **kwargs map (filter_kwargs semantics) and forced keywords (oracle `direct`)."""
        m, f = r[1], r[2]
        fd = frontend.module(m).functions[f]
        names, kwonly, has_kw, has_var = frontend.params(fd)
        names = names + kwonly
        if len(pos) > len(names) and not has_var:
            self.issues.append('too many positional arguments for %s.%s' % (m, f))
        vec = []
        for i, p in enumerate(names):
            if i < len(pos):
                vec.append(pos[i])
                if p in kws:
                    self.issues.append('keyword %s duplicates a positional argument of %s.%s' % (p, m, f))
            elif p in kws:
                vec.append(kws[p])
            elif forced is not None and p in forced:
                vec.append(forced[p])
            elif kw_map is not None:
                vec.append(self.kw_value(kw_map, p))
            else:
                vec.append(self.NOTPASSED)
        for p in kws:
            if p not in names and not has_kw:
                self.issues.append('keyword %s is not a parameter of %s.%s' % (p, m, f))
        if forced:
            for p in forced:
                if p not in names:
                    self.issues.append('forced keyword %s is not a parameter of %s.%s' % (p, m, f))
        if has_kw:
            # the callee takes **kwargs itself: every other keyword reaches it too
            for k in self.universe:
                if k not in names:
                    if k in kws:
                        vec.append(kws[k])
                    elif kw_map is not None:
                        vec.append(self.kw_value(kw_map, k))
                    else:
                        vec.append(self.NOTPASSED)
        return self.app('%s.%s' % (m, f), vec)

    # ---- expressions
    def ev(self, e, path):
        if isinstance(e, ast.Constant):
            return self.const(e.value)
        if isinstance(e, ast.Name):
            if e.id in path.env:
                return path.env[e.id]
            r = self.resolve_callee(e)
            if r and r[0] == 'const':
                return self.const('%s.%s' % (r[1], r[2]))
            if r and r[0] == 'repo':
                return ('fn', r)
            if not self.oracle and e.id in self.mod.assigns:
                return self.const('%s.%s' % (self.task, e.id))
            raise Unsupported('name %s' % e.id)
        if isinstance(e, ast.Tuple):
            return tuple(self.ev(x, path) for x in e.elts)
        if isinstance(e, ast.Dict) and not e.keys:
            return Scores()
        if isinstance(e, ast.UnaryOp) and isinstance(e.op, ast.Not):
            return z3.Not(self.as_bool(self.ev(e.operand, path)))
        if isinstance(e, ast.UnaryOp) and isinstance(e.op, ast.USub) and isinstance(e.operand, ast.Constant):
            return self.const(-e.operand.value)
        if isinstance(e, ast.Attribute):
            r = self.resolve_callee(e)
            if r and r[0] == 'const':
                return self.const('%s.%s' % (r[1], r[2]))
            if r and r[0] == 'repo':
                return ('fn', r)
            base = self.ev(e.value, path)
            return self.app('attr.' + e.attr, [self.val(base)])
        if isinstance(e, ast.Subscript):
            base = self.ev(e.value, path)
            if isinstance(base, KW):
                k = ast.literal_eval(e.slice)
                p, v = base.entries.get(k, (False, self.NOTPASSED))
                if p is not True:
                    self.issues.append('kwargs[%r] read although the key may be absent (KeyError)' % k)
                return v
            if isinstance(base, Scores):
                return base[ast.literal_eval(e.slice)]
            if isinstance(base, tuple):
                return base[ast.literal_eval(e.slice)]
            return self.app('getitem', [self.val(base), self.val(self.ev(e.slice, path))])
        if isinstance(e, ast.Compare) and len(e.ops) == 1:
            op = e.ops[0]
            if isinstance(op, (ast.Is, ast.IsNot)) and isinstance(e.comparators[0], ast.Constant) and e.comparators[0].value is None:
                b = self.is_none(self.val(self.ev(e.left, path)))
                return b if isinstance(op, ast.Is) else z3.Not(b)
            if isinstance(op, (ast.In, ast.NotIn)):
                cont = self.ev(e.comparators[0], path)
                if isinstance(cont, KW) and isinstance(e.left, ast.Constant):
                    p = cont.entries.get(e.left.value, (False, None))[0]
                    p = z3.BoolVal(p) if isinstance(p, bool) else p
                    return p if isinstance(op, ast.In) else z3.Not(p)
            # any other comparison of value terms: an uninterpreted predicate of the two terms
            a = self.val(self.ev(e.left, path))
            b = self.val(self.ev(e.comparators[0], path))
            pred = z3.Function('cmp.' + type(op).__name__, Val, Val, z3.BoolSort())
            return pred(a, b)
        if isinstance(e, ast.BoolOp):
            vs = [self.as_bool(self.ev(x, path)) for x in e.values]
            return z3.And(*vs) if isinstance(e.op, ast.And) else z3.Or(*vs)
        if isinstance(e, ast.Call):
            return self.call(e, path)
        raise Unsupported('expression %s' % ast.unparse(e))

    def as_bool(self, v):
        if isinstance(v, z3.BoolRef):
            return v
        if isinstance(v, z3.ExprRef) and v.sort() == Val:
            return z3.Function('truth', Val, z3.BoolSort())(v)          # Python truthiness of a value: an uninterpreted predicate of the term
        raise Unsupported('truth value of a non-boolean term')

    def val(self, v):
        if isinstance(v, z3.ExprRef) and v.sort() == Val:
            return v
        if isinstance(v, tuple) and all(isinstance(x, z3.ExprRef) for x in v):
            return self.app('tuple%d' % len(v), list(v))
        raise Unsupported('not a value term: %r' % (v,))

    def call(self, e, path):
        d = frontend.dotted(e.func)
        # special forms
        if d in ('collections.OrderedDict', 'dict', 'OrderedDict') and not e.args:
            return Scores()
        if isinstance(e.func, ast.Attribute) and isinstance(e.func.value, ast.Name) and isinstance(path.env.get(e.func.value.id), KW):
            kw = path.env[e.func.value.id]
            if e.func.attr == 'setdefault':
                k = ast.literal_eval(e.args[0])
                dv = self.val(self.ev(e.args[1], path))
                p, v = kw.entries.get(k, (False, self.NOTPASSED))
                if p is True:
                    newv = v
                elif p is False:
                    newv = dv
                else:
                    newv = z3.If(p, v, dv)
                kw.entries[k] = (True, newv)
                return newv
            if e.func.attr in ('get', 'pop') and e.args:
                k = ast.literal_eval(e.args[0])
                dv = self.val(self.ev(e.args[1], path)) if len(e.args) > 1 else self.const(None)
                p, v = kw.entries.get(k, (False, self.NOTPASSED))
                if e.func.attr == 'pop':
                    if len(e.args) == 1 and p is not True:
                        self.issues.append('kwargs.pop(%r) although the key may be absent (KeyError)' % k)
                    kw.entries[k] = (False, self.NOTPASSED)
                if p is True:
                    return v
                if p is False:
                    return dv
                return z3.If(p, v, dv)
            raise Unsupported('kwargs.%s' % e.func.attr)
        if self.oracle and d == 'user':
            k = ast.literal_eval(e.args[0])
            dv = self.val(self.ev(e.args[1], path))
            p, v = path.env['__K__'].entries[k]
            return z3.If(p, v, dv)
        if self.oracle and d == 'is_none':
            return self.is_none(self.val(self.ev(e.args[0], path)))
        if self.oracle and d == 'direct':
            r = self.resolve_callee(e.args[0])
            if not r or r[0] != 'repo':
                raise Unsupported('direct() of a non-repository function')
            pos = [self.val(self.ev(a, path)) for a in e.args[1:]]
            forced = {k.arg: self.val(self.ev(k.value, path)) for k in e.keywords}
            return self.canonical_call(r, pos, {}, kw_map=path.env['__K__'], forced=forced)
        r = self.resolve_callee(e.func)
        star = [k for k in e.keywords if k.arg is None]
        kws = {k.arg: self.val(self.ev(k.value, path)) for k in e.keywords if k.arg is not None}
        if r and r[0] == 'repo' and (r[1], r[2]) == ('util', 'filter_kwargs'):
            tgt = self.ev(e.args[0], path)
            if not (isinstance(tgt, tuple) and tgt[0] == 'fn'):
                raise Unsupported('filter_kwargs of a computed function')
            pos = [self.val(self.ev(a, path)) for a in e.args[1:]]
            kw_map = None
            if star:
                m = self.ev(star[0].value, path)
                if not isinstance(m, KW):
                    raise Unsupported('** of a non-kwargs value')
                kw_map = m
                for k in kws:
                    p = m.entries.get(k, (False, None))[0]
                    if p is not False:
                        self.issues.append('keyword %s is passed explicitly and may also be in **kwargs (TypeError)' % k)
            return self.canonical_call(tgt[1], pos, kws, kw_map=kw_map)
        if star:
            raise Unsupported('**kwargs passed to something else than util.filter_kwargs')
        if r and r[0] == 'repo':
            pos = [self.val(self.ev(a, path)) for a in e.args]
            return self.canonical_call(r, pos, kws)
        # method call / builtin / library call: uninterpreted by name
        if isinstance(e.func, ast.Attribute) and (r is None or r[0] == 'other') and not (d and d.split('.')[0] in self.mod.imports and not self.oracle) \
                and not (self.oracle and d and d.split('.')[0] in ('numpy', 'warnings')):
            recv = self.ev(e.func.value, path)
            if isinstance(recv, z3.ExprRef):
                args = [self.val(recv)] + [self.val(self.ev(a, path)) for a in e.args]
                return self.app('method.' + e.func.attr, args + [kws[k] for k in sorted(kws)])
        name = r[1] if r else d
        args = [self.val(self.ev(a, path)) for a in e.args]
        return self.app('call.' + str(name) + ''.join('.' + k for k in sorted(kws)), args + [kws[k] for k in sorted(kws)])

    # ---- statements
    def run(self, stmts, paths):
        for s in stmts:
            nxt = []
            for p in paths:
                if p.env.get('__ret__') is not None:
                    nxt.append(p)
                else:
                    nxt.extend(self.ex(s, p))
            paths = nxt
        return paths

    def assign(self, tg, v, path):
        if isinstance(tg, ast.Name):
            path.env[tg.id] = v
        elif isinstance(tg, (ast.Tuple, ast.List)):
            n = len(tg.elts)
            if isinstance(v, tuple):
                if len(v) != n:
                    raise Unsupported('unpack arity')
                items = list(v)
            else:
                items = [self.comp(self.val(v), i, n) for i in range(n)]
            for t, x in zip(tg.elts, items):
                self.assign(t, x, path)
        elif isinstance(tg, ast.Subscript):
            base = self.ev(tg.value, path)
            k = ast.literal_eval(tg.slice)
            if isinstance(base, KW):
                base.entries[k] = (True, self.val(v))
            elif isinstance(base, Scores):
                base[k] = self.val(v)
            else:
                raise Unsupported('subscript store')
        else:
            raise Unsupported('assignment target')

    def ex(self, s, path):
        if isinstance(s, ast.Expr):
            if not isinstance(s.value, ast.Constant):
                self.ev(s.value, path)
            return [path]
        if isinstance(s, ast.Assign):
            v = self.ev(s.value, path)
            for t in s.targets:
                self.assign(t, v, path)
            return [path]
        if isinstance(s, ast.Return):
            path.env['__ret__'] = self.ev(s.value, path)
            return [path]
        if isinstance(s, ast.If):
            c = z3.simplify(self.as_bool(self.ev(s.test, path)))
            outs = []
            for truth, body in ((True, s.body), (False, s.orelse)):
                cond = c if truth else z3.Not(c)
                sol = z3.Solver()
                sol.add(*self.axioms(), *path.pc, cond)
                if sol.check() == z3.unsat:
                    continue
                q = path.fork()
                q.pc.append(cond)
                outs.extend(self.run(body, [q]))
            return outs
        if isinstance(s, ast.Delete):
            for t in s.targets:
                if isinstance(t, ast.Subscript):
                    base = self.ev(t.value, path)
                    k = ast.literal_eval(t.slice)
                    if isinstance(base, KW):
                        if base.entries.get(k, (False, None))[0] is not True:
                            self.issues.append('del kwargs[%r] although the key may be absent (KeyError)' % k)
                        base.entries[k] = (False, self.NOTPASSED)
                        continue
                raise Unsupported('del of something else than a kwargs entry')
            return [path]
        if isinstance(s, ast.Pass):
            return [path]
        raise Unsupported('statement %s' % type(s).__name__)


# keyword-forwarding functions other than evaluate() that are checked against their documented composition (oracle `<task>_<fn>`)
FN_TARGETS = {('multipitch', 'metrics'): ['C03', 'C18', 'C05', 'C04', 'C07']}


def universe_for(task, fn='evaluate'):
    """keyword names that matter: parameters of every repository function mentioned in evaluate() / the oracle,
    every literal key of kwargs, plus one unrelated name"""
    names = set()
    mod = frontend.module(task)
    fd = mod.functions[fn]
    oracle = oracle_def(task if fn == 'evaluate' else '%s_%s' % (task, fn))
    for tree, is_oracle in ((fd, False), (oracle, True)):
        for n in ast.walk(tree):
            d = frontend.dotted(n) if isinstance(n, (ast.Name, ast.Attribute)) else None
            if d:
                if is_oracle:
                    parts = d.split('.')
                    r = ('repo', parts[0], parts[1]) if len(parts) == 2 and parts[0] in frontend.MODULES else None
                else:
                    r = frontend.resolve(mod, d)
                if r and r[0] == 'repo' and r[2] in frontend.module(r[1]).functions:
                    ps = frontend.params(frontend.module(r[1]).functions[r[2]])
                    names |= set(ps[0]) | set(ps[1])
            if isinstance(n, ast.Subscript) and isinstance(n.value, ast.Name) and n.value.id == 'kwargs' and isinstance(n.slice, ast.Constant):
                names.add(n.slice.value)
            if isinstance(n, ast.Call) and frontend.dotted(n.func) in ('kwargs.setdefault', 'user') and n.args and isinstance(n.args[0], ast.Constant):
                names.add(n.args[0].value)
            if isinstance(n, ast.Compare) and isinstance(n.left, ast.Constant) and isinstance(n.left.value, str):
                names.add(n.left.value)
    pos, _, _, _ = frontend.params(fd)
    names -= set(pos)
    if fn != 'evaluate':
        # keywords the documented composition fixes itself (direct(f, ..., chroma=True)) are not the caller's to give: passing one is a
        # TypeError of the real function (duplicate keyword) and outside the statement
        for n in ast.walk(oracle):
            if isinstance(n, ast.Call) and frontend.dotted(n.func) == 'direct':
                names -= {k.arg for k in n.keywords if k.arg}
    names.discard('_function')
    names.add(OTHER)
    return sorted(names)


_oracle_tree = None


def oracle_tree():
    global _oracle_tree
    if _oracle_tree is None:
        _oracle_tree = ast.parse(open(os.path.join(HERE, 'contracts', '_bundles.py')).read())
    return _oracle_tree


def oracle_def(task):
    for n in oracle_tree().body:
        if isinstance(n, ast.FunctionDef) and n.name == task:
            return n
    raise KeyError(task)


def oracle_arity():
    for n in oracle_tree().body:
        if isinstance(n, ast.Assign) and n.targets[0].id == 'ARITY':
            return ast.literal_eval(n.value)


def analyse(task, fn='evaluate'):
    """-> list of obligation dicts for task.evaluate (or another keyword-forwarding function `fn` of the module, whose oracle is
    `<task>_<fn>` in contracts/_bundles.py and whose result may be a tuple)"""
    t0 = time.time()
    mod = frontend.module(task)
    fd = mod.functions[fn]
    pos, kwonly, has_kw, _ = frontend.params(fd)
    if not has_kw:
        raise Unsupported('%s() of %s has no **kwargs' % (fn, task))
    uni = universe_for(task, fn)
    it = Interp(task, uni)
    K = it.user_kw(uni)
    env = {p: z3.Const('in[%s]' % p, Val) for p in pos}
    # keyword-named parameters of evaluate itself (melody: est_voicing / ref_reward) are plain inputs
    impl_env = dict(env)
    impl_env[fd.args.kwarg.arg] = K.copy()
    impl_paths = it.run(frontend.docstring_stripped(fd), [Path([], impl_env)])
    impl_issues = list(it.issues)
    it.issues = []
    it.oracle = True
    od = oracle_def(task if fn == 'evaluate' else '%s_%s' % (task, fn))
    o_env = {}
    o_pos = [a.arg for a in od.args.args]
    if o_pos != pos:
        raise Unsupported('oracle signature %s differs from evaluate%s' % (o_pos, pos))
    o_env.update(env)
    o_env['__K__'] = K.copy()
    o_paths = it.run(od.body, [Path([], o_env)])
    if it.issues:
        raise Unsupported('oracle issues: %s' % it.issues)
    ax = it.axioms()
    obs = []

    def ob(oid, kind, label, hyps, goal, note=''):
        s = z3.Solver()
        s.set('timeout', 10000)
        s.add(*ax, *hyps, z3.Not(goal))
        ts = time.time()
        r = s.check()
        verdict = 'discharged' if r == z3.unsat else ('refuted' if r == z3.sat else 'unknown')
        model = None
        if r == z3.sat:
            m = s.model()
            model = {'given_keywords': sorted(k for k in uni if z3.is_true(m.eval(K.entries[k][0], model_completion=True))),
                     'user_value_is_None': sorted(k for k in uni if z3.is_true(m.eval(it.is_none(K.entries[k][1]), model_completion=True)))}
        obs.append(dict(id=oid, kind=kind, label=label, props=FN_TARGETS.get((task, fn)) or {'separation': ['C19', 'C03'], 'hierarchy': ['C03', 'C17']}.get(task, ['C03']), line=fd.lineno, note=note, expect='unsat',
                        verdict=verdict, backend='z3', time=round(time.time() - ts, 4), model=model, goal=str(goal)[:600], finding=None))

    for msg in impl_issues:
        obs.append(dict(id='%s.%s#safe:kwargs' % (task, fn), kind='safe', label='kwargs', props=['C03', 'C14'], line=fd.lineno,
                        note=msg, expect='unsat', verdict='refuted', backend='pyvc', time=0.0, model=None, goal=msg, finding=None))
    if fn != 'evaluate':
        # a tuple-valued function: component i of the result is component i of the documented composition, on every pair of paths
        for pi_ in impl_paths:
            ret_i = pi_.env.get('__ret__')
            for po in o_paths:
                ret_o = po.env['__ret__']
                hyps = pi_.pc + po.pc
                s = z3.Solver()
                s.add(*ax, *hyps)
                if s.check() == z3.unsat:
                    continue
                same = isinstance(ret_i, tuple) and isinstance(ret_o, tuple) and len(ret_i) == len(ret_o)
                ob('%s.%s#keys:arity' % (task, fn), 'keys', 'arity', hyps, z3.BoolVal(same), note='' if same else 'result shape differs from the documented one')
                if same:
                    for k, (a_, b_) in enumerate(zip(ret_i, ret_o)):
                        ob('%s.%s#route:%d' % (task, fn, k), 'route', str(k), hyps, a_ == b_, note='component %d of the result is not the documented composition' % k)
        return obs, dict(universe=uni, impl_paths=len(impl_paths), oracle_paths=len(o_paths), wall=round(time.time() - t0, 3))
    all_keys = []
    for po in o_paths:
        for k in po.env['__ret__']:
            if k not in all_keys:
                all_keys.append(k)
    for pi_ in impl_paths:
        ret_i = pi_.env.get('__ret__')
        if not isinstance(ret_i, Scores):
            raise Unsupported('evaluate() does not return its scores dict on some path')
        for k in ret_i:
            if k not in all_keys:
                all_keys.append(k)
    for ii, pi_ in enumerate(impl_paths):
        ret_i = pi_.env['__ret__']
        for oi, po in enumerate(o_paths):
            ret_o = po.env['__ret__']
            hyps = pi_.pc + po.pc
            s = z3.Solver()
            s.add(*ax, *hyps)
            if s.check() == z3.unsat:
                continue
            # key sets (insertion order included)
            same_keys = list(ret_i) == list(ret_o)
            ob('%s.evaluate#keys:set' % task, 'keys', 'set', hyps, z3.BoolVal(same_keys),
               note='' if same_keys else 'returned keys %s, documented %s' % (sorted(set(ret_i) ^ set(ret_o)), list(ret_o)))
            for k in ret_o:
                if k in ret_i:
                    ob('%s.evaluate#route:%s' % (task, k), 'route', k, hyps, ret_i[k] == ret_o[k],
                       note='value stored under %r is not the documented direct call' % k)
    return obs, dict(universe=uni, impl_paths=len(impl_paths), oracle_paths=len(o_paths), wall=round(time.time() - t0, 3))


# ----------------------------------------------------------------------------- arity of metric functions (AST)
def return_shapes(qual, seen=None):
    """set of shapes over all `return` statements: ('tuple', k) | ('nontuple',) | ('unknown', text)"""
    seen = seen or set()
    if qual in seen:
        return set()
    seen.add(qual)
    m, fd = frontend.function(qual)
    shapes = []

    class V(ast.NodeVisitor):
        def visit_FunctionDef(self, node):
            if node is fd:
                self.generic_visit(node)

        def visit_Lambda(self, node):
            pass

        def visit_Return(self, node):
            shapes.append((node, node.value))
    V().visit(fd)
    out = set()
    for node, v in shapes:
        out |= {(s, node.lineno) for s in shape_of(v, m, fd, seen)}
    return out


def shape_of(v, m, fd, seen):
    if v is None:
        return {('nontuple',)}
    if isinstance(v, ast.Tuple):
        return {('tuple', len(v.elts))}
    if isinstance(v, ast.Call):
        d = frontend.dotted(v.func)
        if d:
            r = frontend.resolve(m, d)
            if r[0] == 'repo' and r[2] in frontend.module(r[1]).functions:
                if (r[1], r[2]) == ('util', 'filter_kwargs'):
                    d2 = frontend.dotted(v.args[0])
                    r2 = frontend.resolve(m, d2) if d2 else None
                    if r2 and r2[0] == 'repo':
                        return {s for s, _ in return_shapes('%s.%s' % (r2[1], r2[2]), seen)}
                return {s for s, _ in return_shapes('%s.%s' % (r[1], r[2]), seen)}
        return {('nontuple',)}
    if isinstance(v, ast.Name):
        # a local bound once to a tuple display / list comprehension keeps that shape
        assigns = [n for n in ast.walk(fd) if isinstance(n, ast.Assign) and any(isinstance(t, ast.Name) and t.id == v.id for t in n.targets)]
        if assigns and all(isinstance(a.value, ast.Tuple) for a in assigns):
            return {('tuple', len(a.value.elts)) for a in assigns}
        return {('nontuple',)}
    if isinstance(v, ast.ListComp):
        return {('list',)}
    if isinstance(v, ast.IfExp):
        return shape_of(v.body, m, fd, seen) | shape_of(v.orelse, m, fd, seen)
    return {('nontuple',)}


def arity_obligations():
    obs = []
    ar = oracle_arity()
    for qual, k in sorted(ar.items()):
        try:
            shapes = return_shapes(qual)
        except KeyError:
            obs.append(dict(id='%s#arity:returns' % qual, kind='arity', label='returns', props=['C19'] if qual.startswith('separation.') else ['C03'], line=None,
                            note='function not found', expect='unsat', verdict='unbound', backend='ast', time=0.0, model=None,
                            goal='', finding=None))
            continue
        want = ('nontuple',) if k is None else ('tuple', k)
        props = ['C19'] if qual.startswith('separation.') else ['C03']
        for shape, line in sorted(shapes, key=lambda x: x[1]):
            ok = shape == want or (shape == ('list',) and k is not None)
            obs.append(dict(id='%s#arity:return' % qual, kind='arity', label='return', props=list(props), line=line,
                            note='' if ok else 'return at line %d has shape %s, documented %s' % (line, shape, want),
                            expect='unsat', verdict='discharged' if ok else 'refuted', backend='ast', time=0.0, model=None,
                            goal='every return of %s has shape %s' % (qual, want), finding=None))
    return obs


# ----------------------------------------------------------------------------- native differential replay
def native_oracle(task):
    """compile the oracle function for native execution against the real package"""
    from .. import native
    mir_eval = native.import_repo()
    import importlib
    od = oracle_def(task)
    import copy
    od2 = copy.deepcopy(od)
    od2.name = '_oracle'
    modtree = ast.Module(body=[od2], type_ignores=[])
    ast.fix_missing_locations(modtree)
    g = {m: importlib.import_module('mir_eval.' + m) for m in frontend.MODULES}
    state = {'K': {}}

    def direct(f, *args, **forced):
        import inspect
        names = list(inspect.signature(f).parameters)
        has_kw = any(p.kind == p.VAR_KEYWORD for p in inspect.signature(f).parameters.values())
        kw = {k: v for k, v in state['K'].items() if (k in names or has_kw) and k not in forced}
        kw.update(forced)
        return f(*args, **kw)
    g.update(direct=direct, user=lambda k, d: state['K'].get(k, d), is_none=lambda x: x is None)
    exec(compile(modtree, '_bundles.py', 'exec'), g)
    return g['_oracle'], state, importlib.import_module('mir_eval.' + task).evaluate


def close(a, b):
    import numpy as np
    try:
        if isinstance(a, (tuple, list)) or isinstance(b, (tuple, list)):
            return type(a) is type(b) and len(a) == len(b) and all(close(x, y) for x, y in zip(a, b))
        a, b = float(a), float(b)
        return (a != a and b != b) or abs(a - b) <= 1e-9 * max(1.0, abs(a), abs(b))
    except Exception:
        return False


def differential(task, kw_sets, seed=0, n_inputs=6):
    """run evaluate(**K) against the oracle natively on pool inputs; returns list of disagreements"""
    from .. import pools
    oracle, state, evaluate = native_oracle(task)
    bad = []
    n = 0
    for inp in pools.inputs(task, seed, n_inputs):
        for K in kw_sets:
            state['K'] = dict(K)
            with warnings.catch_warnings():
                warnings.simplefilter('ignore')
                try:
                    want = oracle(*pools.copy_inputs(inp))
                except Exception as ex:
                    want = ('raise', type(ex).__name__)
                try:
                    got = evaluate(*pools.copy_inputs(inp), **dict(K))
                except Exception as ex:
                    got = ('raise', type(ex).__name__)
            n += 1
            if isinstance(want, tuple) or isinstance(got, tuple):
                if want != got:
                    bad.append(dict(inputs=pools.describe(inp) if task != 'separation' else '<signals>', kwargs=K, evaluate=repr(got)[:200], documented=repr(want)[:200]))
                continue
            if list(want) != list(got):
                bad.append(dict(inputs=pools.describe(inp), kwargs=K, evaluate='keys %s' % list(got), documented='keys %s' % list(want)))
                continue
            for k in want:
                import numpy as np
                if task == 'separation':
                    same = isinstance(got[k], list) and np.shape(got[k]) == np.shape(want[k]) and \
                        np.allclose(np.array(got[k], dtype=float), np.array(want[k], dtype=float), equal_nan=True)
                    if not same:
                        bad.append(dict(inputs='<signals>', kwargs=K, key=k, evaluate=repr(got[k])[:120], documented=repr(want[k])[:120]))
                        break
                    continue
                scalar = isinstance(got[k], (int, float, bool, np.floating, np.integer, np.bool_))
                if not scalar or not close(want[k], got[k]):
                    bad.append(dict(inputs=pools.describe(inp), kwargs=K, key=k, evaluate=repr(got[k])[:120], documented=repr(want[k])[:120]))
                    break
    return bad, n


def kw_sets_for(task, model=None):
    from .. import pools
    table = pools.KW_VALUES.get(task, {})
    sets = [{}]
    for k, vals in table.items():
        for v in vals:
            sets.append({k: v})
    if model:
        K = {}
        for k in model.get('given_keywords', []):
            if k in table:
                K[k] = None if k in model.get('user_value_is_None', []) and None in table[k] else [v for v in table[k] if v is not None][0]
        if K not in sets:
            sets.insert(0, K)
    sets.append({'some_unrelated_keyword': 1})
    return sets


def replay(rec):
    task = rec['target'].split('.')[0]
    sets = kw_sets_for(task, rec.get('inputs'))
    bad, n = differential(task, sets, seed=0, n_inputs=8)
    if bad:
        return True, 'evaluate() disagrees with the documented bundle on %d of %d native cases, e.g. %s' % (len(bad), n, bad[0])
    return False, 'no disagreement on %d native cases (no-failing-input-found)' % n


def run(prop, tier, seed, known):
    results = []
    bounded = []
    # C03: every task; other properties claim one task's evaluate() routing (and the keyword filter it goes through)
    tasks = TASKS if prop == 'C03' else {'C19': ['separation'], 'C17': ['hierarchy']}.get(prop, [])
    for task in tasks:
        t0 = time.time()
        try:
            obs, info = analyse(task)
            status, detail = 'ok', ''
        except Unsupported as ex:
            obs, info, status, detail = [], {}, 'out-of-subset', str(ex)
        except Exception:
            obs, info, status, detail = [], {}, 'error', traceback.format_exc()
        for o in obs:
            if o['verdict'] == 'refuted':
                # native differential replay of the routing failure
                try:
                    bad, n = differential(task, kw_sets_for(task, o.get('model')), seed, 6)
                    o['native'] = dict(confirmed=bool(bad), cases=n, example=bad[0] if bad else None)
                    if bad:
                        o['model'] = dict(o.get('model') or {}, example=bad[0])
                except Exception as ex:
                    o['native'] = dict(confirmed=False, detail='native replay crashed: %s' % ex)
        results.append(dict(kind='engine', engine='bundles', name='%s.evaluate' % task, status=status, detail=detail, paths=info.get('impl_paths', 0),
                            obligations=obs, inlined=[], used_contracts=[], gen_time=0, wall=round(time.time() - t0, 3), lib_used=[],
                            props=[prop]))
    for (task, fn), props_ in FN_TARGETS.items():
        if prop not in props_:
            continue
        t0 = time.time()
        try:
            obs, info = analyse(task, fn)
            status, detail = 'ok', ''
        except Unsupported as ex:
            obs, info, status, detail = [], {}, 'out-of-subset', str(ex)
        except Exception:
            obs, info, status, detail = [], {}, 'error', traceback.format_exc()
        results.append(dict(kind='engine', engine='bundles', name='%s.%s' % (task, fn), status=status, detail=detail, paths=info.get('impl_paths', 0),
                            obligations=obs, inlined=[], used_contracts=[], gen_time=0, wall=round(time.time() - t0, 3), lib_used=[], props=[prop]))
    if prop not in ('C03', 'C19', 'C17'):
        return dict(results=results, bounded=bounded)
    ar = arity_obligations()
    results.append(dict(kind='engine', engine='bundles', name='metric-function result arity', status='ok', detail='', paths=0, obligations=ar,
                        inlined=[], used_contracts=[], gen_time=0, wall=0, lib_used=[], props=['C03']))
    # bounded stand-ins: (1) conformance of the filter_kwargs model, (2) native differential of every bundle
    from . import bundles_bounded
    bounded.extend(bundles_bounded.run(tier, seed, results, tasks, prop))
    return dict(results=results, bounded=bounded)
