"""Bounded stand-ins that accompany E4 (never counted as proved):

1. conformance of the filter_kwargs contract used by E4 with the real util.filter_kwargs / util.has_kwargs on
   every subset of a small keyword universe and four callee shapes (exhaustive for that scope);
2. native differential run of every evaluate() against the executable bundle oracle on the small input pools.
"""
import itertools
import time
import warnings


def filter_kwargs_conformance():
    from .. import native
    mir_eval = native.import_repo()
    from mir_eval import util
    seen = {}

    def f_plain(a, b, p=1, q=2):
        return ('plain', a, b, p, q)

    def f_kwonly(a, b, p=1, *, q=2):
        return ('kwonly', a, b, p, q)

    def f_star(a, b, p=1, **kw):
        return ('star', a, b, p, tuple(sorted(kw.items())))

    def f_none(a, b):
        return ('none', a, b)
    # callees that share a __name__ but not a signature (as onset.f_measure / beat.f_measure do)
    def same_name_a(a, b, p=1):
        return ('A', a, b, p)

    def same_name_b(a, b, q=2):
        return ('B', a, b, q)
    same_name_b.__name__ = same_name_a.__name__ = 'same_name'
    same_name_b.__qualname__ = same_name_a.__qualname__ = 'same_name'
    @util.deprecated(version='0', version_removed='1')
    def f_decorated(a, b, p=1, q=2):
        return ('decorated', a, b, p, q)
    keys = ['p', 'q', 'zzz', 'kw']
    n = 0
    failures = []
    for f in (f_plain, f_kwonly, f_star, f_none, same_name_a, same_name_b, same_name_a, f_decorated):
        import inspect
        sig = inspect.signature(f)
        names = [k for k, p in sig.parameters.items() if p.kind in (p.POSITIONAL_ONLY, p.POSITIONAL_OR_KEYWORD)]
        has_kw = any(p.kind == p.VAR_KEYWORD for p in sig.parameters.values())
        if util.has_kwargs(f) != has_kw:
            failures.append('has_kwargs(%s) = %s' % (f.__name__, util.has_kwargs(f)))
        for r in range(len(keys) + 1):
            for sub in itertools.combinations(keys, r):
                # truthy values, and values that are false in a boolean context (an explicit False / 0 / None is still passed on)
                falsy = [False, 0, None, 0.0]
                for K in [{k: 10 + i for i, k in enumerate(sub)}] + [{k: falsy[(i + rot) % 4] for i, k in enumerate(sub)} for rot in range(4)]:
                    want = f(1, 2, **(K if has_kw else {k: v for k, v in K.items() if k in names}))
                    try:
                        got = util.filter_kwargs(f, 1, 2, **K)
                    except Exception as ex:
                        got = ('raise', type(ex).__name__)
                    n += 1
                    if repr(got) != repr(want):
                        failures.append('filter_kwargs(%s, 1, 2, **%s) = %r, contract says %r' % (f.__name__, K, got, want))
    return n, failures


def run(tier, seed, results, tasks=None, prop='C03'):
    out = []
    t0 = time.time()
    n, failures = filter_kwargs_conformance()
    out.append(dict(name='util.filter_kwargs / has_kwargs conform to the contract E4 assumes', bound='7 callees (4 shapes, 2 sharing a __name__, 1 wrapped by @util.deprecated) x all 16 subsets of 4 keyword names x {truthy, four rotations of False / 0 / None / 0.0} values, called in sequence in one process',
                    cases=n, exhaustive=True, failures=failures[:5], wall_s=round(time.time() - t0, 2)))
    if failures:
        results.append(dict(kind='engine', engine='bundles', name='util.filter_kwargs', status='ok', detail='', paths=0, inlined=[], used_contracts=[],
                            gen_time=0, wall=0, lib_used=[], props=[prop],
                            obligations=[dict(id='util.filter_kwargs#bounded:contract', kind='bounded', label='contract', props=[prop], line=None,
                                              note=failures[0], expect='unsat', verdict='refuted', backend='native-exhaustive', time=0.0,
                                              model={'example': failures[0]}, goal='filter_kwargs passes exactly the accepted keywords',
                                              native=dict(confirmed=True, example=failures[0]), finding=None)]))
    from . import bundles
    n_inputs = 4 if tier == 'quick' else 12
    for task in (tasks or bundles.TASKS):
        t1 = time.time()
        try:
            bad, cases = bundles.differential(task, bundles.kw_sets_for(task), seed, n_inputs)
        except Exception as ex:
            out.append(dict(name='%s.evaluate vs executable bundle oracle' % task, bound='%d pool inputs' % n_inputs, cases=0, exhaustive=False,
                            failures=['harness error: %s' % str(ex)[:200]], wall_s=round(time.time() - t1, 2)))
            continue
        out.append(dict(name='%s.evaluate vs executable bundle oracle (native)' % task,
                        bound='%d pool inputs x %d keyword sets (each keyword alone, none, one unrelated)' % (n_inputs, len(bundles.kw_sets_for(task))),
                        cases=cases, exhaustive=False, failures=bad[:3], wall_s=round(time.time() - t1, 2)))
        if bad:
            results.append(dict(kind='engine', engine='bundles', name='%s.evaluate' % task, status='ok', detail='', paths=0, inlined=[], used_contracts=[],
                                gen_time=0, wall=0, lib_used=[], props=[prop],
                                obligations=[dict(id='%s.evaluate#bounded:differential' % task, kind='bounded', label='differential', props=[prop],
                                                  line=None, note=str(bad[0])[:300], expect='unsat', verdict='refuted', backend='native', time=0.0,
                                                  model={'example': bad[0]}, goal='evaluate() equals the documented bundle natively',
                                                  native=dict(confirmed=True, example=bad[0]), finding=None)]))
    return out
