"""Bounded stand-in for the chord.evaluate part of C12: every accuracy equals the duration-weighted mean of the per-label
comparison over the reference span (estimate = 'N' where it is silent), computed here cell by cell on a 1/4 lattice without any
of the library's interval helpers; and cutting a reference or estimated interval into two pieces with the same label changes no
score (accuracies and over/under-segmentation)."""
import random
import time
import warnings

RULES = ['thirds', 'thirds_inv', 'triads', 'triads_inv', 'tetrads', 'tetrads_inv', 'root', 'mirex', 'majmin', 'majmin_inv', 'sevenths', 'sevenths_inv']
LABELS = ['C:maj', 'G:maj', 'A:min/b3', 'F:maj/5', 'N', 'C:7', 'D:min7', 'G:maj', 'E:sus4', 'Bb:maj7/3', 'X', 'A:min', 'C:maj', 'B:min']


def annotation(rng, start, end):
    cuts = sorted(rng.sample([start + 0.25 * k for k in range(1, int((end - start) / 0.25))], rng.randint(0, 3)))
    b = [start] + cuts + [end]
    iv = [[b[i], b[i + 1]] for i in range(len(b) - 1)]
    labs = []
    for _ in iv:
        l = rng.choice(LABELS)
        labs.append(l)
    return iv, labs


SHARP = ['C', 'C#', 'D', 'D#', 'E', 'F', 'F#', 'G', 'G#', 'A', 'A#', 'B']
PC = {'C': 0, 'D': 2, 'E': 4, 'F': 5, 'G': 7, 'A': 9, 'B': 11}


def transpose(label, t):
    if label in ('N', 'X'):
        return label
    root = label.split(':')[0].split('/')[0]
    rest = label[len(root):]
    pc = (PC[root[0]] + root.count('#') - root.count('b') + t) % 12
    return SHARP[pc] + rest


def label_at(iv, labs, t):
    for (s, e), l in zip(iv, labs):
        if s <= t < e:
            return l
    return 'N'


def run(prop, tier, seed, known):
    from .. import native
    native.import_repo()
    import numpy as np
    from mir_eval import chord
    rng = random.Random(seed)
    from ._tag import Fails
    fails = Fails(prop, (('time shift', ('C08',)), ('joint transposition', ('C09',)), ('swap of reference', ('C06',)), ('duration-weighted mean', ('C12', 'C04')),
                         ('is cut at', ('C12',)), ('raised', ('C14', 'C12', 'C13')), ('perfect', ('C02',))))
    n = 0
    t0 = time.time()
    cache = {}

    def cmp(rule, a, b):
        if (rule, a, b) not in cache:
            cache[(rule, a, b)] = float(getattr(chord, rule)([a], [b])[0])
        return cache[(rule, a, b)]

    def definition(ri, rl, ei, el):
        out = {}
        r0, r1 = ri[0][0], ri[-1][1]
        cells = [r0 + 0.125 * k for k in range(int(round((r1 - r0) / 0.125)))]
        for rule in RULES:
            num = den = 0.0
            for t in cells:
                ref_l = label_at(ri, rl, t + 0.0625)
                # time where the reference is 'X' is outside every rule's vocabulary by definition (not asked of the library)
                c = -1.0 if ref_l == 'X' else cmp(rule, ref_l, label_at(ei, el, t + 0.0625))
                if c >= 0:
                    num += 0.125 * c
                    den += 0.125
            out[rule] = num / den if den > 0 else 0.0
        return out

    def split(iv, labs):
        cand = [j for j, (s, e) in enumerate(iv) if e - s >= 0.5]
        if not cand:
            return None
        j = rng.choice(cand)
        s, e = iv[j]
        cut = s + 0.25 * rng.randint(1, int(round((e - s) / 0.25)) - 1)
        return iv[:j] + [[s, cut], [cut, e]] + iv[j + 1:], labs[:j] + [labs[j], labs[j]] + labs[j + 1:], (s, e, cut, labs[j])
    with warnings.catch_warnings():
        warnings.simplefilter('ignore')
        for it in range(40 if tier == 'quick' else 500):
            r0 = rng.choice([0.0, 0.0, 1.0, 0.5])
            r1 = r0 + rng.choice([2.0, 3.0, 4.5])
            e0 = rng.choice([0.0, r0, max(0.0, r0 - 0.5), r0 + 0.25])
            e1 = rng.choice([r1, r1 + 0.5, r1 - 0.5, r1])
            if e1 - e0 < 0.5:
                continue
            ri, rl = annotation(rng, r0, r1)
            ei, el = annotation(rng, e0, e1)
            if rng.random() < 0.3:        # neighbouring intervals with the same (non-C) label
                k = rng.randrange(len(rl))
                rl = [rl[k] if abs(j - k) <= 1 else l for j, l in enumerate(rl)]
            n += 1
            try:
                got = chord.evaluate(np.array(ri), rl, np.array(ei), el)
            except Exception as ex:
                fails.append('chord.evaluate raised %s on a valid input: ref %s %s est %s %s' % (type(ex).__name__, ri, rl, ei, el))
                try:
                    chord.evaluate(np.array(ri) + 1.0, rl, np.array(ei) + 1.0, el)
                    fails.append('chord.evaluate changes under a common time shift of 1.0: it raises %s at this origin and returns scores after the shift (ref %s %s, est %s %s)'
                                 % (type(ex).__name__, ri, rl, ei, el))
                except Exception:
                    pass
                continue
            want = definition(ri, rl, ei, el)
            for rule in RULES:
                if abs(got[rule] - want[rule]) > 1e-9:
                    fails.append('chord.evaluate[%r] = %r, the duration-weighted mean over the reference span is %r (ref %s %s, est %s %s)'
                                 % (rule, float(got[rule]), want[rule], ri, rl, ei, el))
                    break
            # C08: a common time offset changes no score; C09: neither does a joint transposition of every label; C06: exchanging the two
            # annotations exchanges over- and under-segmentation and keeps seg (evaluated on annotations covering the same span)
            d = rng.choice([0.25, 1.0, 2.5])
            gs = chord.evaluate(np.array(ri) + d, rl, np.array(ei) + d, el)
            bad = [k for k in got if abs(got[k] - gs[k]) > 1e-9]
            if bad:
                fails.append('chord.evaluate[%r] changes under a common time shift of %s: %r vs %r (ref %s %s, est %s %s)' % (bad[0], d, float(got[bad[0]]), float(gs[bad[0]]), ri, rl, ei, el))
            tsp = rng.randint(1, 11)
            gt = chord.evaluate(np.array(ri), [transpose(l, tsp) for l in rl], np.array(ei), [transpose(l, tsp) for l in el])
            bad = [k for k in got if abs(got[k] - gt[k]) > 1e-9]
            if bad:
                fails.append('chord.evaluate[%r] changes under a joint transposition by %d semitones: %r vs %r (ref %s %s, est %s %s)' % (bad[0], tsp, float(got[bad[0]]), float(gt[bad[0]]), ri, rl, ei, el))
            if r0 == e0 and r1 == e1:
                gw = chord.evaluate(np.array(ei), el, np.array(ri), rl)
                if abs(got['overseg'] - gw['underseg']) > 1e-9 or abs(got['underseg'] - gw['overseg']) > 1e-9 or abs(got['seg'] - gw['seg']) > 1e-9:
                    fails.append('chord.evaluate: swap of reference and estimate does not exchange over- and under-segmentation: %s vs %s (ref %s %s, est %s %s)' % (
                        (float(got['overseg']), float(got['underseg']), float(got['seg'])), (float(gw['overseg']), float(gw['underseg']), float(gw['seg'])), ri, rl, ei, el))
            for side in ('reference', 'estimate'):
                sp = split(ri, rl) if side == 'reference' else split(ei, el)
                if sp is None:
                    continue
                iv2, l2, what = sp
                g2 = chord.evaluate(np.array(iv2), l2, np.array(ei), el) if side == 'reference' else chord.evaluate(np.array(ri), rl, np.array(iv2), l2)
                n += 1
                bad = [k for k in got if abs(got[k] - g2[k]) > 1e-9]
                if bad:
                    fails.append('chord.evaluate[%r] changes from %r to %r when the %s interval [%s, %s] (%s) is cut at %s (ref %s %s, est %s %s)'
                                 % (bad[0], float(got[bad[0]]), float(g2[bad[0]]), side, what[0], what[1], what[3], what[2], ri, rl, ei, el))
            # an estimate whose span differs from the reference's by less than any comparison tolerance is still adjusted to the reference span
            for dev_ in (5e-9, 1e-7, -1e-7, 0.0005):
                ei2_ = [list(iv_) for iv_ in ei]
                ei2_[-1][1] = r1 + dev_
                if ei2_[-1][1] <= ei2_[-1][0]:
                    continue
                n += 1
                try:
                    g3_ = chord.evaluate(np.array(ri), rl, np.array(ei2_), el)
                    w3_ = chord.evaluate(np.array(ri), rl, np.array([list(iv_) for iv_ in ei[:-1]] + [[ei[-1][0], r1]]), el)
                    bad3_ = [k_ for k_ in g3_ if abs(float(g3_[k_]) - float(w3_[k_])) > 1e-3]
                    if bad3_:
                        fails.append('chord.evaluate[%r] = %r when the estimate ends %s s after the reference, %r when it ends with it: not a duration-weighted mean over the reference span'
                                     % (bad3_[0], float(g3_[bad3_[0]]), dev_, float(w3_[bad3_[0]])))
                except Exception as ex:
                    fails.append('chord.evaluate raised %s on a valid input: the estimate ends %s s after the reference (ref %s, est %s)' % (type(ex).__name__, dev_, ri, ei2_))
            # C02: an annotation against an exact copy of itself scores 1 under every rule that has something to compare (0 by convention when the
            # rule's vocabulary excludes every reference chord), also when the annotation has internal gaps between different chords
            for gi, gl in ((ri, rl), ([iv_ for k_, iv_ in enumerate(ri) if k_ != 1], [l_ for k_, l_ in enumerate(rl) if k_ != 1]) if len(ri) >= 3 else (ri, rl)):
                n += 1
                try:
                    gp = chord.evaluate(np.array(gi), list(gl), np.array(gi).copy(), list(gl))
                except Exception as ex:
                    fails.append('chord.evaluate raised %s on a valid input: an annotation against its copy %s %s' % (type(ex).__name__, gi, gl))
                    continue
                for rule in RULES:
                    want_ = 1.0 if any(cmp(rule, l_, l_) >= 0 for l_ in gl) else 0.0
                    if abs(float(gp[rule]) - want_) > 1e-9:
                        fails.append('perfect chord estimate: %s = %r, expected %s (annotation %s %s)' % (rule, float(gp[rule]), want_, gi, gl))
                        break
                if any(abs(float(gp[k_]) - 1.0) > 1e-9 for k_ in ('underseg', 'overseg', 'seg')):
                    fails.append('perfect chord estimate: segmentation scores %s (annotation %s %s)' % ([float(gp[k_]) for k_ in ('underseg', 'overseg', 'seg')], gi, gl))
            if len(fails) > 5:
                break
    bounded = [dict(name='chord.evaluate accuracies == duration-weighted mean of per-label comparisons over the reference span; no score changes when an interval is cut into same-label pieces',
                    bound='%d random annotation pairs on a 1/4 lattice (reference may start later / end earlier than the estimate)' % n, cases=n, exhaustive=False,
                    failures=fails[:4], wall_s=round(time.time() - t0, 2))]
    results = []
    if fails:
        results.append(dict(kind='engine', engine='chordevalnative', name='chord.evaluate weighting', status='ok', detail='', paths=0, inlined=[], used_contracts=[],
                            gen_time=0, wall=0, lib_used=[], props=[prop],
                            obligations=[dict(id='chord.evaluate#bounded:duration-weighted', kind='bounded', label='duration-weighted', props=[prop], line=None,
                                              note=fails[0][:600], expect='unsat', verdict='refuted', backend='native', time=0.0, model=dict(example=fails[0]),
                                              goal='chord.evaluate scores are duration-weighted means, blind to how time is cut up',
                                              native=dict(confirmed=True, example=fails[0]), finding=None)]))
    return dict(results=results, bounded=bounded)


def replay(rec):
    r = run(rec.get('property', 'C12'), 'quick', 0, None)
    fails = [f for b in r['bounded'] for f in b['failures']]
    return bool(fails), 'chord.evaluate weighting: %s' % (fails[:2] or 'no failure')
