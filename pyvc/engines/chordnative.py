"""Bounded conformance of the *assumed* chord contracts (never counted as proved):
  - chord.encode_many(labels)[row i] == chord.encode(labels[i])           (label pool)
  - chord.rotate_bitmaps_to_roots == the rotation contract                 (exhaustive: 13 roots x 4096 bitmaps)
  - C09 only: mirex / all rules under joint transposition and enharmonic respelling (label-pair pool)
"""
import itertools
import random
import time
import warnings

from . import chordre


def run(prop, tier, seed, known):
    from .. import native
    native.import_repo()
    from mir_eval import chord
    import numpy as np
    bounded, results = [], []
    fails = []
    t0 = time.time()
    pool = []
    for s in chordre.labels('quick', seed):
        pool.append(s)
        if len(pool) >= (4000 if tier == 'quick' else 40000):
            break
    enc = {}
    with warnings.catch_warnings():
        warnings.simplefilter('ignore')
        ok_labels = []
        spec = chordre.spec_module()

        def spec_enc(label, red):
            # the independent encoder of contracts/_chord_spec.py (not the library): a polluted cache or template in the library shows up here
            try:
                r_, b_, ba_ = spec.encode(label, red, False)
                return (r_, list(b_), ba_)
            except (spec.NotHarte, spec.NotEncodable):
                return None
        enc_red = {}
        for s in pool:
            enc[s] = spec_enc(s, False)
            enc_red[s] = spec_enc(s, True)
            if enc[s] is not None:
                ok_labels.append(s)
        n = 0
        rng = random.Random(seed)
        # labels that edit their quality template (added / omitted degrees) next to plain labels of the same quality, both flag values in
        # both orders within one process
        tricky = [l for l in ('C:maj(*3)', 'C:maj', 'G:maj(2)', 'G:maj', 'C:min(b7)', 'C:min', 'G:9', 'G:9(*5)', 'D:maj(9)', 'D:maj', 'A:min11', 'A:min') if enc.get(l, spec_enc(l, False)) is not None]
        for l in tricky:
            enc.setdefault(l, spec_enc(l, False))
            enc_red.setdefault(l, spec_enc(l, True))
        for it in range(200):
            batch = [rng.choice(ok_labels if rng.random() < 0.7 else tricky) for _ in range(rng.randint(0, 6))]
            for red in ((False, True) if it % 2 == 0 else (True, False)):
                want_rows = [(enc_red if red else enc)[l] for l in batch]
                if any(w is None for w in want_rows):
                    continue
                r, b, ba = chord.encode_many(batch, red)
                n += 1
                for i, l in enumerate(batch):
                    e = want_rows[i]
                    if not (int(r[i]) == e[0] and [int(x) for x in b[i]] == list(e[1]) and int(ba[i]) == e[2]):
                        fails.append('encode_many(%r, reduce_extended_chords=%s) row %d is not the documented encoding of %r: %s vs %s'
                                     % (batch, red, i, l, (int(r[i]), [int(x) for x in b[i]], int(ba[i])), e))
                        break
            if len(fails) > 3:
                break
        bad = [s for s in pool if enc[s] is None][:20]
        for l in bad:
            try:
                chord.encode_many(['C', l])
                fails.append('encode_many accepted the unencodable label %r' % l)
            except chord.InvalidChordException:
                pass
            except Exception as ex:
                fails.append('encode_many([\'C\', %r]) raised %s instead of InvalidChordException: %s' % (l, type(ex).__name__, ex))
            n += 1
    bounded.append(dict(name='chord.encode_many conforms to its assumed contract (row i = encode(labels[i]); InvalidChordException iff some label is unencodable)',
                        bound='200 random batches over %d encodable labels, 20 unencodable labels' % len(ok_labels), cases=n, exhaustive=False,
                        failures=fails[:3], wall_s=round(time.time() - t0, 2)))
    t1 = time.time()
    f2 = []
    n2 = 0
    bitmaps = np.array(list(itertools.product([0, 1], repeat=12)))
    for root in range(-1, 12):
        got = chord.rotate_bitmaps_to_roots(bitmaps, np.full(len(bitmaps), root))
        want = np.array([[1 if bm[(k - root) % 12] != 0 else 0 for k in range(12)] for bm in bitmaps])
        n2 += len(bitmaps)
        if not np.array_equal(got, want):
            f2.append('rotate_bitmaps_to_roots differs from the contract for root %d' % root)
    xs = chord.rotate_bitmaps_to_roots(np.array([[-1] * 12]), np.array([-1]))
    if list(xs[0]) != [1] * 12:
        f2.append('rotation of the X bitmap')
    bounded.append(dict(name='chord.rotate_bitmaps_to_roots conforms to its assumed contract', bound='13 roots x all 4096 0/1 bitmaps, plus the X bitmap',
                        cases=n2 + 1, exhaustive=True, failures=f2[:3], wall_s=round(time.time() - t1, 2)))
    fails += f2
    if prop == 'C09':
        t2 = time.time()
        f3 = []
        n3 = 0
        rules = ['thirds', 'thirds_inv', 'triads', 'triads_inv', 'tetrads', 'tetrads_inv', 'root', 'mirex', 'majmin', 'majmin_inv', 'sevenths', 'sevenths_inv']
        sharp = ['C', 'C#', 'D', 'D#', 'E', 'F', 'F#', 'G', 'G#', 'A', 'A#', 'B']
        flat = ['C', 'Db', 'D', 'Eb', 'E', 'F', 'Gb', 'G', 'Ab', 'A', 'Bb', 'B']
        wrap = ['B#', 'Db', 'C##', 'Eb', 'Fb', 'E#', 'Gb', 'F##', 'Ab', 'G##', 'Bb', 'Cb']
        tails = [':maj', ':min', ':7', ':maj7/3', ':min7/b7', ':sus4', ':dim', ':aug', ':5', ':maj(9)', ':min/5', '', ':hdim7', ':1', ':maj6']
        rng = random.Random(seed + 7)
        with warnings.catch_warnings():
            warnings.simplefilter('ignore')
            for _ in range(60 if tier == 'quick' else 600):
                k = rng.randint(1, 5)
                rr, er = [rng.randint(0, 11) for _ in range(k)], [rng.randint(0, 11) for _ in range(k)]
                rt, et = [rng.choice(tails) for _ in range(k)], [rng.choice(tails) for _ in range(k)]
                special = rng.random() < 0.3

                def spell(roots, tls, table, t):
                    out = [table[(r + t) % 12] + tl for r, tl in zip(roots, tls)]
                    if special:
                        out[0] = 'N'
                    return out
                base = {f: getattr(chord, f)(spell(rr, rt, sharp, 0), spell(er, et, sharp, 0)) for f in rules}
                for t in range(12):
                    for table in (sharp, flat, wrap):
                        for f in rules:
                            got = getattr(chord, f)(spell(rr, rt, table, t), spell(er, et, flat if table is sharp else sharp, t))
                            n3 += 1
                            if not np.array_equal(got, base[f]):
                                f3.append('%s changed under transposition %d / respelling: %s vs %s' % (f, t, list(got), list(base[f])))
                if len(f3) > 5:
                    break
        bounded.append(dict(name='all 12 chord rules (incl. mirex) invariant under joint transposition and enharmonic respelling (native)',
                            bound='%d random label sequences x 12 transpositions x 3 spelling tables x 12 rules' % (60 if tier == 'quick' else 600),
                            cases=n3, exhaustive=False, failures=f3[:3], wall_s=round(time.time() - t2, 2)))
        fails += f3
    if fails:
        results.append(dict(kind='engine', engine='chordnative', name='assumed chord contracts', status='ok', detail='', paths=0, inlined=[], used_contracts=[],
                            gen_time=0, wall=0, lib_used=[], props=[prop],
                            obligations=[dict(id='chord#bounded:assumed-contracts', kind='bounded', label='assumed-contracts', props=[prop], line=None,
                                              note=fails[0][:300], expect='unsat', verdict='refuted', backend='native', time=0.0,
                                              model=dict(example=fails[0]), goal='assumed chord contracts conform to the real functions',
                                              native=dict(confirmed=True, example=fails[0]), finding=None)]))
    return dict(results=results, bounded=bounded)


def replay(rec):
    r = run(rec.get('property', 'C11'), 'quick', 0, None)
    fails = [f for b in r['bounded'] for f in b['failures']]
    return bool(fails), 'bounded conformance: %s' % (fails[:2] or 'no failure')
