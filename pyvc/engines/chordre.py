"""C10: chord-label syntax.

[P] regex obligations: L(CHORD_RE) = L(Harte grammar of contracts/_chord_spec.py).  CHORD_RE is translated
    mechanically from the pattern string found in the real source (sre_parse -> z3 regular expressions, with
    Python's `re.match` semantics: anchored at the start; `$` also matches before a final newline; `\\Z` only at the
    end; no end anchor = any suffix).  Two language-inclusion queries, decided by z3's sequence/regex solver.
[B] bounded stand-in: the real validate/split/join/encode against the independent executable spec over all
    grammar-derivable labels of a stated depth, plus mutated strings (totality).
"""
import ast
import importlib.util
import itertools
import os
import random
import time
import warnings

import z3

from .. import frontend

try:
    import re._parser as sre_parse
except ImportError:            # pragma: no cover
    import sre_parse

HERE = os.path.dirname(os.path.dirname(os.path.dirname(os.path.abspath(__file__))))


def spec_module():
    p = os.path.join(HERE, 'contracts', '_chord_spec.py')
    spec = importlib.util.spec_from_file_location('_chord_spec', p)
    m = importlib.util.module_from_spec(spec)
    spec.loader.exec_module(m)
    return m


def pattern_from_source():
    mod = frontend.module('chord')
    node = mod.assigns.get('CHORD_RE')
    if not (isinstance(node, ast.Call) and frontend.dotted(node.func) == 're.compile' and node.args
            and isinstance(node.args[0], ast.Constant) and isinstance(node.args[0].value, str)):
        raise ValueError('CHORD_RE is not re.compile(<string literal>)')
    flags = [ast.unparse(a) for a in node.args[1:]] + [k.arg for k in node.keywords]
    if flags:
        raise ValueError('CHORD_RE uses flags %s (not modelled)' % flags)
    return node.args[0].value, node.lineno


ANY = None


def anychar():
    return z3.AllChar(z3.ReSort(z3.StringSort()))


def conv(p, state):
    parts = []
    items = list(p)
    for k, (op, av) in enumerate(items):
        op = str(op)
        if op == 'LITERAL':
            parts.append(z3.Re(chr(av)))
        elif op == 'NOT_LITERAL':
            parts.append(z3.Intersect(anychar(), z3.Complement(z3.Re(chr(av)))))
        elif op == 'ANY':
            parts.append(z3.Intersect(anychar(), z3.Complement(z3.Re('\n'))))
        elif op == 'AT':
            a = str(av)
            if a in ('AT_BEGINNING', 'AT_BEGINNING_STRING'):
                if parts or not state['top']:
                    raise ValueError('start anchor inside the pattern')
            elif a == 'AT_END':
                if not (state['top'] and k == len(items) - 1):
                    raise ValueError('$ inside the pattern')
                state['end'] = '$'
            elif a == 'AT_END_STRING':
                if not (state['top'] and k == len(items) - 1):
                    raise ValueError('\\Z inside the pattern')
                state['end'] = 'Z'
            else:
                raise ValueError('anchor %s' % a)
        elif op == 'IN':
            alts = []
            neg = False
            for o, a in av:
                o = str(o)
                if o == 'LITERAL':
                    alts.append(z3.Re(chr(a)))
                elif o == 'RANGE':
                    alts.append(z3.Range(chr(a[0]), chr(a[1])))
                elif o == 'NEGATE':
                    neg = True
                else:
                    raise ValueError('class item %s' % o)
            r = alts[0] if len(alts) == 1 else z3.Union(*alts)
            parts.append(z3.Intersect(anychar(), z3.Complement(r)) if neg else r)
        elif op == 'SUBPATTERN':
            sub_state = dict(state, top=False)
            parts.append(conv(av[3], sub_state))
        elif op == 'BRANCH':
            sub_state = dict(state, top=False)
            parts.append(z3.Union(*[conv(x, sub_state) for x in av[1]]))
        elif op in ('MAX_REPEAT', 'MIN_REPEAT'):
            lo, hi, sub = av
            r = conv(sub, dict(state, top=False))
            if str(hi) == 'MAXREPEAT':
                rr = z3.Star(r) if lo == 0 else (z3.Plus(r) if lo == 1 else z3.Concat(*([r] * lo + [z3.Star(r)])))
            elif lo == 0 and hi == 1:
                rr = z3.Option(r)
            else:
                rr = z3.Loop(r, lo, hi)
            parts.append(rr)
        else:
            raise ValueError('regex construct %s is not modelled' % op)
    if not parts:
        return z3.Re('')
    return parts[0] if len(parts) == 1 else z3.Concat(*parts)


def code_language(pat):
    state = {'top': True, 'end': None}
    r = conv(sre_parse.parse(pat), state)
    if state['end'] == '$':
        r = z3.Concat(r, z3.Option(z3.Re('\n')))
    elif state['end'] is None:
        r = z3.Concat(r, z3.Star(anychar()))
    return r


def spec_language(g):
    tag = g[0]
    if tag == 'lit':
        return z3.Re(g[1])
    if tag == 'range':
        return z3.Range(g[1], g[2])
    if tag == 'seq':
        return z3.Concat(*[spec_language(x) for x in g[1:]])
    if tag == 'alt':
        return z3.Union(*[spec_language(x) for x in g[1:]])
    if tag == 'star':
        return z3.Star(spec_language(g[1]))
    if tag == 'opt':
        return z3.Option(spec_language(g[1]))
    raise ValueError(tag)


def regex_obligations(timeout_s):
    spec = spec_module()
    obs = []
    try:
        pat, line = pattern_from_source()
        R = code_language(pat)
    except Exception as ex:
        return [dict(id='chord.CHORD_RE#regex:translate', kind='regex', label='translate', props=['C10'], line=None, note=str(ex), expect='unsat',
                     verdict='out-of-subset', backend='pyvc', time=0.0, model=None, goal='', finding=None)]
    S = spec_language(spec.GRAMMAR)
    s = z3.String('s')
    for label, f, note in (('code-subset-of-spec', z3.And(z3.InRe(s, R), z3.Not(z3.InRe(s, S))), 'accepted by validate_chord_label but not Harte syntax'),
                           ('spec-subset-of-code', z3.And(z3.InRe(s, S), z3.Not(z3.InRe(s, R))), 'Harte syntax but rejected by validate_chord_label')):
        so = z3.Solver()
        so.set('timeout', int(timeout_s * 1000))
        so.add(f)
        t0 = time.time()
        r = so.check()
        dt = time.time() - t0
        model, verdict, native = None, 'unknown', None
        if r == z3.unsat:
            verdict = 'discharged'
        elif r == z3.sat:
            verdict = 'refuted'
            w = so.model()[s].as_string()
            model = dict(label=w)
            native = native_accept_check(w, spec)
        obs.append(dict(id='chord.CHORD_RE#regex:%s' % label, kind='regex', label=label, props=['C10'], line=line,
                        note=note if verdict == 'refuted' else '', expect='unsat', verdict=verdict, backend='z3-seq', time=round(dt, 4),
                        model=model, goal='L(CHORD_RE) %s L(Harte grammar)' % ('subset of' if label.startswith('code') else 'superset of'),
                        native=native, finding=None))
    # cover: both languages are non-empty and share an ordinary label
    so = z3.Solver()
    so.add(z3.InRe(s, R), z3.InRe(s, S), z3.Length(s) > 6)
    r = so.check()
    obs.append(dict(id='chord.CHORD_RE#cover:common-label', kind='cover', label='common-label', props=['C10'], line=line, note='', expect='sat',
                    verdict='reachable' if r == z3.sat else 'vacuous', backend='z3-seq', time=0.0, model=None,
                    goal='some label of length > 6 is in both languages', finding=None))
    return obs


def native_accept_check(w, spec):
    from .. import native
    native.import_repo()
    from mir_eval import chord
    try:
        chord.validate_chord_label(w)
        real = True
    except chord.InvalidChordException:
        real = False
    except Exception as ex:
        return dict(confirmed=True, detail='validate_chord_label(%r) raised %s' % (w, type(ex).__name__))
    want = spec.accepts(w)
    return dict(confirmed=real != want, detail='validate_chord_label(%r) accepts=%s, Harte grammar accepts=%s' % (w, real, want))


# ----------------------------------------------------------------------------- bounded stand-in
def labels(tier, seed):
    spec = spec_module()
    rng = random.Random(seed)
    accs = ['', 'b', '#']
    roots_all = [l + a for l in 'ABCDEFG' for a in ('', 'b', '#', 'bb', '##')]
    degs = [s + a + str(n) for s in ('', '*') for a in accs for n in range(1, 14)]
    basses = [None] + [str(n) for n in range(1, 14)] + ['b3', 'b7', '#5', 'b5', '#4', 'b2', 'bb7', '##1', 'b1']
    shorts = [None] + spec.SHORTHANDS_GRAMMAR
    roots = ['C'] + rng.sample(roots_all, 2 if tier == 'quick' else 6)

    def mk(root, sh, dl, bass):
        s = root
        if sh is not None or dl:
            s += ':' + (sh or '')
        if dl:
            s += '(' + ','.join(dl) + ')'
        if bass:
            s += '/' + bass
        return s
    yield 'N'
    yield 'X'
    for degenerate in ('', ' ', ':', '/', '()', 'C:', 'C/', 'C:()', ':maj', '\n'):
        yield degenerate
    # characters that are special to str.format / % / regular expressions / the label syntax itself (the rejection message embeds the string)
    for odd in ('{C', 'C}', 'C:{maj}', 'C{}', 'C:maj{0}', '{chord_label}', '{', '}', '%s', 'C:%d', 'C:maj%', '\\', 'C\\', '[C]', 'C:maj|min', 'C:(3', 'C:3)', 'C:maj/',
                'C:maj//3', 'C::maj', 'C:maj(3)(5)', '\x00', 'C\x00', 'c:maj', 'H:maj', 'C:maj ', ' C:maj', 'C:maj\n', 'N:maj', 'X/3', 'N/1', 'C:(*)', 'C:(,)', 'C:maj(3,)', 'é', 'C:maj/é'):
        yield odd
    for root in roots_all:
        for sh in shorts:
            yield mk(root, sh, None, None)
            yield mk(root, sh, None, rng.choice(basses[1:]))
    for root in roots:
        for sh in shorts:
            for d in degs:
                for bass in (basses if root == 'C' else [None, rng.choice(basses[1:])]):
                    yield mk(root, sh, [d], bass)
    # long runs of accidentals (the grammar allows any number): degrees far below / above the octave, in the list and in the bass
    for k in (5, 11, 12, 13, 14, 15, 25):
        for acc in ('b' * k, '#' * k):
            for n in (1, 2, 5, 7, 9, 13):
                for sh in (None, 'maj', 'min7'):
                    yield mk('C', sh, [acc + str(n)], None)
                    yield mk('A#', sh, ['*' + acc + str(n)], None)
                    yield mk('G', sh, ['3', acc + str(n)], '5')
                yield mk('D', 'maj', None, acc + str(n))
            yield mk('C' + acc, 'maj', None, None)
    n2 = 3000 if tier == 'quick' else 60000
    for _ in range(n2):
        yield mk(rng.choice(roots_all), rng.choice(shorts), rng.sample(degs, rng.choice([2, 2, 3])), rng.choice(basses))


def mutate(s, rng):
    ops = rng.randint(1, 2)
    alphabet = 'ABCDEFGNXb#:/(),*0123456789majinsudgh \n{}%\\'
    for _ in range(ops):
        k = rng.randint(0, len(s))
        c = rng.choice([0, 1, 2])
        if c == 0 and s:
            k = min(k, len(s) - 1)
            s = s[:k] + s[k + 1:]
        elif c == 1:
            s = s[:k] + rng.choice(alphabet) + s[k:]
        elif s:
            k = min(k, len(s) - 1)
            s = s[:k] + rng.choice(alphabet) + s[k + 1:]
    return s


def bounded(tier, seed):
    from .. import native
    native.import_repo()
    from mir_eval import chord
    import numpy as np
    spec = spec_module()
    rng = random.Random(seed + 1)
    fails = []
    n = 0
    seen = set()

    def real_encode(s, red, strict):
        try:
            r, b, ba = chord.encode(s, red, strict)
            return ('ok', int(r), [int(x) for x in b], int(ba))
        except chord.InvalidChordException:
            return ('ice',)
        except Exception as ex:
            return ('other', type(ex).__name__)

    def spec_encode(s, red, strict):
        try:
            r, b, ba = spec.encode(s, red, strict)
            return ('ok', r, b, ba)
        except (spec.NotHarte, spec.NotEncodable):
            return ('ice',)

    with warnings.catch_warnings():
        warnings.simplefilter('ignore')
        for s in labels(tier, seed):
            if s in seen:
                continue
            seen.add(s)
            for cand in (s, mutate(s, rng)):
                n += 1
                try:
                    chord.validate_chord_label(cand)
                    acc = True
                except chord.InvalidChordException:
                    acc = False
                except Exception as ex:
                    fails.append('validate_chord_label(%r) raised %s' % (cand, type(ex).__name__))
                    continue
                if acc != spec.accepts(cand):
                    fails.append('validate_chord_label(%r) accepts=%s but Harte grammar accepts=%s' % (cand, acc, not acc))
                    continue
                for red in (False, True):
                    for strict in (False, True):
                        got, want = real_encode(cand, red, strict), spec_encode(cand, red, strict)
                        if got != want:
                            fails.append('encode(%r, reduce=%s, strict=%s) = %s, spec %s' % (cand, red, strict, got, want))
                        elif got[0] == 'ok' and cand not in ('N', 'X'):
                            if not (0 <= got[1] <= 11 and 0 <= got[3] <= 11 and all(x in (0, 1) for x in got[2]) and len(got[2]) == 12 and got[2][got[3]] == 1):
                                fails.append('encode(%r) out of range: %s' % (cand, got))
                    if acc:
                        try:
                            parts = chord.split(cand, red)
                            again = chord.join(*parts)
                            e1, e2 = real_encode(cand, False, False), real_encode(again, False, False)
                            if red is False and e1 != e2:
                                fails.append('join(*split(%r)) = %r encodes to %s, original %s' % (cand, again, e2, e1))
                        except chord.InvalidChordException:
                            # split/join may reject (documented: omission without quality); nothing else may escape
                            pass
                        except Exception as ex:
                            fails.append('split/join(%r) raised %s: %s' % (cand, type(ex).__name__, str(ex)[:80]))
                if len(fails) > 20:
                    return n, fails
    return n, fails


def replay(rec):
    spec = spec_module()
    w = (rec.get('inputs') or {}).get('label')
    if w is None:
        n, fails = bounded('quick', 0)
        return bool(fails), 'bounded run: %d labels, failures: %s' % (n, fails[:3])
    r = native_accept_check(w, spec)
    return r['confirmed'], r['detail']


def run(prop, tier, seed, known):
    results = []
    t0 = time.time()
    obs = regex_obligations(20.0 if tier == 'quick' else 120.0)
    results.append(dict(kind='engine', engine='chordre', name='chord.CHORD_RE', status='ok', detail='', paths=0, obligations=obs, inlined=[],
                        used_contracts=[], gen_time=0, wall=round(time.time() - t0, 2), lib_used=[], props=['C10']))
    t1 = time.time()
    n, fails = bounded(tier, seed)
    b = dict(name='validate_chord_label / split / join / encode vs independent Harte spec (acceptance, encoding, range, round trip, totality)',
             bound='all roots x all shorthands; degree lists of length 1 (all 78 degrees) x basses on root C and sampled roots; %s random lists of '
                   'length 2-3; one random mutation of every label; both flags' % ('3000' if tier == 'quick' else '60000'),
             cases=n, exhaustive=False, failures=fails[:5], wall_s=round(time.time() - t1, 2))
    if fails:
        results.append(dict(kind='engine', engine='chordre', name='chord label functions', status='ok', detail='', paths=0, inlined=[], used_contracts=[],
                            gen_time=0, wall=0, lib_used=[], props=['C10'],
                            obligations=[dict(id='chord.encode#bounded:spec', kind='bounded', label='spec', props=['C10'], line=None, note=fails[0][:300],
                                              expect='unsat', verdict='refuted', backend='native', time=0.0, model=dict(example=fails[0]),
                                              goal='real chord label functions agree with the independent spec',
                                              native=dict(confirmed=True, example=fails[0]), finding=None)]))
    return dict(results=results, bounded=[b])
