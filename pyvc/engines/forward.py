"""Definitional forwarding obligations in EUF (reuses the E4 interpreter): `vmeasure == nce(marginal=True)`,
`overseg(a, b) == 1 - dhd(a, b)`, `underseg(a, b) == 1 - dhd(b, a)` ..."""
import ast
import os
import time

import z3

from .. import frontend
from . import bundles

HERE = os.path.dirname(os.path.dirname(os.path.dirname(os.path.abspath(__file__))))


def table():
    tree = ast.parse(open(os.path.join(HERE, 'contracts', '_forward.py')).read())
    for n in tree.body:
        if isinstance(n, ast.Assign) and n.targets[0].id == 'FORWARD':
            return ast.literal_eval(n.value)
    return []


class BinInterp(bundles.Interp):
    """adds arithmetic operators as uninterpreted symbols"""

    def ev(self, e, path):
        if isinstance(e, ast.BinOp):
            a = self.val(self.ev(e.left, path))
            b = self.val(self.ev(e.right, path))
            return self.app('op.' + type(e.op).__name__, [a, b])
        return super().ev(e, path)


def check(entry):
    qual = entry['function']
    mod, fd = frontend.function(qual)
    m = qual.split('.')[0]
    it = BinInterp(m, [])
    pos, kwonly, has_kw, _ = frontend.params(fd)
    env = {p: z3.Const('in[%s]' % p, bundles.Val) for p in pos + kwonly}
    impl = it.run(frontend.docstring_stripped(fd), [bundles.Path([], dict(env))])
    it.oracle = True
    otree = ast.parse(entry['oracle']).body
    orac = it.run(otree, [bundles.Path([], dict(env))])
    if len(impl) != 1 or len(orac) != 1:
        raise bundles.Unsupported('%d / %d paths' % (len(impl), len(orac)))
    a, b = impl[0].env.get('__ret__'), orac[0].env.get('__ret__')
    if a is None:
        raise bundles.Unsupported('no return value')
    s = z3.Solver()
    s.add(*it.axioms(), z3.Not(it.val(a) == it.val(b)))
    r = s.check()
    return ('discharged' if r == z3.unsat else 'refuted' if r == z3.sat else 'unknown'), str(it.val(a))[:300], it.issues


def run(prop, tier, seed, known):
    obs = []
    for entry in table():
        if prop not in entry['props']:
            continue
        t0 = time.time()
        try:
            verdict, term, issues = check(entry)
            note = '' if verdict == 'discharged' else 'body of %s is not the documented expression `%s` (body term: %s) %s' % (entry['function'], entry['oracle'], term, issues or '')
            if issues and verdict == 'discharged':
                verdict, note = 'refuted', '; '.join(issues)
        except bundles.Unsupported as ex:
            verdict, note = 'out-of-subset', str(ex)
        obs.append(dict(id='%s#post:forwards' % entry['function'], kind='post', label='forwards', props=entry['props'], line=None, note=note, expect='unsat',
                        verdict=verdict, backend='z3-euf', time=round(time.time() - t0, 4), model=None if verdict == 'discharged' else dict(function=entry['function'], note=note),
                        goal=entry['oracle'], native=None, finding=None))
    return dict(results=[dict(kind='engine', engine='forward', name='definitional forwarding', status='ok', detail='', paths=0, obligations=obs, inlined=[],
                              used_contracts=[], gen_time=0, wall=0, lib_used=[], props=[prop])], bounded=[])
