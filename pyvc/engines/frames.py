"""E3: frame (`assigns()`) obligations for every function of every module (property C15).

For each function the engine computes, flow-sensitively over the real AST, the *origin* of every object a
name may denote: P:<param> (the caller's object or a view / element of it), G:<name> (a module-level mutable
object), F (allocated inside the call).  One obligation is generated per mutation site (subscript / slice /
mask store, augmented assignment, mutating method, `del x[..]`, `out=` / third ufunc argument, `copy=False`,
call of a repository function that may write one of its parameters): "on every path reaching the site the
target is fresh".  Callee behaviour is used through *inferred* summaries (which parameters a function may
write; which parameters may flow into each component of its result), computed bottom-up to a fixpoint, never
trusted from documentation.  The back end of these obligations is this origin analysis (an abstract
interpretation), not an SMT solver; alias rules are assumption A4.

Also: `pure` obligations (no global / nonlocal rebinding, no writes to module attributes, no use of
random / time / id / hash / environment), and order-insensitivity of every iteration over a set.
"""
import ast
import time

from .. import frontend

F = 'F'
VIEW_ATTRS = {'T', 'real', 'imag', 'flat', 'base', 'mT'}
VIEW_METHODS = {'reshape', 'ravel', 'squeeze', 'view', 'transpose', 'swapaxes', 'diagonal'}
MUTATING_METHODS = {'append', 'insert', 'extend', 'sort', 'reverse', 'pop', 'remove', 'clear', 'update', 'setdefault',
                    'fill', 'resize', 'put', 'itemset', 'popitem', 'add', 'discard', 'partition', 'setflags',
                    'difference_update', 'intersection_update', 'symmetric_difference_update'}
ELEM_METHODS = {'get', 'pop', 'setdefault', 'popitem', 'items', 'values', 'keys', '__getitem__'}
VIEW_FUNCS = {'numpy.asarray', 'numpy.asanyarray', 'numpy.atleast_1d', 'numpy.atleast_2d', 'numpy.atleast_3d', 'numpy.ravel',
              'numpy.reshape', 'numpy.squeeze', 'numpy.transpose', 'numpy.swapaxes', 'numpy.expand_dims', 'numpy.broadcast_to',
              'numpy.lib.stride_tricks.as_strided', 'numpy.real', 'numpy.imag', 'numpy.diagonal', 'numpy.ascontiguousarray',
              'numpy.moveaxis', 'numpy.rollaxis', 'numpy.asfarray'}
SHALLOW_FUNCS = {'list', 'tuple', 'sorted', 'set', 'dict', 'frozenset', 'zip', 'enumerate', 'reversed', 'iter', 'copy.copy',
                 'numpy.array', 'collections.OrderedDict', 'filter', 'map', 'itertools.chain', 'itertools.product',
                 'itertools.permutations', 'itertools.combinations'}
INPLACE_FUNCS = {'numpy.put': 0, 'numpy.fill_diagonal': 0, 'numpy.copyto': 0, 'random.shuffle': 0, 'numpy.random.shuffle': 0,
                 'numpy.place': 0, 'numpy.putmask': 0}
UFUNC3 = {'numpy.logical_or', 'numpy.logical_and', 'numpy.logical_not', 'numpy.add', 'numpy.subtract', 'numpy.multiply',
          'numpy.divide', 'numpy.maximum', 'numpy.minimum', 'numpy.abs', 'numpy.absolute', 'numpy.equal', 'numpy.less',
          'numpy.less_equal', 'numpy.greater', 'numpy.greater_equal', 'numpy.mod', 'numpy.power', 'numpy.clip'}
IMPURE_CALLS = ('random.', 'numpy.random.', 'time.time', 'time.clock', 'time.perf_counter', 'os.environ', 'os.getenv',
                'datetime.', 'uuid.')


class AV:
    """abstract value: origins of the object itself; `elem` = abstract value of the objects it contains
    (None: contains nothing mutable); `comps` = per-position values of a tuple-like object"""
    __slots__ = ('orig', 'elem', 'comps', 'fancy', 'isset')
    DEPTH = 3

    def __init__(self, orig=(F,), elem=None, comps=None, fancy=False, isset=False):
        self.orig = frozenset(orig)
        self.elem = elem
        self.comps = comps
        self.fancy = fancy          # value is a boolean mask / index array (indexing with it copies)
        self.isset = isset          # value is (may be) a set: iteration order is arbitrary

    def join(self, other):
        if other is None:
            return self
        comps = None
        if self.comps is not None and other.comps is not None and len(self.comps) == len(other.comps):
            comps = [a.join(b) for a, b in zip(self.comps, other.comps)]
        if self.elem is None:
            elem = other.elem
        elif other.elem is None:
            elem = self.elem
        else:
            elem = self.elem.join(other.elem)
        return AV(self.orig | other.orig, elem, comps, self.fancy and other.fancy, self.isset or other.isset).cap()

    def cap(self, depth=None):
        depth = AV.DEPTH if depth is None else depth
        if self.elem is None:
            return self
        if depth <= 1:
            flat = self.elem.flat()
            return AV(self.orig, AV(flat, None), self.comps, self.fancy, self.isset)
        return AV(self.orig, self.elem.cap(depth - 1), self.comps, self.fancy, self.isset)

    def flat(self):
        out = set(self.orig)
        if self.elem is not None:
            out |= self.elem.flat()
        if self.comps:
            for c in self.comps:
                out |= c.flat()
        return out

    def item(self):
        """value of `x[i]` / an iteration element: a view of the object (array) or one of its elements (list)"""
        e = self.elem
        if e is None:
            return AV(self.orig, None)
        return AV(self.orig | e.orig, e.elem.join(e.elem) if e.elem is not None else None, e.comps, False) if False else \
            AV(self.orig | e.orig, e.elem, e.comps, False)

    def contents(self):
        return self.elem if self.elem is not None else FRESH

    def with_elem(self, v):
        """the object after storing v into it"""
        return AV(self.orig, v if self.elem is None else self.elem.join(v), None, self.fancy, self.isset).cap()

    def key(self):
        return (self.orig, self.elem.key() if self.elem is not None else None, self.fancy, self.isset,
                tuple(c.key() for c in self.comps) if self.comps is not None else None)

    def __eq__(self, o):
        return isinstance(o, AV) and self.key() == o.key()

    def __repr__(self):
        return 'AV(%s|%r)' % (sorted(self.orig), self.elem)


FRESH = AV()


def param_av(o):
    return AV([o], AV([o], AV([o], None)))


def nonfresh(origs):
    return sorted(o for o in origs if o != F)


class Summary:
    def __init__(self, params):
        self.params = params
        self.mutates = {}          # param -> reason (first site)
        self.ret = None            # AV over symbolic origins 'P:<param>'
        self.kwarg = None
        self.vararg = None


class Analyzer:
    def __init__(self):
        self.summaries = {}
        self.sites = {}            # (qual) -> list of site dicts   (rebuilt each round)
        self.pure = {}
        self.changed = False

    def mutable_global(self, mod, name):
        v = mod.assigns.get(name)
        if v is None:
            return False
        if isinstance(v, (ast.List, ast.Dict, ast.Set, ast.ListComp, ast.DictComp)):
            return True
        if isinstance(v, ast.Call):
            d = frontend.dotted(v.func) or ''
            return d.split('.')[-1] in ('array', 'zeros', 'ones', 'dict', 'list', 'set', 'OrderedDict', 'defaultdict', 'compile') and \
                d.split('.')[-1] != 'compile'
        return False

    def run(self):
        quals = []
        for m in frontend.MODULES:
            mod = frontend.module(m)
            for name, fd in mod.functions.items():
                quals.append(('%s.%s' % (m, name), mod, fd))
        for q, mod, fd in quals:
            ps = frontend.params(fd)
            self.summaries[q] = Summary(ps[0] + ps[1])
        for rnd in range(8):
            self.changed = False
            self.sites = {}
            self.pure = {}
            for q, mod, fd in quals:
                FunctionAnalysis(self, q, mod, fd).run()
            if not self.changed:
                break
        return rnd + 1


class FunctionAnalysis:
    def __init__(self, an, qual, mod, fd, outer_env=None, outer=None):
        self.an, self.qual, self.mod, self.fd = an, qual, mod, fd
        self.outer = outer
        self.sites = an.sites.setdefault(qual if outer is None else outer.qual, [])
        self.pure = an.pure.setdefault(qual if outer is None else outer.qual, [])
        self.returns = []
        self.env0 = dict(outer_env or {})
        self.ord = {}
        k = 0
        root = fd if outer is None else outer.fd
        for n in ast.walk(root):
            if isinstance(n, ast.stmt):
                self.ord[id(n)] = k
                k += 1
        if outer is not None:
            self.ord = outer.ord
        self.cur = None
        self.nested = {}
        self.mut_params = {}

    def top(self):
        return self if self.outer is None else self.outer.top()

    # ------------------------------------------------------------------
    def run(self):
        env = dict(self.env0)
        a = self.fd.args
        for p in a.posonlyargs + a.args + a.kwonlyargs:
            o = 'P:' + p.arg
            if self.outer is not None:
                env[p.arg] = FRESH          # nested function parameters: bound at its call sites (treated as fresh)
            else:
                env[p.arg] = param_av(o)
        if a.kwarg is not None:
            # **kwargs is a fresh dict per call; its values are the caller's objects
            env[a.kwarg.arg] = AV([F], param_av('P:**' + a.kwarg.arg)) if self.outer is None else FRESH
        if a.vararg is not None:
            env[a.vararg.arg] = AV([F], param_av('P:*' + a.vararg.arg)) if self.outer is None else FRESH
        self.block(frontend.docstring_stripped(self.fd), env)
        if self.outer is None:
            s = self.an.summaries[self.qual]
            ret = None
            for r in self.returns:
                ret = r if ret is None else ret.join(r)
            ret = ret or FRESH
            if s.ret is None or not (s.ret == ret):
                if s.ret is not None:
                    ret = ret.join(s.ret)
                if s.ret is None or not (s.ret == ret):
                    s.ret = ret
                    self.an.changed = True
            for p, why in self.mut_params.items():
                if p not in s.mutates:
                    s.mutates[p] = why
                    self.an.changed = True
        return self.returns

    def site(self, kind, node, origins, what):
        nf = nonfresh(origins)
        self.sites.append(dict(kind=kind, ordinal=self.ord.get(id(self.cur), -1), line=getattr(node, 'lineno', None),
                               origins=nf, what=what, func=self.qual))
        for o in nf:
            if o.startswith('P:'):
                self.top().mut_params.setdefault(o[2:], '%s at line %s' % (what, getattr(node, 'lineno', '?')))

    # ------------------------------------------------------------------ statements
    def block(self, stmts, env):
        for s in stmts:
            env = self.stmt(s, env)
            if env is None:
                return None
        return env

    def join_env(self, a, b):
        if a is None:
            return b
        if b is None:
            return a
        out = {}
        for k in set(a) | set(b):
            if k in a and k in b:
                out[k] = a[k].join(b[k])
            else:
                out[k] = a.get(k) or b.get(k)
        return out

    def stmt(self, s, env):
        self.cur = s
        if isinstance(s, ast.Expr):
            self.expr(s.value, env)
            return env
        if isinstance(s, ast.Assign):
            v = self.expr(s.value, env)
            for t in s.targets:
                self.assign(t, v, env, s)
            return env
        if isinstance(s, ast.AnnAssign):
            if s.value is not None:
                self.assign(s.target, self.expr(s.value, env), env, s)
            return env
        if isinstance(s, ast.AugAssign):
            v = self.expr(s.value, env)
            if isinstance(s.target, ast.Name):
                tv = env.get(s.target.id, FRESH)
                if self.is_str_expr(s.value):
                    env[s.target.id] = FRESH        # str += str rebinds (strings are immutable)
                else:
                    self.site('augassign', s, tv.orig, '%s %s= ...' % (s.target.id, type(s.op).__name__))
            elif isinstance(s.target, ast.Subscript):
                bv = self.expr(s.target.value, env)
                self.expr(s.target.slice, env)
                self.site('store', s, bv.orig, ast.unparse(s.target) + ' op= ...')
            elif isinstance(s.target, ast.Attribute):
                bv = self.expr(s.target.value, env)
                self.site('attr-store', s, bv.orig, ast.unparse(s.target) + ' op= ...')
            return env
        if isinstance(s, ast.Return):
            self.returns.append(self.expr(s.value, env) if s.value is not None else FRESH)
            return None
        if isinstance(s, ast.Raise):
            if s.exc is not None:
                self.expr(s.exc, env)
            return None
        if isinstance(s, ast.If):
            self.expr(s.test, env)
            env_t, env_f = dict(env), dict(env)
            # `x is None` / `x is not None`: in the branch where x is None it denotes no caller object
            t = s.test
            if isinstance(t, ast.Compare) and len(t.ops) == 1 and isinstance(t.left, ast.Name) and \
                    isinstance(t.comparators[0], ast.Constant) and t.comparators[0].value is None and t.left.id in env:
                if isinstance(t.ops[0], ast.Is):
                    env_t[t.left.id] = FRESH
                elif isinstance(t.ops[0], ast.IsNot):
                    env_f[t.left.id] = FRESH
            a = self.block(s.body, env_t)
            b = self.block(s.orelse, env_f)
            return self.join_env(a, b)
        if isinstance(s, (ast.For, ast.While)):
            if isinstance(s, ast.For):
                it = self.expr(s.iter, env)
                self.check_set_iteration(s.iter, env, s)
            else:
                self.expr(s.test, env)
            cur = dict(env)
            for _ in range(4):
                e2 = dict(cur)
                if isinstance(s, ast.For):
                    self.assign(s.target, self.iter_elem(it, s.iter), e2, s)
                out = self.block(s.body, e2)
                new = self.join_env(cur, out)
                if new == cur:
                    break
                cur = new
            if s.orelse:
                cur = self.join_env(cur, self.block(s.orelse, dict(cur)))
            return cur
        if isinstance(s, ast.Try):
            a = self.block(s.body, dict(env))
            res = a
            for h in s.handlers:
                e2 = dict(self.join_env(env, a) or env)
                if h.name:
                    e2[h.name] = FRESH
                res = self.join_env(res, self.block(h.body, e2))
            if s.orelse and a is not None:
                res = self.join_env(res, self.block(s.orelse, dict(a)))
            if s.finalbody:
                res = self.block(s.finalbody, dict(res or env))
            return res
        if isinstance(s, ast.With):
            for it in s.items:
                v = self.expr(it.context_expr, env)
                if it.optional_vars is not None:
                    self.assign(it.optional_vars, v, env, s)
            return self.block(s.body, env)
        if isinstance(s, ast.FunctionDef):
            self.nested[s.name] = s
            fa = FunctionAnalysis(self.an, self.qual + '.' + s.name, self.mod, s, outer_env=env, outer=self)
            rets = fa.run()
            r = None
            for x in rets:
                r = x if r is None else r.join(x)
            env[s.name] = FRESH
            env['__ret__' + s.name] = r or FRESH
            return env
        if isinstance(s, ast.Delete):
            for t in s.targets:
                if isinstance(t, ast.Subscript):
                    bv = self.expr(t.value, env)
                    self.site('del', s, bv.orig, 'del ' + ast.unparse(t))
            return env
        if isinstance(s, (ast.Global, ast.Nonlocal)):
            self.pure.append(dict(line=s.lineno, what='%s %s' % (type(s).__name__.lower(), ', '.join(s.names)), func=self.qual))
            return env
        if isinstance(s, (ast.Pass, ast.Break, ast.Continue, ast.Import, ast.ImportFrom, ast.Assert)):
            return env
        return env

    @staticmethod
    def is_str_expr(e):
        if isinstance(e, ast.Constant):
            return isinstance(e.value, str)
        if isinstance(e, ast.JoinedStr):
            return True
        if isinstance(e, ast.BinOp):
            return FunctionAnalysis.is_str_expr(e.left) or (isinstance(e.op, ast.Add) and FunctionAnalysis.is_str_expr(e.right))
        if isinstance(e, ast.Call) and isinstance(e.func, ast.Attribute) and e.func.attr in ('format', 'join', 'lower', 'upper', 'strip'):
            return True
        if isinstance(e, ast.Call) and isinstance(e.func, ast.Name) and e.func.id == 'str':
            return True
        return False

    def iter_elem(self, it, node):
        return it.item()

    def is_arrayish(self, node):
        return True

    def assign(self, t, v, env, s):
        if isinstance(t, ast.Name):
            env[t.id] = v
        elif isinstance(t, (ast.Tuple, ast.List)):
            if v.comps is not None and len(v.comps) == len(t.elts):
                for x, c in zip(t.elts, v.comps):
                    self.assign(x, c, env, s)
            else:
                for x in t.elts:
                    if isinstance(x, ast.Starred):
                        x = x.value
                    self.assign(x, v.item(), env, s)
        elif isinstance(t, ast.Subscript):
            bv = self.expr(t.value, env)
            self.expr(t.slice, env)
            self.site('store', s, bv.orig, ast.unparse(t) + ' = ...')
            # the stored object becomes reachable from the container
            if isinstance(t.value, ast.Name) and t.value.id in env:
                b = env[t.value.id]
                env[t.value.id] = b.with_elem(v)
        elif isinstance(t, ast.Attribute):
            bv = self.expr(t.value, env)
            self.site('attr-store', s, bv.orig, ast.unparse(t) + ' = ...')
        elif isinstance(t, ast.Starred):
            self.assign(t.value, v, env, s)

    # ------------------------------------------------------------------ expressions
    def expr(self, e, env):
        if e is None:
            return FRESH
        if isinstance(e, ast.Name):
            if e.id in env:
                return env[e.id]
            if self.an.mutable_global(self.mod, e.id):
                g = 'G:%s.%s' % (self.mod.name, e.id)
                return param_av(g)
            return FRESH
        if isinstance(e, ast.Constant):
            return FRESH
        if isinstance(e, (ast.Tuple, ast.List, ast.Set)):
            vs = [self.expr(x.value if isinstance(x, ast.Starred) else x, env) for x in e.elts]
            el = None
            for v in vs:
                el = v if el is None else el.join(v)
            return AV([F], el, comps=vs if isinstance(e, (ast.Tuple, ast.List)) else None, isset=isinstance(e, ast.Set)).cap()
        if isinstance(e, ast.Dict):
            el = None
            for x in list(e.keys):
                if x is not None:
                    self.expr(x, env)
            for x in list(e.values):
                v = self.expr(x, env)
                el = v if el is None else el.join(v)
            return AV([F], el).cap()
        if isinstance(e, ast.Subscript):
            b = self.expr(e.value, env)
            iv = self.expr(e.slice, env)
            if b.comps is not None and isinstance(e.slice, ast.Constant) and isinstance(e.slice.value, int) and \
                    -len(b.comps) <= e.slice.value < len(b.comps):
                return b.comps[e.slice.value]
            if self.index_copies(e.slice, env, iv):
                return AV([F], b.elem)          # boolean-mask / index-array selection copies
            if isinstance(e.slice, ast.Slice) or (isinstance(e.slice, ast.Tuple) and any(isinstance(x, ast.Slice) for x in e.slice.elts)):
                return AV(b.orig, b.elem)       # slice: a view of an array (same object) or a copy of a list (same elements)
            return b.item()                     # view of an array, or element of a list
        if isinstance(e, ast.Attribute):
            d = frontend.dotted(e)
            if d is not None and d.split('.')[0] not in env:
                r = frontend.resolve(self.mod, d)
                if r[0] == 'repo' and self.an.mutable_global(frontend.module(r[1]), r[2]):
                    g = 'G:%s.%s' % (r[1], r[2])
                    return param_av(g)
                if r[0] in ('repo', 'lib'):
                    if r[0] == 'lib' and r[1].startswith(IMPURE_CALLS):
                        self.pure.append(dict(line=e.lineno, what='use of ' + r[1], func=self.qual))
                    return FRESH
            b = self.expr(e.value, env)
            if e.attr in VIEW_ATTRS:
                return AV(b.orig, b.elem)
            return FRESH
        if isinstance(e, ast.Call):
            return self.call(e, env)
        if isinstance(e, ast.IfExp):
            self.expr(e.test, env)
            return self.expr(e.body, env).join(self.expr(e.orelse, env))
        if isinstance(e, ast.BoolOp):
            r = None
            for x in e.values:
                v = self.expr(x, env)
                r = v if r is None else r.join(v)
            return r
        if isinstance(e, ast.Compare):
            self.expr(e.left, env)
            for c in e.comparators:
                self.expr(c, env)
            return AV([F], None, fancy=True)
        if isinstance(e, (ast.BinOp,)):
            a = self.expr(e.left, env)
            b = self.expr(e.right, env)
            return AV([F], None, fancy=a.fancy and b.fancy, isset=(a.isset or b.isset) and isinstance(e.op, (ast.BitOr, ast.BitAnd, ast.Sub, ast.BitXor)))
        if isinstance(e, ast.UnaryOp):
            v = self.expr(e.operand, env)
            return AV([F], None, fancy=v.fancy)
        if isinstance(e, (ast.ListComp, ast.SetComp, ast.GeneratorExp, ast.DictComp)):
            env2 = dict(env)
            for g in e.generators:
                it = self.expr(g.iter, env2)
                self.check_set_iteration(g.iter, env2, e)
                self.assign(g.target, it.item(), env2, self.cur)
                for c in g.ifs:
                    self.expr(c, env2)
            if isinstance(e, ast.DictComp):
                v = self.expr(e.value, env2).join(self.expr(e.key, env2))
            else:
                v = self.expr(e.elt, env2)
            return AV([F], v, isset=isinstance(e, ast.SetComp)).cap()
        if isinstance(e, ast.Lambda):
            return FRESH
        if isinstance(e, ast.Slice):
            for x in (e.lower, e.upper, e.step):
                if x is not None:
                    self.expr(x, env)
            return FRESH
        if isinstance(e, ast.Starred):
            return self.expr(e.value, env)
        if isinstance(e, ast.JoinedStr):
            return FRESH
        if isinstance(e, ast.FormattedValue):
            return FRESH
        return FRESH

    def index_copies(self, sl, env, iv):
        """True when indexing with `sl` certainly copies (boolean mask / index array)"""
        if isinstance(sl, ast.Tuple):
            return any(self.index_copies(x, env, self.expr(x, env)) for x in sl.elts)
        if isinstance(sl, (ast.Compare, ast.UnaryOp)) and not isinstance(getattr(sl, 'operand', None), ast.Constant):
            return iv.fancy or isinstance(sl, ast.Compare)
        if isinstance(sl, ast.Call):
            d = frontend.dotted(sl.func) or ''
            return d.split('.')[-1] in ('where', 'argsort', 'flatnonzero', 'nonzero', 'logical_and', 'logical_or', 'logical_not',
                                        'argwhere', 'isnan', 'isfinite', 'astype', 'array', 'arange', 'unique', 'triu_indices',
                                        'tril_indices', 'searchsorted', 'list')
        if isinstance(sl, ast.Name):
            return iv.fancy
        if isinstance(sl, ast.List):
            return True
        return False

    def check_set_iteration(self, it, env, node):
        """iteration over a set has an arbitrary order: the loop body / comprehension must not depend on it"""
        v = self.expr(it, env) if not isinstance(it, ast.Name) else env.get(it.id, FRESH)
        if not v.isset:
            return
        ok, why = True, ''
        if isinstance(node, ast.For):
            for s in node.body:
                if isinstance(s, ast.AugAssign) and isinstance(s.op, (ast.Add, ast.Mult, ast.BitOr, ast.BitAnd)) and isinstance(s.target, ast.Name) \
                        and not any(isinstance(n, ast.Name) and n.id == s.target.id for n in ast.walk(s.value)):
                    continue        # commutative accumulation
                if isinstance(s, ast.Expr) and isinstance(s.value, ast.Call) and isinstance(s.value.func, ast.Attribute) and s.value.func.attr in ('add', 'update', 'discard'):
                    continue        # building another set
                if isinstance(s, (ast.Raise, ast.Pass)) or (isinstance(s, ast.Expr) and isinstance(s.value, ast.Constant)):
                    continue
                ok, why = False, 'statement `%s` may depend on the iteration order' % ast.unparse(s)[:60]
                break
        elif isinstance(node, ast.SetComp):
            ok = True
        else:
            ok, why = False, 'an ordered collection is built from a set'
        self.pure.append(dict(line=getattr(node, 'lineno', None), what='iteration over a set' + ('' if ok else ': ' + why), func=self.qual, kind='set-order', ok=ok))

    # ------------------------------------------------------------------ calls
    def call(self, e, env):
        d = frontend.dotted(e.func)
        args = [self.expr(a.value if isinstance(a, ast.Starred) else a, env) for a in e.args]
        kws = {k.arg: self.expr(k.value, env) for k in e.keywords}
        star_kw = kws.pop(None, None)
        # method call on a local object
        if isinstance(e.func, ast.Attribute) and (d is None or d.split('.')[0] in env or
                                                  (len(d.split('.')) == 2 and self.an.mutable_global(self.mod, d.split('.')[0]))):
            # (also a method of a module-level mutable object, e.g. TABLE.get(key, default): its result is part of module state)
            recv = self.expr(e.func.value, env)
            m = e.func.attr
            if m in MUTATING_METHODS:
                self.site('method', e, recv.orig, '%s.%s(...)' % (ast.unparse(e.func.value), m))
                if m in ('append', 'insert', 'extend', 'update', 'add', 'setdefault') and isinstance(e.func.value, ast.Name) \
                        and e.func.value.id in env:
                    b = env[e.func.value.id]
                    if m in ('extend', 'update'):
                        stored = [a.contents() for a in args]
                    elif m == 'insert':
                        stored = args[1:]
                    elif m == 'setdefault':
                        stored = args[1:]
                    else:
                        stored = args
                    for a in stored:
                        b = b.with_elem(a)
                    env[e.func.value.id] = b
            if m in VIEW_METHODS:
                return AV(recv.orig, recv.elem)
            if m == 'items':
                return AV([F], AV([F], None, comps=[FRESH, recv.contents()]))
            if m == 'setdefault' and len(args) > 1:
                return recv.contents().join(args[1])
            if m in ELEM_METHODS:
                return recv.contents()
            if m == 'astype':
                t = ast.unparse(e.args[0]) if e.args else ''
                return AV([F], None, fancy=('bool' in t or 'int' in t))
            if m in ('copy', 'union', 'intersection', 'difference', 'symmetric_difference'):
                return AV([F], recv.elem, isset=recv.isset)
            return FRESH
        kind = None
        if d is not None:
            if d in env and d in self.nested:
                return env.get('__ret__' + d, FRESH)
            if d in env:
                return FRESH                      # call of a function-valued local / parameter (A: callbacks do not write)
            kind = frontend.resolve(self.mod, d)
        if kind is None:
            self.expr(e.func, env)
            return FRESH
        if kind[0] == 'repo':
            q = '%s.%s' % (kind[1], kind[2])
            if q == 'util.filter_kwargs' and e.args:
                d2 = frontend.dotted(e.args[0])
                k2 = frontend.resolve(self.mod, d2) if d2 and d2 not in env else None
                if k2 and k2[0] == 'repo':
                    return self.repo_call('%s.%s' % (k2[1], k2[2]), e, args[1:], kws, star_kw, env, [a for a in e.args[1:]])
                return FRESH
            return self.repo_call(q, e, args, kws, star_kw, env, list(e.args))
        if kind[0] == 'lib':
            name = kind[1]
            if name.startswith(IMPURE_CALLS):
                self.pure.append(dict(line=e.lineno, what='call of ' + name, func=self.qual))
            if 'out' in kws:
                self.site('out=', e, kws['out'].orig, '%s(..., out=%s)' % (name, ast.unparse([k.value for k in e.keywords if k.arg == 'out'][0])))
            if name in UFUNC3 and len(args) >= 3:
                self.site('out=', e, args[2].orig, '%s(a, b, %s) writes its third argument' % (name, ast.unparse(e.args[2])))
            if name in INPLACE_FUNCS and args:
                self.site('inplace', e, args[INPLACE_FUNCS[name]].orig, '%s(%s, ...)' % (name, ast.unparse(e.args[0])))
            copy_false = any(k.arg == 'copy' and isinstance(k.value, ast.Constant) and k.value.value is False for k in e.keywords)
            if copy_false and args:
                if name == 'numpy.nan_to_num':
                    self.site('copy=False', e, args[0].orig, 'numpy.nan_to_num(%s, copy=False) writes its argument' % ast.unparse(e.args[0]))
                return AV(args[0].orig, args[0].elem)
            if name in VIEW_FUNCS and args:
                return AV(args[0].orig, args[0].elem)
            if name in SHALLOW_FUNCS or name.split('.')[-1] in ('list', 'tuple', 'sorted', 'set', 'dict', 'zip', 'enumerate'):
                return self.shallow(name.split('.')[-1], args, fancy=(name == 'numpy.array'))
            last = name.split('.')[-1]
            if last in ('where', 'argsort', 'flatnonzero', 'nonzero', 'argwhere', 'logical_and', 'logical_or', 'logical_not', 'isnan',
                        'isfinite', 'arange', 'searchsorted', 'unique', 'equal', 'less', 'less_equal', 'greater', 'greater_equal'):
                return AV([F], None, fancy=True)
            return FRESH
        if kind[0] == 'local':
            name = kind[1]
            if name in ('list', 'tuple', 'sorted', 'set', 'dict', 'zip', 'enumerate', 'reversed', 'iter', 'frozenset', 'filter', 'map'):
                return self.shallow(name, args)
            if name in ('id', 'hash') :
                self.pure.append(dict(line=e.lineno, what='call of %s()' % name, func=self.qual))
            if name in ('min', 'max', 'next') and args:
                r = None
                for a in args:
                    x = a if len(args) > 1 else a.item()
                    r = x if r is None else r.join(x)
                return r
            return FRESH
        return FRESH

    def shallow(self, name, args, fancy=False):
        if name == 'zip':
            return AV([F], AV([F], None, comps=[a.item() for a in args]))
        if name == 'enumerate' and args:
            return AV([F], AV([F], None, comps=[FRESH, args[0].item()]))
        if name in ('dict', 'OrderedDict') and args:
            e = args[0].elem
            if e is not None and e.comps is not None and len(e.comps) == 2:
                return AV([F], e.comps[1])
            return AV([F], e.elem if e is not None else None)
        el = None
        for a in args[:1]:
            el = a.elem
        return AV([F], el, fancy=fancy, isset=name in ('set', 'frozenset'))

    def repo_call(self, q, e, args, kws, star_kw, env, argnodes):
        s = self.an.summaries.get(q)
        if s is None:
            return FRESH
        bound = {}
        for p, a in zip(s.params, args):
            bound[p] = a
        for k, a in kws.items():
            bound[k] = a
        if star_kw is not None:
            for p in s.params:
                if p not in bound:
                    bound[p] = star_kw.contents()
        for p, why in s.mutates.items():
            key = p
            if key in bound:
                self.site('call', e, bound[key].orig, 'call of %s, which may write its parameter %s (%s)' % (q, p, why))
        ret = s.ret or FRESH

        extra = [x for x in args[len(s.params):]]

        def lookup(o):
            """abstract value bound to the symbolic origin o of the callee"""
            if not o.startswith('P:'):
                return AV([o], None)
            name = o[2:]
            if name in bound:
                return bound[name]
            if name.startswith('*'):
                r = None
                for x in extra:
                    r = x if r is None else r.join(x)
                if star_kw is not None:
                    r = star_kw.contents() if r is None else r.join(star_kw.contents())
                return r or FRESH
            return FRESH

        def subst(av, depth=0):
            if av is None:
                return None
            orig = set()
            deeper = None
            for o in av.orig:
                if not o.startswith('P:'):
                    orig.add(o)         # a module-level object (or fresh) is the same object at every nesting depth of the callee's value
                    continue
                b = lookup(o)
                # an origin at nesting depth d of the callee's parameter denotes the object d levels inside the argument
                x = b
                for _ in range(depth):
                    x = x.contents() if x is not None else None
                x = x or FRESH
                orig |= x.orig
                if o.startswith('P:') and av.elem is None and x.elem is not None:
                    deeper = x.elem if deeper is None else deeper.join(x.elem)
            elem = subst(av.elem, depth + 1)
            if elem is None:
                elem = deeper
            elif deeper is not None:
                elem = elem.join(deeper)
            comps = [subst(c, depth) for c in av.comps] if av.comps is not None else None
            return AV(orig or [F], elem, comps, av.fancy, av.isset).cap()
        return subst(ret)


def analyse():
    an = Analyzer()
    t0 = time.time()
    rounds = an.run()
    return an, rounds, time.time() - t0


# ----------------------------------------------------------------------------- engine entry point
def run(prop, tier, seed, known):
    t0 = time.time()
    an, rounds, dt = analyse()
    results = []
    per_fn = {}
    for q, sites in an.sites.items():
        if q.startswith('display.'):
            continue
        counts = {}
        for s in sites:
            key = (s['kind'], s['ordinal'])
            counts[key] = counts.get(key, 0) + 1
            oid = '%s#frame:%s@s%d%s' % (q, s['kind'], s['ordinal'], '' if counts[key] == 1 else '.%d' % counts[key])
            ok = not s['origins']
            per_fn.setdefault(q, []).append(dict(
                id=oid, kind='frame', label=s['kind'], props=['C15'], line=s['line'],
                note='' if ok else '%s may write an object owned by the caller or the module: %s' % (s['what'], ', '.join(s['origins'])),
                expect='unsat', verdict='discharged' if ok else 'refuted', backend='origin-analysis', time=0.0,
                model=None if ok else dict(site=s['what'], origins=s['origins'], function=s['func'], line=s['line']),
                goal='target of `%s` is fresh on every path' % s['what'][:120], finding=None))
    for q, ps in an.pure.items():
        if q.startswith('display.'):
            continue
        for i, p in enumerate(ps):
            per_fn.setdefault(q, []).append(dict(
                id='%s#pure:%s%d' % (q, 'set-order' if p.get('kind') == 'set-order' else '', i), kind='frame', label='pure', props=['C15'], line=p['line'],
                note='%s in %s' % (p['what'], p['func']), expect='unsat', verdict='discharged' if p.get('ok') else 'refuted', backend='origin-analysis', time=0.0,
                model=dict(site=p['what'], function=p['func'], line=p['line']), goal='no global state / nondeterminism source', finding=None))
    # every function gets one summary obligation so that a function without mutation sites is still counted as analysed
    for m in frontend.MODULES:
        mod = frontend.module(m)
        for name in mod.functions:
            q = '%s.%s' % (m, name)
            obs = per_fn.get(q, [])
            obs.append(dict(id='%s#frame:summary' % q, kind='frame', label='summary', props=['C15'], line=mod.functions[name].lineno, note='',
                            expect='unsat', verdict='discharged' if not an.summaries[q].mutates else 'refuted', backend='origin-analysis', time=0.0,
                            model=None if not an.summaries[q].mutates else dict(writes_parameters=an.summaries[q].mutates),
                            goal='assigns(): %s writes none of its parameters (transitively)' % q, finding=None))
            per_fn[q] = obs
    harness_cache = {}
    for q, obs in sorted(per_fn.items()):
        for o in obs:
            if o['verdict'] == 'refuted':
                if 'h' not in harness_cache:
                    try:
                        from . import purity_native
                        harness_cache['h'] = purity_native.run_harness(seed, 3)
                    except Exception as ex:
                        harness_cache['h'] = (0, [dict(kind='harness-error', recipe='', what=str(ex)[:200])])
                n, findings = harness_cache['h']
                real = [f for f in findings if f['kind'] != 'harness-error']
                o['native'] = dict(confirmed=bool(real), recipes=n, findings=real[:5])
        results.append(dict(kind='engine', engine='frames', name=q, status='ok', detail='', paths=0, obligations=obs, inlined=[],
                            used_contracts=[], gen_time=0, wall=0, lib_used=[], props=['C15']))
    bounded = []
    from . import purity_native
    t1 = time.time()
    if 'h' in harness_cache:
        n, findings = harness_cache['h']
    else:
        try:
            n, findings = purity_native.run_harness(seed, 3 if tier == 'quick' else 10)
        except Exception as ex:
            n, findings = 0, [dict(kind='harness-error', recipe='', what=str(ex)[:300])]
    bounded.append(dict(name='native purity harness: argument snapshots, repeatability, reversed order on fresh module state',
                        bound='%d call recipes over evaluate() of 13 tasks, util, melody, multipitch, chord, sonify, separation, io' % n,
                        cases=n, exhaustive=False, failures=findings[:5], wall_s=round(time.time() - t1, 2)))
    real = [f for f in findings if f['kind'] != 'harness-error']
    if real and not any(o['verdict'] == 'refuted' for obs in per_fn.values() for o in obs):
        results.append(dict(kind='engine', engine='frames', name='purity harness', status='ok', detail='', paths=0, inlined=[], used_contracts=[],
                            gen_time=0, wall=0, lib_used=[], props=['C15'],
                            obligations=[dict(id='harness#bounded:purity', kind='bounded', label='purity', props=['C15'], line=None,
                                              note=str(real[0])[:300], expect='unsat', verdict='refuted', backend='native', time=0.0,
                                              model=dict(example=real[0]), goal='arguments unmodified and results repeatable',
                                              native=dict(confirmed=True, findings=real[:5]), finding=None)]))
    return dict(results=results, bounded=bounded, info=dict(rounds=rounds, analysis_s=round(dt, 2)))


def replay(rec):
    from . import purity_native
    n, findings = purity_native.run_harness(0, 3)
    real = [f for f in findings if f['kind'] != 'harness-error']
    if real:
        return True, 'native purity harness: %d findings over %d recipes, e.g. %s' % (len(real), n, real[0])
    return False, 'native purity harness found nothing over %d recipes (no-failing-input-found); failed obligation: %s' % (n, rec.get('obligation'))
