"""Bounded stand-in for the ranking core of the hierarchy measures (C17): tmeasure / lmeasure against the brute-force
triplet definition on small hierarchies (<= 3 levels, lattice boundaries, binary-exact frame sizes)."""
import math
import random
import time
import warnings


def nframes(hier, fs):
    b = [p for lv in hier for iv in lv for p in iv]
    fl = lambda t: t - math.fmod(t, fs)
    return int((fl(max(b)) - fl(min(b))) / fs)


def lca_matrix(hier, fs):
    n = nframes(hier, fs)
    M = [[0] * n for _ in range(n)]
    for level, ivs in enumerate(hier, 1):
        for s, e in ivs:
            a, b = int((s - math.fmod(s, fs)) / fs), int((e - math.fmod(e, fs)) / fs)
            for i in range(max(a, 0), min(b, n)):
                for j in range(max(a, 0), min(b, n)):
                    M[i][j] = level
    return M


def meet_matrix(hier, labs, fs):
    n = nframes(hier, fs)
    M = [[0] * n for _ in range(n)]
    for level, (ivs, ls) in enumerate(zip(hier, labs), 1):
        fr = [(int((s - math.fmod(s, fs)) / fs), int((e - math.fmod(e, fs)) / fs)) for s, e in ivs]
        for x in range(len(ivs)):
            for y in range(len(ivs)):
                if ls[x].lower() == ls[y].lower():
                    for i in range(max(fr[x][0], 0), min(fr[x][1], n)):
                        for j in range(max(fr[y][0], 0), min(fr[y][1], n)):
                            M[i][j] = level
    return M


def gauc(ref, est, transitive, window):
    n = len(ref)
    if window is None:
        window = n
    score, counted = 0.0, 0
    for q in range(n):
        cand = [i for i in range(max(0, q - window), min(n, q + window)) if i != q]
        norm = inv = 0
        for i in cand:
            for j in cand:
                # the reference ranks j strictly closer to q than i (by exactly one level when reduced)
                d = ref[q][j] - ref[q][i]
                if (d > 0 and transitive) or d == 1:
                    norm += 1
                    if not est[q][j] > est[q][i]:
                        inv += 1
        if norm:
            score += 1.0 - inv / norm
            counted += 1
    return score / counted if counted else 0.0


def fbeta(p, r, beta):
    return 0.0 if p == 0 and r == 0 else (1 + beta ** 2) * p * r / (beta ** 2 * p + r)


def run(prop, tier, seed, known):
    from .. import native
    native.import_repo()
    import numpy as np
    from mir_eval import hierarchy as Hm
    rng = random.Random(seed)
    from ._tag import Fails
    fails = Fails(prop, (('exchanging reference', ('C06', 'C17')), ('triplet definition', ('C17',)), ('is cut at', ('C12',)), ('hierarchy.evaluate', ('C17', 'C03')),
                         ('tmeasure accepted', ('C17', 'C14')), ('instead of ValueError', ('C17', 'C14')), ('on a valid input', ('C17', 'C14'))))
    n = 0
    t0 = time.time()

    def level(k, end):
        cuts = sorted(rng.sample([x * 0.5 for x in range(1, int(end / 0.5))], min(k - 1, int(end / 0.5) - 1))) if k > 1 else []
        if cuts and rng.random() < 0.15:
            # a boundary a few microseconds below a frame edge (still in the earlier frame; nothing rounds boundaries before framing)
            j_ = rng.randrange(len(cuts))
            cuts[j_] = cuts[j_] - 4e-06
        b = [0.0] + cuts + [end]
        return [[b[i], b[i + 1]] for i in range(len(b) - 1)]

    def hierarchy(end):
        L = rng.randint(1, 3)
        h = [level(1 if (lv == 0 and rng.random() < 0.6) else rng.randint(1, 2 + lv), end) for lv in range(L)]
        r_ = rng.random()
        if r_ < 0.2 and end >= 2.0:
            # a top level with a segment exactly one (coarse) frame long, possibly labelled like nothing else
            a_ = rng.choice([0.0, 1.0, end - 1.0])
            cuts_ = sorted({0.0, a_, a_ + 1.0, end})
            h[0] = [[cuts_[k_], cuts_[k_ + 1]] for k_ in range(len(cuts_) - 1)]
        elif r_ < 0.4 and L >= 2:
            # two levels with identical segments (their labels will differ)
            h[1] = [list(iv_) for iv_ in h[0]]
        labs = [[rng.choice(['a', 'b', 'c', 'A']) for _ in lv] for lv in h]
        if r_ < 0.2 and len(h[0]) >= 2:
            labs[0][[iv_[0] for iv_ in h[0]].index(a_)] = 'solo'
        if rng.random() < 0.25:
            # the segments of a level listed out of chronological order (valid: a level is a set of labelled intervals)
            for k_ in range(L):
                order = list(range(len(h[k_])))
                rng.shuffle(order)
                h[k_] = [h[k_][o] for o in order]
                labs[k_] = [labs[k_][o] for o in order]
        return h, labs
    with warnings.catch_warnings():
        warnings.simplefilter('ignore')
        for it in range(200 if tier == 'quick' else 1500):
            end = rng.choice([3.0, 4.0, 5.0])
            rh, rl = hierarchy(end)
            eh, el = hierarchy(end)
            fs = rng.choice([0.5, 1.0])
            window = rng.choice([None, fs, 2 * fs, 3.0])
            transitive = rng.random() < 0.5
            beta = rng.choice([1.0, 2.0])
            n += 1
            ra = [np.array(x) for x in rh]
            ea = [np.array(x) for x in eh]
            try:
                got = tuple(float(x) for x in Hm.tmeasure(ra, ea, transitive=transitive, window=window, frame_size=fs, beta=beta))
            except Exception as ex:
                fails.append('tmeasure raised %s on a valid input (window=%s, frame_size=%s): %s' % (type(ex).__name__, window, fs, str(ex)[:80]))
                continue
            wf = None if window is None else int((window - math.fmod(window, fs)) / fs)
            R = gauc(lca_matrix(rh, fs), lca_matrix(eh, fs), transitive, wf)
            P = gauc(lca_matrix(eh, fs), lca_matrix(rh, fs), transitive, wf)
            want = (P, R, fbeta(P, R, beta))
            if any(abs(a - b) > 1e-9 for a, b in zip(got, want)) or any(not (0 <= x <= 1) for x in got):
                fails.append('tmeasure(ref=%s, est=%s, transitive=%s, window=%s, frame_size=%s) = %s, triplet definition gives %s' % (rh, eh, transitive, window, fs, got, want))
            # C06: exchanging the two hierarchies exchanges precision and recall and keeps F at beta = 1
            try:
                gsw = tuple(float(x) for x in Hm.tmeasure(ea, ra, transitive=transitive, window=window, frame_size=fs, beta=1.0))
                g1 = tuple(float(x) for x in Hm.tmeasure(ra, ea, transitive=transitive, window=window, frame_size=fs, beta=1.0))
                if abs(g1[0] - gsw[1]) > 1e-9 or abs(g1[1] - gsw[0]) > 1e-9 or abs(g1[2] - gsw[2]) > 1e-9:
                    fails.append('tmeasure: exchanging reference and estimate does not exchange precision and recall: %s vs %s (ref %s, est %s, window=%s, frame_size=%s)'
                                 % (g1, gsw, rh, eh, window, fs))
                l1 = tuple(float(x) for x in Hm.lmeasure(ra, rl, ea, el, frame_size=fs, beta=1.0))
                lsw = tuple(float(x) for x in Hm.lmeasure(ea, el, ra, rl, frame_size=fs, beta=1.0))
                if abs(l1[0] - lsw[1]) > 1e-9 or abs(l1[1] - lsw[0]) > 1e-9 or abs(l1[2] - lsw[2]) > 1e-9:
                    fails.append('lmeasure: exchanging reference and estimate does not exchange precision and recall: %s vs %s (ref %s %s, est %s %s)' % (l1, lsw, rh, rl, eh, el))
            except Exception as ex:
                fails.append('tmeasure / lmeasure raised %s on a valid input with the roles exchanged' % type(ex).__name__)
            gotl = tuple(float(x) for x in Hm.lmeasure(ra, rl, ea, el, frame_size=fs, beta=beta))
            Rl = gauc(meet_matrix(rh, rl, fs), meet_matrix(eh, el, fs), True, None)
            Pl = gauc(meet_matrix(eh, el, fs), meet_matrix(rh, rl, fs), True, None)
            wantl = (Pl, Rl, fbeta(Pl, Rl, beta))
            if any(abs(a - b) > 1e-9 for a, b in zip(gotl, wantl)) or any(not (0 <= x <= 1) for x in gotl):
                fails.append('lmeasure(ref=%s %s, est=%s %s, frame_size=%s) = %s, triplet definition gives %s' % (rh, rl, eh, el, fs, gotl, wantl))
            # evaluate(): reduced / full / L entries, also when the caller passes transitive
            ev = Hm.evaluate(ra, rl, ea, el, frame_size=fs, window=window, transitive=transitive)
            red = tuple(float(x) for x in Hm.tmeasure(ra, ea, transitive=False, window=window, frame_size=fs))
            full = tuple(float(x) for x in Hm.tmeasure(ra, ea, transitive=True, window=window, frame_size=fs))
            if (ev['T-Precision reduced'], ev['T-Recall reduced'], ev['T-Measure reduced']) != red or \
                    (ev['T-Precision full'], ev['T-Recall full'], ev['T-Measure full']) != full:
                fails.append('hierarchy.evaluate(transitive=%s): reduced/full entries are not tmeasure(transitive=False/True)' % transitive)
            # both hierarchies start at 0 and share their end: the alignment done by evaluate() changes nothing, so the L entries are lmeasure
            lm = tuple(float(x) for x in Hm.lmeasure(ra, rl, ea, el, frame_size=fs))
            if any(abs(a - b) > 1e-12 for a, b in zip((ev['L-Precision'], ev['L-Recall'], ev['L-Measure']), lm)):
                fails.append('hierarchy.evaluate: L entries %s are not lmeasure on the same (already aligned) annotations %s (ref labels %s, est labels %s)'
                             % ((ev['L-Precision'], ev['L-Recall'], ev['L-Measure']), lm, rl, el))
            # C12: cutting a segment into two consecutive pieces with the same label changes no L-measure
            lv = rng.randrange(len(rh))
            j = rng.randrange(len(rh[lv]))
            s0, e0 = rh[lv][j]
            if e0 - s0 >= 0.5:
                cut = s0 + 0.25 * rng.randint(1, int((e0 - s0) / 0.25) - 1)
                rh2 = [list(x) for x in rh]
                rl2 = [list(x) for x in rl]
                rh2[lv] = rh[lv][:j] + [[s0, cut], [cut, e0]] + rh[lv][j + 1:]
                rl2[lv] = rl[lv][:j] + [rl[lv][j], rl[lv][j]] + rl[lv][j + 1:]
                gl2 = tuple(float(x) for x in Hm.lmeasure([np.array(x) for x in rh2], rl2, ea, el, frame_size=fs, beta=beta))
                if any(abs(a - b) > 1e-9 for a, b in zip(gotl, gl2)):
                    fails.append('lmeasure changes when reference segment %s (level %d) is cut at %s: %s vs %s (frame_size=%s)' % ([s0, e0], lv, cut, gotl, gl2, fs))
            # rejected parameters
            for bad in (dict(frame_size=0.0), dict(frame_size=-1.0), dict(frame_size=2.0, window=1.0), dict(frame_size=1.0, window=0), dict(frame_size=0.5, window=0.0)):
                try:
                    Hm.tmeasure(ra, ea, **bad)
                    fails.append('tmeasure accepted %s' % bad)
                except ValueError:
                    pass
                except Exception as ex:
                    fails.append('tmeasure(%s) raised %s instead of ValueError' % (bad, type(ex).__name__))
            if len(fails) > 5:
                break
        # C12 on off-grid boundaries: cuts at arbitrary interior points of a 0.1 lattice (segment ends that are not frame multiples)
        ncut = 0
        for it in range(15 if tier == "quick" else 400):
            end = rng.choice([4.3, 5.8, 6.1])
            def lev(k):
                pts = sorted(rng.sample([round(0.1 * x, 1) for x in range(3, int(end * 10) - 2)], k - 1)) if k > 1 else []
                b = [0.0] + pts + [end]
                return [[b[i], b[i + 1]] for i in range(len(b) - 1)]
            rh = [lev(1), lev(rng.randint(2, 4))]
            rl = [['all'], [rng.choice(['a', 'b', 'c']) for _ in rh[1]]]
            eh = [lev(1), lev(rng.randint(2, 3))]
            el = [['all'], [rng.choice(['a', 'b']) for _ in eh[1]]]
            fs = rng.choice([0.5, 1.0])
            base = tuple(float(x) for x in Hm.lmeasure([np.array(x) for x in rh], rl, [np.array(x) for x in eh], el, frame_size=fs))
            for j, (s0, e0) in enumerate(rh[1]):
                for c10 in range(int(round(s0 * 10)) + 1, int(round(e0 * 10))):
                    cut = round(c10 / 10.0, 1)
                    rh2 = [rh[0], rh[1][:j] + [[s0, cut], [cut, e0]] + rh[1][j + 1:]]
                    rl2 = [rl[0], rl[1][:j] + [rl[1][j], rl[1][j]] + rl[1][j + 1:]]
                    got2 = tuple(float(x) for x in Hm.lmeasure([np.array(x) for x in rh2], rl2, [np.array(x) for x in eh], el, frame_size=fs))
                    ncut += 1
                    if any(abs(a - b) > 1e-9 for a, b in zip(base, got2)):
                        fails.append('lmeasure changes when segment %s is cut at %s (frame_size=%s): %s vs %s' % ([s0, e0], cut, fs, base, got2))
                        break
            if len(fails) > 5:
                break
        n += ncut
    bounded = [dict(name='hierarchy.tmeasure / lmeasure / evaluate vs the brute-force triplet-ranking definition; rejected parameters; cut invariance of lmeasure',
                    bound='%d random hierarchies (1-3 levels, boundaries on a 0.5 lattice), frame_size in {0.5, 1}, window in {None, fs, 2fs, 3}, transitive in {T,F}' % n,
                    cases=n, exhaustive=False, failures=fails[:4], wall_s=round(time.time() - t0, 2))]
    results = []
    if fails:
        results.append(dict(kind='engine', engine='hiernative', name='hierarchy measures', status='ok', detail='', paths=0, inlined=[], used_contracts=[],
                            gen_time=0, wall=0, lib_used=[], props=[prop],
                            obligations=[dict(id='hierarchy#bounded:triplet-definition', kind='bounded', label='triplet-definition', props=[prop], line=None,
                                              note=fails[0][:500], expect='unsat', verdict='refuted', backend='native', time=0.0, model=dict(example=fails[0]),
                                              goal='T-/L-measures equal the triplet-ranking definition', native=dict(confirmed=True, example=fails[0]), finding=None)]))
    return dict(results=results, bounded=bounded)


def replay(rec):
    r = run(rec.get('property', 'C17'), 'quick', 0, None)
    fails = [f for b in r['bounded'] for f in b['failures']]
    return bool(fails), 'hierarchy measures vs triplet definition: %s' % (fails[:2] or 'no failure')
