"""Bounded stand-in for the clauses of C13 that are not discharged deductively (label preservation per instant,
adjust_events, merge_labeled_intervals, interpolate_intervals / intervals_to_samples, boundary round trip).

Exhaustive over a small exact-arithmetic scope: annotations built from the lattice {0, 1/4, .., 2} (<= 3 intervals,
gaps allowed), every t_min / t_max on the lattice (and None), every sample grid of the lattice.  Each check compares
the real function with an independent per-instant specification.
"""
import itertools
import time
import warnings

KNOWN_OUTSIDE = 'KF-adjust-outside'


def annotations(max_n=3, grid=(0.0, 0.25, 0.5, 0.75, 1.0, 1.5, 2.0)):
    """all time-ordered, positive-duration, non-overlapping annotations with <= max_n intervals on the grid"""
    out = [[]]
    for n in range(1, max_n + 1):
        for pts in itertools.combinations(grid, 2 * n):
            out.append([[pts[2 * k], pts[2 * k + 1]] for k in range(n)])
        # contiguous ones (shared boundaries)
        for pts in itertools.combinations(grid, n + 1):
            out.append([[pts[k], pts[k + 1]] for k in range(n)])
        # one shared boundary + one gap
        if n >= 2:
            for pts in itertools.combinations(grid, 2 * n - 1):
                iv = [[pts[0], pts[1]], [pts[1], pts[2]]]
                rest = pts[3:]
                iv += [[rest[2 * k], rest[2 * k + 1]] for k in range(len(rest) // 2)]
                if len(iv) == n:
                    out.append(iv)
    return out


def label_at(iv, labels, t, later=True):
    """label of the interval containing instant t under the half-open reading [s, e); None if uncovered"""
    for (s, e), l in zip(iv, labels):
        if s <= t < e:
            return l
    return None


def probes(points):
    pts = sorted(set(points))
    out = set(pts)
    for a, b in zip(pts, pts[1:]):
        out.add((a + b) / 2)
    if pts:
        out.add(pts[0] - 0.125)
        out.add(pts[-1] + 0.125)
    return sorted(out)


def run(prop, tier, seed, known):
    from .. import native
    native.import_repo()
    import numpy as np
    from mir_eval import util
    results, bounded, all_fails = [], [], []
    anns = annotations(2 if tier == 'quick' else 3)
    grid = [0.0, 0.25, 0.5, 0.75, 1.0, 1.5, 2.0, 2.5]
    with warnings.catch_warnings():
        warnings.simplefilter('ignore')
        # ---- adjust_intervals: per-instant label preservation
        t0 = time.time()
        fails, n, skipped = [], 0, 0
        for iv in anns:
            labels = ['L%d' % k for k in range(len(iv))]
            for t_min in [None] + grid:
                for t_max in [None] + grid:
                    if t_min is not None and t_max is not None and not t_min < t_max:
                        continue
                    arr = np.array(iv, dtype=float).reshape(-1, 2)
                    lab_in = list(labels)
                    n += 1
                    outside = bool(iv) and ((t_min is not None and all(e <= t_min for s, e in iv)) or (t_max is not None and all(s >= t_max for s, e in iv)))
                    try:
                        out, lab = util.adjust_intervals(arr, lab_in, t_min=t_min, t_max=t_max, start_label='S', end_label='E')
                    except ValueError:
                        if not iv and (t_min is None or t_max is None):
                            continue                    # documented: nothing to extend
                        if outside:
                            skipped += 1                # recorded known finding (annotation wholly outside the range)
                            continue
                        fails.append('adjust_intervals(%s, t_min=%s, t_max=%s) raised ValueError' % (iv, t_min, t_max))
                        continue
                    if outside:
                        skipped += 1
                        continue
                    if lab_in != labels:
                        fails.append('adjust_intervals modified its label argument')
                    out = out.tolist()
                    lo = t_min if t_min is not None else (iv[0][0] if iv else None)
                    hi = t_max if t_max is not None else (iv[-1][1] if iv else None)
                    if len(out) != len(lab) or any(not s < e for s, e in out) or any(a[1] > b[0] for a, b in zip(out, out[1:])):
                        fails.append('adjust_intervals(%s, %s, %s) -> malformed %s' % (iv, t_min, t_max, out))
                        continue
                    if t_min is not None and out[0][0] != t_min or t_max is not None and out[-1][1] != t_max:
                        fails.append('adjust_intervals(%s, %s, %s) does not span the range: %s' % (iv, t_min, t_max, out))
                        continue
                    for t in probes([p for r in iv for p in r] + [x for x in (t_min, t_max) if x is not None]):
                        got = label_at(out, lab, t)
                        inside = (lo is None or t >= lo) and (hi is None or t < hi)
                        ok_alt = set()
                        if not inside:
                            want = None
                        elif not iv:
                            want = 'S'
                        else:
                            want = label_at(iv, labels, t)
                            if want is None:
                                if t < iv[0][0]:
                                    want = 'S'
                                elif t >= iv[-1][1]:
                                    want = 'E'
                                else:
                                    # an instant of an internal gap stays uncovered; when t_min / t_max itself lies in that gap the library
                                    # pads from t_min to the next start (to t_max from the previous end) with the fill label, which the
                                    # requirement "begins at t_min / ends at t_max" forces - both readings are accepted here
                                    prev_end = max(e for s, e in iv if e <= t)
                                    next_start = min(s for s, e in iv if s > t)
                                    if t_min is not None and prev_end <= t_min < next_start:
                                        ok_alt.add('S')
                                    if t_max is not None and prev_end < t_max <= next_start:
                                        ok_alt.add('E')
                        if got != want and got in ok_alt:
                            continue
                        if got != want:
                            fails.append('adjust_intervals(%s, t_min=%s, t_max=%s): instant %s has label %r, expected %r (out=%s %s)' % (iv, t_min, t_max, t, got, want, out, lab))
                            break
                    if len(fails) > 5:
                        break
        bounded.append(dict(name='util.adjust_intervals: every instant of the range keeps its label (fill labels before/after, gaps stay uncovered), arguments unmodified',
                            bound='%d annotations (<=%d intervals, gaps and shared boundaries) x all t_min, t_max in {None} + 8 lattice points; %d wholly-outside cases skipped (known finding)' % (len(anns), 2 if tier == 'quick' else 3, skipped),
                            cases=n, exhaustive=True, failures=fails[:3], wall_s=round(time.time() - t0, 2)))
        all_fails += fails
        # ---- adjust_events
        t0 = time.time()
        fails, n = [], 0
        for k in range(1, 4):
            for ev in itertools.combinations(grid[:6], k):
                for t_min in [None] + grid[:6]:
                    for t_max in [None] + grid[:6]:
                        if t_min is not None and t_max is not None and not t_min < t_max:
                            continue
                        if (t_min is not None and all(x < t_min for x in ev)) or (t_max is not None and all(x > t_max for x in ev)):
                            continue
                        labels = ['L%d' % i for i in range(k)]
                        n += 1
                        out, lab = util.adjust_events(np.array(ev), list(labels), t_min=t_min, t_max=t_max)
                        want = [(x, l) for x, l in zip(ev, labels) if (t_min is None or x >= t_min) and (t_max is None or x <= t_max)]
                        if t_min is not None and (not want or want[0][0] > t_min):
                            want = [(t_min, '__T_MIN')] + want
                        if t_max is not None and (not want or want[-1][0] < t_max):
                            want = want + [(t_max, '__T_MAX')]
                        if list(zip(out.tolist(), lab)) != want:
                            fails.append('adjust_events(%s, t_min=%s, t_max=%s) = %s, expected %s' % (ev, t_min, t_max, list(zip(out.tolist(), lab)), want))
        bounded.append(dict(name='util.adjust_events: events inside the range kept with their labels, synthetic events exactly at missing range ends',
                            bound='all event sets (<=3) on 6 lattice points x all t_min, t_max', cases=n, exhaustive=True, failures=fails[:3],
                            wall_s=round(time.time() - t0, 2)))
        all_fails += fails
        # ---- merge_labeled_intervals
        t0 = time.time()
        fails, n = [], 0
        contiguous = [a for a in anns if a and all(x[1] == y[0] for x, y in zip(a, a[1:]))]
        for x in contiguous:
            for y in contiguous:
                n += 1
                xl = ['x%d' % i for i in range(len(x))]
                yl = ['y%d' % i for i in range(len(y))]
                aligned = x[0][0] == y[0][0] and x[-1][1] == y[-1][1]
                try:
                    out, oxl, oyl = util.merge_labeled_intervals(np.array(x), xl, np.array(y), yl)
                except ValueError:
                    if aligned:
                        fails.append('merge_labeled_intervals raised on aligned annotations %s %s' % (x, y))
                    continue
                if not aligned:
                    fails.append('merge_labeled_intervals accepted misaligned annotations %s %s' % (x, y))
                    continue
                out = out.tolist()
                bounds = sorted({p for r in x + y for p in r})
                if out != [[a, b] for a, b in zip(bounds, bounds[1:])]:
                    fails.append('merge_labeled_intervals(%s, %s) = %s is not the common refinement' % (x, y, out))
                    continue
                if abs(sum(e - s for s, e in out) - (x[-1][1] - x[0][0])) > 1e-12:
                    fails.append('merge_labeled_intervals does not conserve duration')
                for (s, e), a, b in zip(out, oxl, oyl):
                    mid = (s + e) / 2
                    if a != label_at(x, xl, mid) or b != label_at(y, yl, mid):
                        fails.append('merge_labeled_intervals(%s, %s): piece [%s,%s] carries (%s,%s)' % (x, y, s, e, a, b))
                        break
        # annotations with internal gaps (the quantifier includes them): the boundaries are still exactly the end points of both inputs and
        # every piece inside an input interval carries its label; which label a piece inside a gap shows is not asserted
        gapped = [a for a in anns if a and any(x[1] < y[0] for x, y in zip(a, a[1:]))]
        n_gap = 0
        for x in gapped:
            for y in [a for a in anns if a]:
                if not (x[0][0] == y[0][0] and x[-1][1] == y[-1][1]):
                    continue
                for p, q in ((x, y), (y, x)):
                    n += 1
                    n_gap += 1
                    pl = ['x%d' % i for i in range(len(p))]
                    ql = ['y%d' % i for i in range(len(q))]
                    try:
                        out, opl, oql = util.merge_labeled_intervals(np.array(p), pl, np.array(q), ql)
                    except Exception as ex:
                        fails.append('merge_labeled_intervals raised %s on aligned annotations %s %s' % (type(ex).__name__, p, q))
                        continue
                    out = out.tolist()
                    bounds = sorted({t for r in p + q for t in r})
                    if out != [[a, b] for a, b in zip(bounds, bounds[1:])]:
                        fails.append('merge_labeled_intervals(%s, %s) = %s is not the common refinement (boundaries %s)' % (p, q, out, bounds))
                        continue
                    for (s_, e_), a, b in zip(out, opl, oql):
                        mid = (s_ + e_) / 2
                        wa, wb = label_at(p, pl, mid), label_at(q, ql, mid)
                        if (wa is not None and a != wa) or (wb is not None and b != wb):
                            fails.append('merge_labeled_intervals(%s, %s): piece [%s,%s] carries (%s,%s)' % (p, q, s_, e_, a, b))
                            break
        # boundaries that are not multiples of 1e-5 (and pairs closer than 1e-5): the refinement keeps every input boundary exactly
        import random as _random
        rng = _random.Random(7)
        for _ in range(60):
            end = 3.0 + rng.choice([0.0, 0.000004, 0.1234567])
            def off():
                pts = sorted({round(rng.uniform(0.2, 2.8), 2) + rng.choice([0.0, 0.000004, 0.0000049, -0.000003, 0.1234567e-3]) for _ in range(rng.randint(0, 3))})
                b = [0.0] + pts + [end]
                return [[b[i], b[i + 1]] for i in range(len(b) - 1)]
            x, y = off(), off()
            if rng.random() < 0.3 and len(x) > 1:
                y = [[0.0, x[0][1] + 0.000003]] + [[x[0][1] + 0.000003, end]]
            n += 1
            xl = ['x%d' % i for i in range(len(x))]
            yl = ['y%d' % i for i in range(len(y))]
            try:
                out, oxl, oyl = util.merge_labeled_intervals(np.array(x), xl, np.array(y), yl)
            except Exception as ex:
                fails.append('merge_labeled_intervals raised %s on aligned annotations %s %s' % (type(ex).__name__, x, y))
                continue
            out = out.tolist()
            bounds = sorted({p for r in x + y for p in r})
            if out != [[a, b] for a, b in zip(bounds, bounds[1:])]:
                fails.append('merge_labeled_intervals(%s, %s) = %s is not the common refinement (boundaries %s)' % (x, y, out, bounds))
                continue
            for (s_, e_), a, b in zip(out, oxl, oyl):
                mid = (s_ + e_) / 2
                if a != label_at(x, xl, mid) or b != label_at(y, yl, mid):
                    fails.append('merge_labeled_intervals(%s, %s): piece [%s,%s] carries (%s,%s)' % (x, y, s_, e_, a, b))
                    break
        bounded.append(dict(name='util.merge_labeled_intervals: common refinement, per-piece labels of both annotations, duration conserved, ValueError iff misaligned',
                            bound='all pairs of %d contiguous annotations on the lattice, %d aligned pairs with an internal gap in one annotation, plus 60 random pairs with boundaries off the 1e-5 grid' % (len(contiguous), n_gap), cases=n, exhaustive=True, failures=fails[:3],
                            wall_s=round(time.time() - t0, 2)))
        all_fails += fails
        # ---- interpolate_intervals / intervals_to_samples
        t0 = time.time()
        fails, n = [], 0
        for iv in anns + [[[0.0, 1.0], [1.0, 2.0], [4.0, 6.0]], [[1.0, 3.0], [5.0, 6.0]]]:
            if not iv:
                continue
            labels = ['L%d' % k for k in range(len(iv))]
            for k in range(1, 4):
                for pts in itertools.combinations_with_replacement(grid, k):
                    n += 1
                    got = util.interpolate_intervals(np.array(iv), labels, list(pts), fill_value='F')
                    want = []
                    for t in pts:
                        # closed intervals; at a shared boundary the later interval wins
                        cands = [l for (s, e), l in zip(iv, labels) if s <= t <= e]
                        want.append(cands[-1] if cands else 'F')
                    if got != want:
                        fails.append('interpolate_intervals(%s, %s) = %s, expected %s' % (iv, pts, got, want))
                        break
                if len(fails) > 5:
                    break
            for size, offset in ((0.25, 0.0), (0.5, 0.0), (0.5, 0.25), (0.75, 0.0)):
                n += 1
                times, labs = util.intervals_to_samples(np.array(iv), labels, offset=offset, sample_size=size, fill_value='F')
                kmax = int(np.floor(np.array(iv).max() / size))
                want_t = [i * size + offset for i in range(kmax)]
                if times != want_t:
                    fails.append('intervals_to_samples(%s, size=%s, offset=%s) times %s, expected %s' % (iv, size, offset, times, want_t))
                    continue
                want_l = []
                for t in want_t:
                    cands = [l for (s, e), l in zip(iv, labels) if s <= t <= e]
                    want_l.append(cands[-1] if cands else 'F')
                if labs != want_l:
                    fails.append('intervals_to_samples(%s, size=%s, offset=%s) labels %s, expected %s' % (iv, size, offset, labs, want_l))
            if all(float(v).is_integer() for r_ in iv for v in r_):
                # integer-typed interval arrays (e.g. boundaries_to_intervals(np.arange(n))) with fractional sample times
                iarr = np.array(iv, dtype=int)
                pts = [p_ + 0.5 for p_ in range(-1, int(iarr.max()) + 2)]
                n += 1
                got = util.interpolate_intervals(iarr, labels, pts, fill_value='F')
                want = []
                for t in pts:
                    cands = [l for (s, e), l in zip(iv, labels) if s <= t <= e]
                    want.append(cands[-1] if cands else 'F')
                if got != want:
                    fails.append('interpolate_intervals(integer array %s, %s) = %s, expected %s' % (iv, pts, got, want))
                times, labs = util.intervals_to_samples(iarr, labels, offset=0.5, sample_size=1.0, fill_value='F')
                want_l = []
                for t in times:
                    cands = [l for (s, e), l in zip(iv, labels) if s <= t <= e]
                    want_l.append(cands[-1] if cands else 'F')
                if labs != want_l or times != [i + 0.5 for i in range(int(iarr.max()))]:
                    fails.append('intervals_to_samples(integer array %s, offset 0.5) = %s %s, expected labels %s' % (iv, times, labs, want_l))
            try:
                util.interpolate_intervals(np.array(iv), labels, [1.0, 0.5])
                fails.append('interpolate_intervals accepted decreasing time points')
            except ValueError:
                pass
        bounded.append(dict(name='util.interpolate_intervals / intervals_to_samples: each sample gets the label of the interval containing it (later one at a shared boundary, fill outside)',
                            bound='%d annotations x all non-decreasing sample tuples (<=3) on the lattice; 4 sample grids' % len(anns), cases=n, exhaustive=True,
                            failures=fails[:3], wall_s=round(time.time() - t0, 2)))
        all_fails += fails
        # ---- chord.merge_chord_intervals: the merged intervals are the maximal runs of consecutive intervals that carry the same chord
        # (root, reduced semitone bitmap AND bass), over the same span
        t0 = time.time()
        fails, n = [], 0
        from mir_eval import chord as _chord
        import random as _random
        rngc = _random.Random(11)
        clabs = ['C:maj', 'C:maj/3', 'C:maj/5', 'C:min', 'C:min/b3', 'N', 'X', 'C:maj7', 'C:7', 'E:7/3', 'E:7', 'G:maj', 'G:maj(9)', 'G:9', 'C', 'B#:maj', 'A:min7', 'A:min7/b7']
        encs = {l: _chord.encode(l, True) for l in clabs}
        same = lambda a, b: int(encs[a][0]) == int(encs[b][0]) and list(encs[a][1]) == list(encs[b][1]) and int(encs[a][2]) == int(encs[b][2])
        for _ in range(300):
            k = rngc.randint(1, 6)
            cuts = sorted(rngc.sample([0.25 * x for x in range(1, 40)], k - 1)) if k > 1 else []
            b = [0.0] + cuts + [10.0]
            iv = [[b[i], b[i + 1]] for i in range(k)]
            pool_ = rngc.sample(clabs, 3)
            labs = [rngc.choice(pool_) for _ in range(k)]
            n += 1
            try:
                got = _chord.merge_chord_intervals(np.array(iv), labs).tolist()
            except Exception as ex:
                fails.append('merge_chord_intervals raised %s on %s %s' % (type(ex).__name__, iv, labs))
                continue
            want = []
            for (s_, e_), l in zip(iv, labs):
                if want and same(want[-1][2], l):
                    want[-1][1] = e_
                else:
                    want.append([s_, e_, l])
            if got != [[a, b_] for a, b_, _l in want]:
                fails.append('merge_chord_intervals(%s, %s) = %s, the runs of equal chords are %s' % (iv, labs, got, [[a, b_] for a, b_, _l in want]))
        bounded.append(dict(name='chord.merge_chord_intervals: maximal runs of consecutive equal chords (root, bitmap and bass), same span',
                            bound='300 random contiguous annotations (<=6 intervals) over 18 labels incl. inversions, enharmonic spellings, N and X', cases=n, exhaustive=False,
                            failures=fails[:3], wall_s=round(time.time() - t0, 2)))
        all_fails += fails
        # ---- sort_labeled_intervals keeps every (interval, label) pair, whatever the labels are; hierarchy._align_intervals aligns each level on
        # its own (a level that ends early keeps its own end when no t_max is given)
        t0 = time.time()
        fails, n = [], 0
        from mir_eval import hierarchy as _hier
        for iv_, labs_ in (([[2.0, 3.0], [0.0, 1.0], [1.0, 2.0]], [2, 'N', 1]), ([[1.0, 2.0], [0.0, 1.0]], [(7, 'min'), (0, 'maj')]),
                           ([[3.0, 4.0], [0.0, 1.5], [1.5, 3.0]], ['c', 'a', 'b']), ([[1.0, 2.0], [0.0, 1.0]], [1.5, None])):
            n += 1
            try:
                si_, sl_ = util.sort_labeled_intervals(np.array(iv_), list(labs_))
                want_ = sorted(zip([tuple(x_) for x_ in iv_], range(len(iv_))))
                if [tuple(x_) for x_ in np.asarray(si_).tolist()] != [w_[0] for w_ in want_] or any(a_ is not labs_[w_[1]] and a_ != labs_[w_[1]] or type(a_) is not type(labs_[w_[1]])
                                                                                                   for a_, w_ in zip(sl_, want_)):
                    fails.append('sort_labeled_intervals(%s, %r) = %s %r: an interval lost the label it had' % (iv_, labs_, np.asarray(si_).tolist(), sl_))
            except Exception as ex:
                fails.append('sort_labeled_intervals raised %s on %s %r' % (type(ex).__name__, iv_, labs_))
        hier_i = [np.array([[0.0, 6.0]]), np.array([[0.0, 2.0], [2.0, 4.0]]), np.array([[0.5, 3.0], [3.0, 5.0]])]
        hier_l = [['A'], ['a', 'b'], ['x', 'y']]
        for tmax_ in (None, 6.0, 7.5):
            n += 1
            try:
                ai_, al_ = _hier._align_intervals(hier_i, hier_l, t_min=0.0, t_max=tmax_)
                for lv_ in range(3):
                    wi_, wl_ = util.adjust_intervals(hier_i[lv_], labels=list(hier_l[lv_]), t_min=0.0, t_max=tmax_)
                    if np.asarray(ai_[lv_]).tolist() != np.asarray(wi_).tolist() or list(al_[lv_]) != list(wl_):
                        fails.append('hierarchy._align_intervals(t_max=%s) level %d = %s %s, each level adjusted on its own gives %s %s' % (
                            tmax_, lv_, np.asarray(ai_[lv_]).tolist(), list(al_[lv_]), np.asarray(wi_).tolist(), list(wl_)))
            except Exception as ex:
                fails.append('hierarchy._align_intervals(t_max=%s) raised %s' % (tmax_, type(ex).__name__))
        bounded.append(dict(name='util.sort_labeled_intervals keeps every (interval, label) pair in value and type; hierarchy._align_intervals adjusts each level on its own',
                            bound='4 label kinds (mixed int / str, tuples, strings, float / None); 3 t_max settings on a hierarchy whose levels end at different times',
                            cases=n, exhaustive=False, failures=fails[:3], wall_s=round(time.time() - t0, 2)))
        all_fails += fails
        # ---- boundaries <-> intervals
        t0 = time.time()
        fails, n = [], 0
        for a in contiguous:
            n += 1
            arr = np.array(a)
            b = util.intervals_to_boundaries(arr)
            back = util.boundaries_to_intervals(b)
            if back.tolist() != np.round(arr, 5).tolist():
                fails.append('boundaries_to_intervals(intervals_to_boundaries(%s)) = %s' % (a, back.tolist()))
            b2 = util.intervals_to_boundaries(util.boundaries_to_intervals(b))
            if b2.tolist() != b.tolist():
                fails.append('intervals_to_boundaries o boundaries_to_intervals is not the identity on %s' % b.tolist())
        bounded.append(dict(name='util.boundaries_to_intervals / intervals_to_boundaries are mutually inverse on contiguous segmentations',
                            bound='%d contiguous segmentations on the lattice' % len(contiguous), cases=n, exhaustive=True, failures=fails[:3],
                            wall_s=round(time.time() - t0, 2)))
        all_fails += fails
    if all_fails:
        results.append(dict(kind='engine', engine='intervalsnative', name='interval pre-processing', status='ok', detail='', paths=0, inlined=[], used_contracts=[],
                            gen_time=0, wall=0, lib_used=[], props=[prop],
                            obligations=[dict(id='util.intervals#bounded:per-instant-spec', kind='bounded', label='per-instant-spec', props=[prop], line=None,
                                              note=all_fails[0][:400], expect='unsat', verdict='refuted', backend='native-exhaustive', time=0.0,
                                              model=dict(example=all_fails[0]), goal='interval pre-processing agrees with the per-instant specification',
                                              native=dict(confirmed=True, example=all_fails[0]), finding=None)]))
    return dict(results=results, bounded=bounded)


def replay(rec):
    r = run(rec.get('property', 'C13'), 'quick', 0, None)
    fails = [f for b in r['bounded'] for f in b['failures']]
    return bool(fails), 'interval pre-processing vs per-instant spec: %s' % (fails[:2] or 'no failure')
