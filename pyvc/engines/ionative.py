"""Bounded stand-in for C20: every loader on generated annotation files (StringIO and temp paths), exact round trip of
numbers / labels / structure, comment lines, delimiters, labels with internal whitespace, single-fault corruptions.
(The float round trip `float(repr(x)) == x` and the regular-expression splitting are library facts; no contract here
decides them, so this part of C20 is bounded by construction.)"""
import io as _io
import os
import random
import tempfile
import time
import warnings


def fmt(x):
    return repr(float(x))


def run(prop, tier, seed, known):
    from .. import native
    native.import_repo()
    import numpy as np
    from mir_eval import io as IO
    rng = random.Random(seed)
    fails, n = [], 0
    t0 = time.time()
    tmpdir = tempfile.mkdtemp(prefix='pyvc-io-')

    def sources(text):
        p = os.path.join(tmpdir, 'f%d.txt' % rng.randint(0, 10 ** 9))
        with open(p, 'w') as f:
            f.write(text)
        return [('StringIO', _io.StringIO(text)), ('path', p)]

    def floats(k):
        return [rng.choice([0.0, 1.5, 2.25e-3, 123456.789, 1e-10, 3.0e5, float(rng.randint(0, 1000)) / 7.0, rng.random() * 100]) for _ in range(k)]

    def expect(desc, fn, check):
        nonlocal n
        n += 1
        with warnings.catch_warnings():
            warnings.simplefilter('ignore')
            try:
                res = fn()
            except Exception as ex:
                res = ex
        msg = check(res)
        if msg:
            fails.append('%s: %s' % (desc, msg))

    labels_pool = ['a', 'verse 1', 'C:maj', 'chorus  two  spaces', 'x#y', 'Ünï cødé', '1', 'end.', 'tom #2', 'hi-hat # open', 'a %b', '50% #']
    try:
        for it in range(30 if tier == 'quick' else 300):
            k = rng.randint(1, 5)
            for delim, dre in ((' ', r'\s+'), ('\t', r'\s+'), (',', ','), ('  ', r'\s+')):
                ev = sorted(floats(k))
                labs = [rng.choice(labels_pool) for _ in range(k)]
                if delim == ',':
                    labs = [l.replace(',', ';') for l in labs]
                starts = sorted(floats(k))
                ends = [s + 0.5 + rng.random() for s in starts]
                vals = floats(k)
                comment = rng.choice(['', '# a comment line\n'])
                # events
                text = comment + ''.join(fmt(x) + '\n' for x in ev)
                for kind, src in sources(text):
                    expect('load_events(%s)' % kind, lambda: IO.load_events(src, delimiter=dre),
                           lambda r: None if isinstance(r, np.ndarray) and r.tolist() == ev else 'got %r, wrote %r' % (r, ev))
                # labeled events
                text = comment + ''.join('%s%s%s\n' % (fmt(x), delim, l) for x, l in zip(ev, labs))
                for kind, src in sources(text):
                    expect('load_labeled_events(%s, delim=%r)' % (kind, delim), lambda: IO.load_labeled_events(src, delimiter=dre),
                           lambda r: None if isinstance(r, tuple) and r[0].tolist() == ev and r[1] == [l.strip() for l in labs]
                           else 'got %r, wrote %r %r' % (r, ev, labs))
                # intervals / labeled / valued
                text = comment + ''.join('%s%s%s\n' % (fmt(s), delim, fmt(e)) for s, e in zip(starts, ends))
                for kind, src in sources(text):
                    expect('load_intervals(%s)' % kind, lambda: IO.load_intervals(src, delimiter=dre),
                           lambda r: None if isinstance(r, np.ndarray) and r.tolist() == [[s, e] for s, e in zip(starts, ends)] else 'got %r' % (r,))
                text = comment + ''.join('%s%s%s%s%s\n' % (fmt(s), delim, fmt(e), delim, l) for s, e, l in zip(starts, ends, labs))
                for kind, src in sources(text):
                    expect('load_labeled_intervals(%s, delim=%r)' % (kind, delim), lambda: IO.load_labeled_intervals(src, delimiter=dre),
                           lambda r: None if isinstance(r, tuple) and r[0].tolist() == [[s, e] for s, e in zip(starts, ends)] and r[1] == [l.strip() for l in labs]
                           else 'got %r, wrote labels %r' % (r, labs))
                text = ''.join('%s%s%s%s%s\n' % (fmt(s), delim, fmt(e), delim, fmt(v)) for s, e, v in zip(starts, ends, vals))
                for kind, src in sources(text):
                    expect('load_valued_intervals(%s)' % kind, lambda: IO.load_valued_intervals(src, delimiter=dre),
                           lambda r: None if isinstance(r, tuple) and r[0].tolist() == [[s, e] for s, e in zip(starts, ends)] and r[1].tolist() == vals else 'got %r' % (r,))
                text = ''.join('%s%s%s\n' % (fmt(t), delim, fmt(v)) for t, v in zip(ev, vals))
                for kind, src in sources(text):
                    expect('load_time_series(%s)' % kind, lambda: IO.load_time_series(src, delimiter=dre),
                           lambda r: None if isinstance(r, tuple) and r[0].tolist() == ev and r[1].tolist() == vals else 'got %r' % (r,))
                rag = [floats(rng.randint(0, 3)) for _ in range(k)]
                text = ''.join(delim.join([fmt(t)] + [fmt(v) for v in row]) + '\n' for t, row in zip(ev, rag))
                for kind, src in sources(text):
                    expect('load_ragged_time_series(%s)' % kind, lambda: IO.load_ragged_time_series(src, delimiter=dre),
                           lambda r: None if isinstance(r, tuple) and r[0].tolist() == ev and [x.tolist() for x in r[1]] == rag else 'got %r wrote %r' % (r, rag))
                # faults: wrong column count / unparsable number -> ValueError naming the row
                bad_row = rng.randint(0, k - 1)
                lines = ['%s%s%s' % (fmt(s), delim, fmt(e)) for s, e in zip(starts, ends)]
                broken = list(lines)
                broken[bad_row] = fmt(starts[bad_row])
                for kind, src in sources('\n'.join(broken) + '\n'):
                    expect('load_intervals with a 1-column row', lambda: IO.load_intervals(src, delimiter=dre),
                           lambda r: None if isinstance(r, ValueError) and ':%d:' % (bad_row + 1) in str(r) else 'expected ValueError naming row %d, got %r' % (bad_row + 1, r))
                broken = list(lines)
                broken[bad_row] = 'abc%s%s' % (delim, fmt(ends[bad_row]))
                for kind, src in sources('\n'.join(broken) + '\n'):
                    expect('load_intervals with an unparsable number', lambda: IO.load_intervals(src, delimiter=dre),
                           lambda r: None if isinstance(r, ValueError) and ':%d:' % (bad_row + 1) in str(r) else 'expected ValueError naming row %d, got %r' % (bad_row + 1, r))
                # the same fault after comment lines: the row named is the line of the file, comments included
                ncom = rng.randint(1, 3)
                withc = ['# comment %d' % c_ for c_ in range(ncom)] + broken
                for kind, src in sources('\n'.join(withc) + '\n'):
                    expect('load_intervals with an unparsable number after %d comment lines' % ncom, lambda: IO.load_intervals(src, delimiter=dre),
                           lambda r: None if isinstance(r, ValueError) and ':%d:' % (bad_row + 1 + ncom) in str(r)
                           else 'expected ValueError naming row %d (line of the file), got %r' % (bad_row + 1 + ncom, r))
            # the comment marker is a regular expression (documented): alternatives and classes must work in every loader
            for cre, marks in (('[#%]', ['#', '%']), ('#|;', ['#', ';']), (r'\s*//', ['//', '  //'])):
                ev2 = sorted(floats(3))
                rows2 = [floats(rng.randint(0, 2)) for _ in ev2]
                body = []
                for t, row in zip(ev2, rows2):
                    body.append('%s this is a comment' % rng.choice(marks))
                    body.append(' '.join([fmt(t)] + [fmt(v) for v in row]))
                text = '\n'.join(body) + '\n'
                for kind, src in sources(text):
                    expect('load_ragged_time_series(comment=%r)' % cre, lambda: IO.load_ragged_time_series(src, comment=cre),
                           lambda r: None if isinstance(r, tuple) and r[0].tolist() == ev2 and [x.tolist() for x in r[1]] == rows2 else 'got %r wrote %r %r' % (r, ev2, rows2))
                text = ''.join('%s a comment\n%s\n' % (rng.choice(marks), fmt(t)) for t in ev2)
                for kind, src in sources(text):
                    expect('load_events(comment=%r)' % cre, lambda: IO.load_events(src, comment=cre),
                           lambda r: None if isinstance(r, np.ndarray) and r.tolist() == ev2 else 'got %r wrote %r' % (r, ev2))
            # the DEFAULT delimiter is "any amount of whitespace": runs of blanks / tabs between columns, labels keep their inner blanks
            k3 = rng.randint(1, 3)
            st3 = sorted(floats(k3))
            en3 = [s_ + 0.5 + rng.random() for s_ in st3]
            lb3 = [rng.choice(['N', 'verse 1', 'C:maj', 'a  b']) for _ in range(k3)]
            for sep in ('  ', ' \t', '\t\t', '   '):
                text = ''.join('%s%s%s%s%s\n' % (fmt(s_), sep, fmt(e_), sep, l) for s_, e_, l in zip(st3, en3, lb3))
                for kind, src in sources(text):
                    expect('load_labeled_intervals with the default delimiter and separator %r (%s)' % (sep, kind), lambda: IO.load_labeled_intervals(src),
                           lambda r: None if isinstance(r, tuple) and r[0].tolist() == [[a, b] for a, b in zip(st3, en3)] and r[1] == lb3 else 'got %r, wrote %r' % (r, lb3))
                text = ''.join('%s%s%s\n' % (fmt(s_), sep, l) for s_, l in zip(st3, lb3))
                for kind, src in sources(text):
                    expect('load_labeled_events with the default delimiter and separator %r (%s)' % (sep, kind), lambda: IO.load_labeled_events(src),
                           lambda r: None if isinstance(r, tuple) and r[0].tolist() == st3 and r[1] == lb3 else 'got %r, wrote %r' % (r, lb3))
                text = ''.join('%s%s%s\n' % (fmt(s_), sep, fmt(e_)) for s_, e_ in zip(st3, en3))
                for kind, src in sources(text):
                    expect('load_intervals with the default delimiter and separator %r (%s)' % (sep, kind), lambda: IO.load_intervals(src),
                           lambda r: None if isinstance(r, np.ndarray) and r.tolist() == [[a, b] for a, b in zip(st3, en3)] else 'got %r' % (r,))
            # content that parses but violates a convention is returned WITH a warning; conforming content loads silently
            def warns(fn):
                with warnings.catch_warnings(record=True) as w:
                    warnings.simplefilter('always')
                    try:
                        fn()
                    except Exception as ex:
                        return 'raised %s' % type(ex).__name__
                    return len([x for x in w if not issubclass(x.category, DeprecationWarning)]) > 0
            nonlocal_n = [0]
            for text, loader, should in (('0 0 0.5\n', IO.load_tempo, True), ('60 120 0.5\n', IO.load_tempo, False), ('-60 120 0.5\n', IO.load_tempo, True),
                                         ('2.0\n1.0\n', IO.load_events, True), ('1.0\n2.0\n', IO.load_events, False),
                                         ('1.0 0.5\n', IO.load_intervals, True), ('0.5 1.0\n', IO.load_intervals, False)):
                got_w = warns(lambda: loader(_io.StringIO(text)))
                n += 1
                if got_w is not should:
                    fails.append('%s(%r): warning expected=%s, observed=%s' % (loader.__name__, text, should, got_w))
            # files without any data row (empty, or comments only) load as empty annotations
            for text in ('', '# nothing here\n', '# a\n# b\n'):
                for kind, src in sources(text):
                    expect('load_events of a file without data rows (%s)' % kind, lambda: IO.load_events(src),
                           lambda r: None if isinstance(r, np.ndarray) and r.size == 0 else 'got %r' % (r,))
                for kind, src in sources(text):
                    expect('load_labeled_events of a file without data rows (%s)' % kind, lambda: IO.load_labeled_events(src),
                           lambda r: None if isinstance(r, tuple) and len(r[0]) == 0 and list(r[1]) == [] else 'got %r' % (r,))
                for kind, src in sources(text):
                    expect('load_intervals of a file without data rows (%s)' % kind, lambda: IO.load_intervals(src),
                           lambda r: None if isinstance(r, np.ndarray) and r.shape == (0, 2) else 'got %r (an empty interval array has shape (0, 2))' % (r,))
                for kind, src in sources(text):
                    expect('load_labeled_intervals of a file without data rows (%s)' % kind, lambda: IO.load_labeled_intervals(src),
                           lambda r: None if isinstance(r, tuple) and isinstance(r[0], np.ndarray) and r[0].shape == (0, 2) and list(r[1]) == []
                           else 'got %r (an empty interval array has shape (0, 2))' % (r,))
                for kind, src in sources(text):
                    expect('load_valued_intervals of a file without data rows (%s)' % kind, lambda: IO.load_valued_intervals(src),
                           lambda r: None if isinstance(r, tuple) and isinstance(r[0], np.ndarray) and r[0].shape == (0, 2) and len(r[1]) == 0
                           else 'got %r (an empty interval array has shape (0, 2))' % (r,))
                for kind, src in sources(text):
                    expect('load_time_series of a file without data rows (%s)' % kind, lambda: IO.load_time_series(src),
                           lambda r: None if isinstance(r, tuple) and len(r[0]) == 0 and len(r[1]) == 0 else 'got %r' % (r,))
            # content that parses but violates conventions -> returned (with a warning), not an exception
            for kind, src in sources('2.0\n1.0\n'):
                expect('load_events with decreasing times', lambda: IO.load_events(src), lambda r: None if isinstance(r, np.ndarray) and r.tolist() == [2.0, 1.0] else 'got %r' % (r,))
            for kind, src in sources('1.0 0.5 x\n'):
                expect('load_labeled_intervals with a negative duration', lambda: IO.load_labeled_intervals(src),
                       lambda r: None if isinstance(r, tuple) and r[0].tolist() == [[1.0, 0.5]] else 'got %r' % (r,))
            for kind, src in sources('1.0 0.5 3.0\n2.0 2.0 4.5\n'):
                expect('load_valued_intervals with non-positive durations (convention violated, still returned in the documented form)', lambda: IO.load_valued_intervals(src),
                       lambda r: None if isinstance(r, tuple) and isinstance(r[0], np.ndarray) and r[0].tolist() == [[1.0, 0.5], [2.0, 2.0]]
                       and isinstance(r[1], np.ndarray) and r[1].dtype == float and r[1].tolist() == [3.0, 4.5] else 'got %r' % (r,))
            for kind, src in sources('1.0 0.5\n'):
                expect('load_intervals with a negative duration', lambda: IO.load_intervals(src),
                       lambda r: None if isinstance(r, np.ndarray) and r.tolist() == [[1.0, 0.5]] else 'got %r' % (r,))
            for kind, src in sources('2.0 a\n1.0 b\n'):
                expect('load_labeled_events with decreasing times', lambda: IO.load_labeled_events(src),
                       lambda r: None if isinstance(r, tuple) and isinstance(r[0], np.ndarray) and r[0].tolist() == [2.0, 1.0] and list(r[1]) == ['a', 'b'] else 'got %r' % (r,))
            # content that parses but violates a convention is returned WITH a warning (and a conforming file without one)
            def warned(fn_):
                with warnings.catch_warnings(record=True) as rec_:
                    warnings.simplefilter('always')
                    try:
                        val_ = fn_()
                    except Exception as ex_:
                        return ex_, -1
                return val_, len(rec_)
            for text_, call_, should_ in (('44100.0\n', IO.load_events, True), ('31000.5\n12.0\n', IO.load_events, True), ('12.0\n', IO.load_events, False), ('', IO.load_events, False),
                                          ('1.0\n2.0\n', IO.load_events, False), ('2.0\n1.0\n', IO.load_events, True),
                                          ('44100.0 a\n', IO.load_labeled_events, True), ('12.0 a\n', IO.load_labeled_events, False),
                                          ('1.0 0.5\n', IO.load_intervals, True), ('0.5 1.0\n', IO.load_intervals, False), ('-1.0 1.0\n', IO.load_intervals, True),
                                          ('1.0 0.5 x\n', IO.load_labeled_intervals, True), ('0.5 1.0 x\n', IO.load_labeled_intervals, False),
                                          ('1.0 0.5 3.0\n', IO.load_valued_intervals, True), ('0.5 1.0 3.0\n', IO.load_valued_intervals, False)):
                for kind, src in sources(text_):
                    n += 1
                    val_, nw_ = warned(lambda: call_(src))
                    if nw_ < 0:
                        fails.append('%s(%r) (%s) raised %s instead of returning the content%s' % (call_.__name__, text_, kind, type(val_).__name__, ' with a warning' if should_ else ''))
                    elif should_ and nw_ == 0:
                        fails.append('%s(%r) (%s) returned content that violates the task conventions without a warning' % (call_.__name__, text_, kind))
                    elif not should_ and nw_ > 0:
                        fails.append('%s(%r) (%s) warned about a file that follows the conventions' % (call_.__name__, text_, kind))
            # every loader honours a non-default comment marker (and comment=None: nothing is a comment)
            for mark_, cre_ in (('%', '%'), ('//', '//'), ('!', '!')):
                cl_ = '%s a comment line\n' % mark_
                for text_, call_, want_ in (
                        (cl_ + 'C major\n', lambda s_: IO.load_key(s_, comment=cre_), lambda r: r == 'C major'),
                        (cl_ + '60 120 0.5\n', lambda s_: IO.load_tempo(s_, comment=cre_), lambda r: isinstance(r, tuple) and r[0].tolist() == [60.0, 120.0] and r[1] == 0.5),
                        (cl_ + '1.0 a b\n' + cl_, lambda s_: IO.load_labeled_events(s_, comment=cre_), lambda r: isinstance(r, tuple) and r[0].tolist() == [1.0] and list(r[1]) == ['a b']),
                        (cl_ + '1.0 2.0\n', lambda s_: IO.load_intervals(s_, comment=cre_), lambda r: isinstance(r, np.ndarray) and r.tolist() == [[1.0, 2.0]]),
                        (cl_ + '1.0 2.0 x y\n', lambda s_: IO.load_labeled_intervals(s_, comment=cre_), lambda r: isinstance(r, tuple) and r[0].tolist() == [[1.0, 2.0]] and list(r[1]) == ['x y']),
                        (cl_ + '1.0 2.0 7.5\n', lambda s_: IO.load_valued_intervals(s_, comment=cre_), lambda r: isinstance(r, tuple) and r[0].tolist() == [[1.0, 2.0]] and r[1].tolist() == [7.5]),
                        (cl_ + '1.0 220.0\n', lambda s_: IO.load_time_series(s_, comment=cre_), lambda r: isinstance(r, tuple) and r[0].tolist() == [1.0] and r[1].tolist() == [220.0])):
                    for kind, src in sources(text_):
                        expect('loader with comment marker %r (%s): %r' % (mark_, kind, text_), lambda: call_(src),
                               lambda r, want_=want_: None if not isinstance(r, Exception) and want_(r) else 'got %r' % (r,))
            # key / tempo
            # key / tempo
            for ks, ok in (('C major', True), ('c#\tminor', True), ('F# dorian', True), ('C Major', True), ('H major', True), ('X', False)):
                for kind, src in sources(ks + '\n'):
                    if ok:
                        expect('load_key(%r)' % ks, lambda: IO.load_key(src), lambda r: None if r == ' '.join(ks.split()) else 'got %r' % (r,))
            for kind, src in sources('C major\nD minor\n'):
                expect('load_key of a two-line file', lambda: IO.load_key(src), lambda r: None if isinstance(r, ValueError) else 'expected ValueError, got %r' % (r,))
            for kind, src in sources(''):
                expect('load_key of an empty file', lambda: IO.load_key(src), lambda r: None if isinstance(r, ValueError) else 'expected ValueError, got %r' % (r,))
                expect('load_tempo of an empty file', lambda: IO.load_tempo(_io.StringIO('')), lambda r: None if isinstance(r, ValueError) else 'expected ValueError, got %r' % (r,))
            t1, t2, w = rng.choice([60.0, 87.5]), rng.choice([120.0, 175.0]), rng.choice([0.0, 0.25, 1.0])
            for kind, src in sources('%s %s %s\n' % (fmt(t1), fmt(t2), fmt(w))):
                expect('load_tempo', lambda: IO.load_tempo(src), lambda r: None if isinstance(r, tuple) and r[0].tolist() == [t1, t2] and r[1] == w else 'got %r' % (r,))
            for kind, src in sources('60 120 1.5\n'):
                expect('load_tempo with weight 1.5', lambda: IO.load_tempo(src), lambda r: None if isinstance(r, ValueError) else 'expected ValueError, got %r' % (r,))
            for kind, src in sources('60 120 0.5\n70 140 0.5\n'):
                expect('load_tempo of a two-line file', lambda: IO.load_tempo(src), lambda r: None if isinstance(r, ValueError) else 'expected ValueError, got %r' % (r,))
            for kind, src in sources('0 0 0.5\n'):
                expect('load_tempo with zero tempi (convention violated, still returned)', lambda: IO.load_tempo(src),
                       lambda r: None if isinstance(r, tuple) and r[0].tolist() == [0.0, 0.0] else 'got %r' % (r,))
            # patterns
            pats = [[[(float(rng.randint(0, 9)), float(rng.randint(50, 70))) for _ in range(rng.randint(1, 3))] for _ in range(rng.randint(1, 2))] for _ in range(rng.randint(1, 3))]
            text = ''
            for pi_, pat in enumerate(pats):
                text += 'pattern%d\n' % (pi_ + 1)
                for oi, occ in enumerate(pat):
                    text += 'occurrence%d\n' % (oi + 1)
                    text += ''.join('%s, %s\n' % (fmt(a), fmt(b)) for a, b in occ)
            for kind, src in sources(text):
                expect('load_patterns(%s)' % kind, lambda: IO.load_patterns(src), lambda r: None if r == pats else 'got %r wrote %r' % (r, pats))
            if len(fails) > 6:
                break
    finally:
        for f in os.listdir(tmpdir):
            os.unlink(os.path.join(tmpdir, f))
        os.rmdir(tmpdir)
    bounded = [dict(name='io.load_* round trip on generated files (numbers, labels with internal whitespace, structure, comments, delimiters, StringIO and path) and single-fault corruptions',
                    bound='%d generated files' % n, cases=n, exhaustive=False, failures=fails[:4], wall_s=round(time.time() - t0, 2))]
    results = []
    if fails:
        results.append(dict(kind='engine', engine='ionative', name='io loaders', status='ok', detail='', paths=0, inlined=[], used_contracts=[], gen_time=0, wall=0,
                            lib_used=[], props=[prop],
                            obligations=[dict(id='io#bounded:round-trip', kind='bounded', label='round-trip', props=[prop], line=None, note=fails[0][:400], expect='unsat',
                                              verdict='refuted', backend='native', time=0.0, model=dict(example=fails[0]),
                                              goal='loaders return exactly what the file encodes', native=dict(confirmed=True, example=fails[0]), finding=None)]))
    return dict(results=results, bounded=bounded)


def replay(rec):
    r = run(rec.get('property', 'C20'), 'quick', 0, None)
    fails = [f for b in r['bounded'] for f in b['failures']]
    return bool(fails), 'io round trip: %s' % (fails[:2] or 'no failure')
