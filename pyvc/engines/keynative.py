"""Conformance of the assumed key contracts with the real mir_eval.key (exhaustive over the finite set of valid key
strings up to letter case; plus malformed strings), and the KEY_TO_SEMITONE table against pitch spelling."""
import importlib.util
import itertools
import os
import random
import time
import warnings

from .. import frontend

HERE = os.path.dirname(os.path.dirname(os.path.dirname(os.path.abspath(__file__))))


def spec():
    p = os.path.join(HERE, 'contracts', '_key_spec.py')
    sp = importlib.util.spec_from_file_location('_key_spec', p)
    m = importlib.util.module_from_spec(sp)
    sp.loader.exec_module(m)
    return m


def case_variants(s):
    opts = [(c.lower(), c.upper()) if c.isalpha() else (c,) for c in s]
    return sorted({''.join(x) for x in itertools.product(*opts)})


def run(prop, tier, seed, known):
    from .. import native
    native.import_repo()
    from mir_eval import key as K
    sp = spec()
    results, fails = [], []
    t0 = time.time()
    # [P-by-table] KEY_TO_SEMITONE read from the real AST equals the spelled semitone of every documented name
    table = frontend.module('key').const('KEY_TO_SEMITONE')
    obs = []
    names = sorted(set(table) | set(sp.TONICS) | {'x'})
    for nm in names:
        want = None if nm == 'x' else (sp.parse(nm + ' major')[0] if nm in sp.TONICS else 'absent')
        got = table.get(nm, 'absent')
        ok = got == want
        obs.append(dict(id='key.KEY_TO_SEMITONE#table:%s' % nm, kind='post', label='table:' + nm, props=['C09', 'C04'], line=None,
                        note='' if ok else 'KEY_TO_SEMITONE[%r] = %r, pitch spelling gives %r' % (nm, got, want), expect='unsat',
                        verdict='discharged' if ok else 'refuted', backend='table-eval', time=0.0,
                        model=None if ok else dict(name=nm, table=got, spelled=want), goal='KEY_TO_SEMITONE[%r] == semitone of the spelled tonic' % nm,
                        native=dict(confirmed=not ok), finding=None))
    results.append(dict(kind='engine', engine='keynative', name='key.KEY_TO_SEMITONE', status='ok', detail='', paths=0, obligations=obs, inlined=[],
                        used_contracts=[], gen_time=0, wall=0, lib_used=[], props=['C09', 'C04']))
    # bounded: assumed contracts of validate / split_key_string
    keys = ['x', 'X']
    for t in sp.TONICS:
        for tv in case_variants(t):
            for m in sp.MODES:
                keys.append('%s %s' % (tv, m))
    keys += ['  C major', 'C   minor ', 'c\tmajor']
    n = 0
    with warnings.catch_warnings():
        warnings.simplefilter('ignore')
        for k in keys:
            n += 1
            try:
                K.validate_key(k)
            except Exception as ex:
                fails.append('validate_key(%r) raised %s on a valid key' % (k, type(ex).__name__))
                continue
            want = sp.parse(k)
            got = K.split_key_string(k)
            if want == ('x',):
                if got != (None, None):
                    fails.append('split_key_string(%r) = %r' % (k, got))
            elif got != want:
                fails.append('split_key_string(%r) = %r, spelled tonic/mode %r' % (k, got, want))
        rng = random.Random(seed)
        alphabet = 'abcdefgxABCDEFGX#b majorinothe'
        bad = ['', ' ', 'C', 'major', 'C major minor', 'X major', 'x minor', 'H major', 'C Major', 'C maj', 'Cb major', 'E# minor', 'c## major', 'C  dorian',
               'xx', 'X X']
        for _ in range(300 if tier == 'quick' else 3000):
            k = rng.choice(keys)
            pos = rng.randint(0, len(k))
            bad.append(k[:pos] + rng.choice(alphabet) + k[pos + rng.randint(0, 1):])
        for k in bad:
            n += 1
            try:
                K.validate_key(k)
                acc = True
            except ValueError:
                acc = False
            except Exception as ex:
                fails.append('validate_key(%r) raised %s (not ValueError)' % (k, type(ex).__name__))
                continue
            if acc != sp.valid(k):
                fails.append('validate_key(%r) accepts=%s, documented form accepts=%s' % (k, acc, sp.valid(k)))
            if acc:
                try:
                    sc = K.weighted_score(k, k)
                    if sc != 1.0:
                        fails.append('weighted_score(%r, %r) = %r' % (k, k, sc))
                except Exception as ex:
                    fails.append('weighted_score(%r, %r) raised %s' % (k, k, type(ex).__name__))
    bounded = [dict(name='key.validate_key / split_key_string conform to the assumed contracts (valid_key, key_tonic, key_mode)',
                    bound='all %d valid key strings up to letter case (+3 whitespace variants); %d malformed / mutated strings' % (len(keys), len(bad)),
                    cases=n, exhaustive=True, failures=fails[:5], wall_s=round(time.time() - t0, 2))]
    if fails:
        results.append(dict(kind='engine', engine='keynative', name='assumed key contracts', status='ok', detail='', paths=0, inlined=[], used_contracts=[],
                            gen_time=0, wall=0, lib_used=[], props=[prop],
                            obligations=[dict(id='key#bounded:assumed-contracts', kind='bounded', label='assumed-contracts', props=[prop], line=None,
                                              note=fails[0][:300], expect='unsat', verdict='refuted', backend='native', time=0.0,
                                              model=dict(example=fails[0]), goal='assumed key contracts conform to the real functions',
                                              native=dict(confirmed=True, example=fails[0]), finding=None)]))
    return dict(results=results, bounded=bounded)


def replay(rec):
    r = run(rec.get('property', 'C04'), 'quick', 0, None)
    fails = [f for b in r['bounded'] for f in b['failures']]
    bad = [o for res in r['results'] for o in res['obligations'] if o['verdict'] == 'refuted']
    return bool(fails or bad), 'key conformance: %s' % (fails[:2] or [o['note'] for o in bad[:2]] or 'no failure')
