"""Bounded conformance of the *symbolic* NumPy models (trusted base): "the model admits reality".

For each modelled library function the symbolic branch of the model is run on arrays of symbolic length; then, for concrete inputs x and
the result y the real library computes, the formula   facts assumed by the model, inputs == x and result == y   must be satisfiable.
An unsatisfiable instance means the model excludes a behaviour the real function has - an unsound assumption.  (The concrete branch of the
models is compared with the library by the translation cross-check.)  Never counted as proved; it bounds the trust put into pyvc/npmodel.py."""
import ast
import random
import time

import z3


def run(prop, tier, seed, known):
    from .. import native, npmodel, kinds, symex, calls
    from ..values import to_z3, Ref
    native.import_repo()
    import numpy as np
    rng = random.Random(seed)
    fails, n = [], 0
    stats = {}
    t0 = time.time()
    fd = ast.parse('def _probe():\n    pass\n').body[0]
    from .. import frontend
    mod = frontend.module('util')

    def fresh_engine():
        eng = symex.Engine(mod, fd, 'libconf.probe', None)
        return eng, symex.St()

    def sym_array(st, name, ndim=1, width=None):
        k = kinds.parse_kind(ast.parse('Arr(Real, None)' if ndim == 1 else 'Arr(Real, None, %d)' % width, mode='eval').body)
        return kinds.fresh(k, name, st, symex.new_ref)

    def bind(st, ref, values):
        """constraints: the symbolic array equals the concrete one"""
        o = st.heap[ref.oid]
        vals = np.asarray(values, dtype=float)
        cs = [to_z3(o.shape[0]) == int(vals.shape[0])]
        if vals.ndim == 1:
            cs += [to_z3(o.at(i)) == float(vals[i]) for i in range(vals.shape[0])]
        else:
            cs += [to_z3(o.at(i, j)) == float(vals[i, j]) for i in range(vals.shape[0]) for j in range(vals.shape[1])]
        return cs

    def result_is(st, res, values):
        if isinstance(res, Ref):
            o = st.heap[res.oid]
            vals = np.asarray(values)
            cs = [to_z3(o.shape[0]) == int(vals.shape[0])]
            cs += [to_z3(o.at(i)) == (float(vals[i]) if vals.dtype.kind == 'f' else int(vals[i])) for i in range(vals.shape[0])]
            return cs
        return [to_z3(res) == (float(values) if isinstance(values, (float, np.floating)) else int(values))]

    def admit(name, build, inputs_list):
        """build(eng, st) -> (input refs, result); inputs_list: list of (tuple of concrete inputs, real result)"""
        nonlocal n
        for xs, y in inputs_list:
            eng, st = fresh_engine()
            try:
                refs, res, st2 = build(eng, st)
            except Exception as ex:
                fails.append('%s: the symbolic model could not be run (%s: %s)' % (name, type(ex).__name__, str(ex)[:100]))
                return
            s = z3.Solver()
            s.set('timeout', 1500)
            s.add(*st2.pc)
            for r, x in zip(refs, xs):
                s.add(*bind(st2, r, x))
            s.add(*result_is(st2, res, y))
            n += 1
            r_ = s.check()
            stats.setdefault(name, {}).setdefault(str(r_), 0)
            stats[name][str(r_)] += 1
            if r_ == z3.unsat:
                fails.append('%s: the model excludes the real behaviour on %s -> %s' % (name, [np.asarray(x).tolist() for x in xs], np.asarray(y).tolist()))
                return

    def arrs(k, lo=0, hi=4, step=0.25):
        return [np.array([rng.randint(lo, int(hi / step)) * step for _ in range(rng.randint(0 if k != 'nonempty' else 1, 4))]) for _ in range(6 if tier == 'quick' else 40)]

    L = npmodel.LIB

    def call(name, eng, st, args, kwargs=None):
        out = list(L[name](eng, st, args, kwargs or {}))
        assert len(out) == 1, 'model of %s split into %d paths' % (name, len(out))
        return out[0]

    # np.unique
    def b_unique(eng, st):
        a = sym_array(st, 'a')
        r, st2 = call('numpy.unique', eng, st, [a])
        return [a], r, st2
    admit('numpy.unique', b_unique, [((x,), np.unique(x)) for x in arrs('any')])

    # np.unique of two stacked (n, 2) blocks (the per-block statement of the same facts)
    def b_unique2(eng, st):
        a, b = sym_array(st, 'a', 2, 2), sym_array(st, 'b', 2, 2)
        lst = symex.new_ref(st, symex.ListV([a, b]))
        c, st1 = call('numpy.concatenate', eng, st, [lst], {'axis': 0})
        r, st2 = call('numpy.unique', eng, st1, [c])
        return [a, b], r, st2
    pairs = [(np.array(x[:2 * (len(x) // 2)]).reshape(-1, 2), np.array(y[:2 * (len(y) // 2)]).reshape(-1, 2)) for x, y in zip(arrs('any'), arrs('any'))]
    admit('numpy.unique(concatenate 2-D)', b_unique2, [((x, y), np.unique(np.concatenate([x, y], axis=0))) for x, y in pairs])

    # np.argmax / np.argmin of a non-empty array (first position of the extreme cell; ties included)
    for nm, f in (('numpy.argmax', np.argmax), ('numpy.argmin', np.argmin)):
        def b_arg(eng, st, nm=nm):
            a = sym_array(st, 'a')
            outs = [(v, s_) for v, s_ in L[nm](eng, st, [a], {}) if type(v).__name__ != 'Raised']
            assert len(outs) == 1
            return [a], outs[0][0], outs[0][1]
        admit(nm, b_arg, [((x,), int(f(x))) for x in arrs('nonempty', 0, 1)])

    # np.searchsorted (array of values), both sides
    for side in ('left', 'right'):
        def b_ss(eng, st, side=side):
            a, v = sym_array(st, 'a'), sym_array(st, 'v')
            r, st2 = call('numpy.searchsorted', eng, st, [a, v], {'side': side})
            # the sortedness obligation of the model is satisfied by the inputs below
            return [a, v], r, st2
        admit('numpy.searchsorted(side=%s)' % side, b_ss, [((np.sort(x), w), np.searchsorted(np.sort(x), w, side=side)) for x, w in zip(arrs('any', 0, 1), arrs('any', 0, 1))])

    # np.max / np.min of a non-empty array (np.median only states `between two cells`; its satisfiability is beyond the solver's budget here)
    for nm, f in (('numpy.max', np.max), ('numpy.min', np.min)):
        def b_mm(eng, st, nm=nm):
            a = sym_array(st, 'a')
            outs = [(v, s_) for v, s_ in L[nm](eng, st, [a], {}) if not isinstance(v, symex.Raised if hasattr(symex, 'Raised') else ())]
            outs = [(v, s_) for v, s_ in outs if type(v).__name__ != 'Raised']
            return [a], outs[0][0], outs[0][1]
        admit(nm, b_mm, [((x,), float(f(x))) for x in arrs('nonempty')])

    # np.diff, np.concatenate
    def b_diff(eng, st):
        a = sym_array(st, 'a')
        r, st2 = call('numpy.diff', eng, st, [a])
        return [a], r, st2
    admit('numpy.diff', b_diff, [((x,), np.diff(x)) for x in arrs('nonempty')])

    def b_cat(eng, st):
        a, b = sym_array(st, 'a'), sym_array(st, 'b')
        r, st2 = call('numpy.concatenate', eng, st, [(a, b)])
        return [a, b], r, st2
    admit('numpy.concatenate', b_cat, [((x, w), np.concatenate([x, w])) for x, w in zip(arrs('any'), arrs('any'))])

    # boolean-mask selection a[a >= c] and a step slice a[1::2]
    def b_mask(eng, st):
        a = sym_array(st, 'a')
        o = st.heap[a.oid]
        from ..values import ArrV, le
        m = symex.new_ref(st, ArrV(o.shape, lambda i, o=o: le(1.0, o.at(i)), 'bool'))
        r = npmodel.getitem(eng, st, a, o, m)
        return [a], r, st
    admit('boolean mask a[a >= 1]', b_mask, [((x,), x[x >= 1.0]) for x in arrs('any')])

    def b_step(eng, st):
        a = sym_array(st, 'a')
        o = st.heap[a.oid]
        r = npmodel.getitem(eng, st, a, o, symex.SliceV(1, None, 2))
        return [a], r, st
    admit('step slice a[1::2]', b_step, [((x,), x[1::2]) for x in arrs('any')])

    # np.interp over an index grid
    def b_interp(eng, st):
        x, fp = sym_array(st, 'x'), sym_array(st, 'fp')
        fo = st.heap[fp.oid]
        xp, st1 = call('numpy.arange', eng, st, [fo.shape[0]])
        r, st2 = call('numpy.interp', eng, st1, [x, xp, fp])
        return [x, fp], r, st2
    cases = []
    for x, f in zip(arrs('any', 0, 3, 0.125), arrs('nonempty')):
        cases.append(((x, f), np.interp(x, np.arange(len(f)), f)))
    admit('numpy.interp(x, arange(n), fp)', b_interp, cases)
    # row-wise minimum of a matrix with symbolic extents
    def b_rowmin(eng, st):
        a = sym_array(st, 'a', 2, 3)
        o = st.heap[a.oid]
        # make the width symbolic as well: view the (n, 3) array through a symbolic column count w <= 3
        outs = list(npmodel.arr_method(eng, st, a, o, 'min', [], {'axis': 0}))
        return [a], outs[0][0], outs[0][1]
    mats = [np.array([[rng.randint(0, 8) * 0.25 for _ in range(3)] for _ in range(rng.randint(1, 3))]) for _ in range(6 if tier == 'quick' else 40)]
    admit('min over axis 0 of an (n, 3) array', b_rowmin, [((x,), x.min(axis=0)) for x in mats])

    # np.arange(0, stop, 0.5) with a real stop
    def b_arange(eng, st):
        stop = z3.Real('stop')
        r, st2 = call('numpy.arange', eng, st, [0, stop, 0.5])
        st2.assume(stop == STOP[0])
        return [], r, st2
    STOP = [0.0]
    for k in range(1, 6):
        STOP[0] = k - 0.5
        admit('numpy.arange(0, n - 1/2, 1/2)', b_arange, [((), np.arange(0, k - 0.5, 0.5))])
    bounded = [dict(name='symbolic NumPy models admit the real library behaviour (unique, argmax, argmin, searchsorted, max, min, diff, concatenate, boolean mask, step slice, interp, axis min, float arange)',
                    bound='%d concrete instances on a 1/4 lattice (arrays of length <= 4), satisfiability of model facts with the library result' % n, cases=n, exhaustive=False, outcomes=stats,
                    failures=fails[:4], wall_s=round(time.time() - t0, 2))]
    results = []
    if fails:
        results.append(dict(kind='engine', engine='libconf', name='library models', status='error', detail='; '.join(fails[:3]), paths=0, inlined=[], used_contracts=[],
                            gen_time=0, wall=0, lib_used=[], props=[prop], obligations=[]))
    return dict(results=results, bounded=bounded)
