"""Bounded exhaustive stand-in for the matcher bodies (C05; never counted as proved).

The call sites of the matchers are verified deductively against the *assumed* contract "the result is a maximum
one-to-one matching inside the stated tolerance relation".  This engine checks that contract on the real functions:
  - util._bipartite_match: every bipartite graph with <= 3 x 4 vertices (quick) / <= 4 x 5 (thorough) against brute force;
  - util._fast_hit_windows / util.match_events: all event multisets on a 1/4 s lattice (incl. unsorted references, ties,
    duplicates), three windows, order independence, and the chroma (custom distance) branch;
  - transcription.match_note_onsets / match_note_offsets / match_notes, transcription_velocity.match_notes,
    multipitch.compute_num_true_positives on lattice notes, strict in {False, True}, offset_ratio in {None, 1/4, 1/2}.
"""
import itertools
import math
import random
import time
import warnings


def max_matching(n, m, rel):
    match = [-1] * m

    def try_(u, seen):
        for v in range(m):
            if rel(u, v) and not seen[v]:
                seen[v] = True
                if match[v] < 0 or try_(match[v], seen):
                    match[v] = u
                    return True
        return False
    return sum(1 for u in range(n) if try_(u, [False] * m))


def check_matching(pairs, n, m, rel, what, fails):
    """pairs: list of (ref_i, est_j)"""
    refs = [p[0] for p in pairs]
    ests = [p[1] for p in pairs]
    if len(set(refs)) != len(refs) or len(set(ests)) != len(ests):
        fails.append('%s: an item is used twice: %s' % (what, pairs))
        return
    for i, j in pairs:
        if not (0 <= i < n and 0 <= j < m and rel(i, j)):
            fails.append('%s: pair (%d,%d) does not satisfy the tolerance predicate' % (what, i, j))
            return
    best = max_matching(n, m, rel)
    if len(pairs) != best:
        fails.append('%s: matching has %d pairs, a maximum matching has %d' % (what, len(pairs), best))


def run(prop, tier, seed, known):
    from .. import native
    native.import_repo()
    import numpy as np
    from mir_eval import util, transcription, transcription_velocity, multipitch
    bounded, results, all_fails = [], [], []
    rng = random.Random(seed)
    with warnings.catch_warnings():
        warnings.simplefilter('ignore')
        # 1. Hopcroft-Karp on all small graphs
        t0 = time.time()
        fails, n = [], 0
        L, Rr = (3, 4) if tier == 'quick' else (4, 4)
        for bits in range(2 ** (L * Rr)):
            adj = {u: [v for v in range(Rr) if bits >> (u * Rr + v) & 1] for u in range(L)}
            G = {u: vs for u, vs in adj.items() if vs}
            res = util._bipartite_match(dict((u, list(vs)) for u, vs in G.items()))
            n += 1
            pairs = [(u, v) for v, u in res.items()]
            check_matching(pairs, L, Rr, lambda u, v: v in adj[u], '_bipartite_match(%s)' % G, fails)
            if len(fails) > 3:
                break
        for _ in range(2000 if tier == 'quick' else 20000):
            a, b = rng.randint(1, 7), rng.randint(1, 7)
            adj = {u: [v for v in range(b) if rng.random() < 0.35] for u in range(a)}
            G = {u: vs for u, vs in adj.items() if vs}
            res = util._bipartite_match(dict((u, list(vs)) for u, vs in G.items()))
            n += 1
            check_matching([(u, v) for v, u in res.items()], a, b, lambda u, v: v in adj[u], '_bipartite_match(%s)' % G, fails)
        bounded.append(dict(name='util._bipartite_match returns a valid maximum matching', bound='all 2^%d bipartite graphs on %d x %d vertices + random graphs up to 7 x 7' % (L * Rr, L, Rr),
                            cases=n, exhaustive=True, failures=fails[:3], wall_s=round(time.time() - t0, 2)))
        all_fails += fails
        # 2. event matching
        t0 = time.time()
        fails, n = [], 0
        grid = [0.0, 0.25, 0.5, 0.75, 1.0, 1.5]
        for nr in range(0, 4):
            for ne in range(0, 3):
                for ref in itertools.product(grid, repeat=nr):
                    for est in itertools.combinations_with_replacement(grid, ne):
                        for w in (0.0, 0.25, 0.5):
                            r, e = np.array(ref, dtype=float), np.array(est, dtype=float)
                            rel = lambda i, j: abs(r[i] - e[j]) <= w
                            hr, he = util._fast_hit_windows(r, e, w)
                            n += 1
                            got = sorted(zip([int(x) for x in hr], [int(x) for x in he]))
                            want = sorted((i, j) for i in range(nr) for j in range(ne) if rel(i, j))
                            if got != want:
                                fails.append('_fast_hit_windows(%s, %s, %s) = %s, tolerance predicate gives %s' % (list(ref), list(est), w, got, want))
                            m = util.match_events(r, e, w)
                            check_matching([(int(a), int(b)) for a, b in m], nr, ne, rel, 'match_events(%s, %s, %s)' % (list(ref), list(est), w), fails)
                            if nr and ne:
                                m2 = util.match_events(r[::-1].copy(), e[::-1].copy(), w)
                                if len(m2) != len(m):
                                    fails.append('match_events size depends on item order: %s vs %s' % (len(m), len(m2)))
                            if len(fails) > 5:
                                break
        # the same events far from the time origin (times up to the 30000 s sanity limit): the hit relation depends on differences only
        for base in (0.0, 4096.0, 8192.0, 16384.0, 24576.0):
            for offs, w in (((0.0, 1.0, 2.5), 0.05), ((0.0, 0.5, 1.0, 4.0), 0.0625), ((0.0, 3.0), 0.1)):
                for lag in (0.0625, 0.125, -0.0625, 0.0):
                    r = np.array([base + 8.0 + o for o in offs])
                    e = r + lag
                    rel = lambda i, j: abs(r[i] - e[j]) <= w
                    n += 1
                    m = util.match_events(r, e, w)
                    check_matching([(int(a), int(b)) for a, b in m], len(r), len(e), rel, 'match_events(%s, %s, %s)' % (r.tolist(), e.tolist(), w), fails)
        # chroma branch
        for _ in range(1500 if tier == 'quick' else 15000):
            r = np.array([rng.randint(48, 84) + rng.choice([0, 0.25, 0.5]) for _ in range(rng.randint(0, 4))])
            e = np.array([rng.randint(48, 84) + rng.choice([0, 0.25, 0.5]) for _ in range(rng.randint(0, 4))])
            w = rng.choice([0.25, 0.5, 1.0])
            if rng.random() < 0.2:
                # a pair a few 1e-7 semitones inside / outside the window (ten million times the double-precision rounding error), with chroma
                # values on either side of a power of two
                base_ = rng.choice([67.625, 63.9, 55.75, 71.99, 49.6, 60.0]) + rng.random() * 1e-6
                r = np.array([base_])
                e = np.array([base_ + rng.choice([1, -1]) * (w + rng.choice([-1e-7, -2e-7, -4e-7, 2e-7, 4e-7])) + rng.choice([0, 12, -12])])
            d = lambda i, j: min(abs(r[i] % 12 - e[j] % 12), 12 - abs(r[i] % 12 - e[j] % 12)) <= w
            m = util.match_events(r, e, w, distance=util._outer_distance_mod_n)
            n += 1
            check_matching([(int(a), int(b)) for a, b in m], len(r), len(e), d, 'match_events(chroma %s, %s, %s)' % (list(r), list(e), w), fails)
            tp = multipitch.compute_num_true_positives([r], [e], window=w)[0]
            tpc = multipitch.compute_num_true_positives([r], [e], window=w, chroma=True)[0]
            raw = max_matching(len(r), len(e), lambda i, j: abs(r[i] - e[j]) <= w)
            if tp != raw or tpc != max_matching(len(r), len(e), d) or tpc < tp or tp > min(len(r), len(e)):
                fails.append('compute_num_true_positives(%s, %s, %s) = %s / chroma %s' % (list(r), list(e), w, tp, tpc))
        bounded.append(dict(name='util._fast_hit_windows / match_events / multipitch.compute_num_true_positives: exact hit relation, valid maximum matching, order independence',
                            bound='all reference tuples (<=3, unsorted allowed) x estimate multisets (<=2) on a 6-point lattice x 3 windows; random chroma frames',
                            cases=n, exhaustive=True, failures=fails[:3], wall_s=round(time.time() - t0, 2)))
        all_fails += fails
        # 3. note matchers
        t0 = time.time()
        fails, n = [], 0
        for _ in range(1500 if tier == 'quick' else 20000):
            def notes(k):
                iv, p = [], []
                for _ in range(k):
                    s = rng.randint(0, 8) * 0.25 + rng.choice([0.0, 0.0, 0.05, 0.1])
                    iv.append([s, s + rng.randint(1, 6) * 0.25 + rng.choice([0.0, 0.05])])
                    p.append(440.0 * 2 ** (rng.choice([0, 0, 25, 50, 75, 100, 1200, 51, -51, -50, -25, 49, -49]) / 1200.0))
                return np.array(iv, dtype=float).reshape(-1, 2), np.array(p, dtype=float)
            def dense(k, s0):
                # near-duplicate notes: onsets within a tenth of a second, equal length, pitches within a quarter tone - many-to-many compatibility
                iv = [[s0 + rng.choice([0.0, 0.05, 0.1, 0.15]), 0.0] for _ in range(k)]
                for x in iv:
                    x[1] = x[0] + 1.0
                p = [440.0 * 2 ** (rng.choice([0, 0, 10, 25, -25, 40]) / 1200.0) for _ in range(k)]
                return np.array(iv, dtype=float).reshape(-1, 2), np.array(p, dtype=float)
            mode_ = rng.random()
            if mode_ < 0.3:
                s0 = rng.randint(0, 4) * 0.25
                ri, rp = dense(rng.randint(1, 3), s0)
                ei, ep = dense(rng.randint(1, 3), s0)
            elif mode_ < 0.45:
                # deviations a few tenths of a millisecond away from the tolerance: the documented rounding is to 4 decimals, not 3
                def near(k):
                    iv = [[1.0 * j + rng.choice([0.0, 0.0502, 0.0504, 0.0496, 0.0498, 0.2004, 0.1996]), 0.0] for j in range(k)]
                    for x in iv:
                        x[1] = x[0] + 1.0 + rng.choice([0.0, 0.0502, 0.0496, 0.2004, 0.1996])
                    return np.array(iv, dtype=float).reshape(-1, 2), np.array([440.0] * k)
                kk_ = rng.randint(1, 3)
                ri, rp = np.array([[1.0 * j, 1.0 * j + 1.0] for j in range(kk_)], dtype=float).reshape(-1, 2), np.array([440.0] * kk_)
                ei, ep = near(kk_)
            elif mode_ < 0.6:
                # onsets on a 1/32 s lattice (not multiples of 1e-4): the distance is rounded, never the onsets themselves
                # (nor the offsets: durations of 10/32 s with ratio 0.2 put the offset tolerance at 2/32 s, a distance whose end points round differently)
                def lat(k):
                    iv = [[rng.randint(0, 16) / 32.0, 0.0] for _ in range(k)]
                    for x in iv:
                        x[1] = x[0] + rng.choice([1.0, 10 / 32.0, 10 / 32.0, 12 / 32.0, 20 / 32.0])
                    return np.array(iv, dtype=float).reshape(-1, 2), np.array([440.0] * k)
                ri, rp = lat(rng.randint(1, 3))
                ei, ep = lat(rng.randint(1, 3))
            else:
                ri, rp = notes(rng.randint(0, 3))
                ei, ep = notes(rng.randint(0, 3))
            strict = rng.random() < 0.5
            ratio = rng.choice([None, 0.25, 0.5])
            ot, pt, omin = rng.choice([0.25, 0.05, 0.1]), rng.choice([50.0, 25.0]), rng.choice([0.25, 0.05])
            if 0.3 <= mode_ < 0.45:
                ot, omin = 0.05, rng.choice([0.05, 0.2])
            elif 0.45 <= mode_ < 0.6:
                ot = 1.0 / 16
                ratio, omin = rng.choice([None, 0.2, 0.2, 0.25, 0.5]), rng.choice([0.05, 1.0 / 32])
            cmp = (lambda a, b: a < b) if strict else (lambda a, b: a <= b)
            rd = lambda x: round(x, 4)
            on = lambda i, j: cmp(rd(abs(ri[i, 0] - ei[j, 0])), ot)
            pi = lambda i, j: cmp(abs(1200 * (math.log2(rp[i]) - math.log2(ep[j]))), pt)
            off = lambda i, j: True if ratio is None else cmp(rd(abs(ri[i, 1] - ei[j, 1])), max(ratio * (ri[i, 1] - ri[i, 0]), omin))
            nr, ne = len(ri), len(ei)
            n += 1
            m = transcription.match_note_onsets(ri, ei, onset_tolerance=ot, strict=strict)
            check_matching([(int(a), int(b)) for a, b in m], nr, ne, on, 'match_note_onsets(strict=%s)' % strict, fails)
            if ratio is not None:
                m = transcription.match_note_offsets(ri, ei, offset_ratio=ratio, offset_min_tolerance=omin, strict=strict)
                check_matching([(int(a), int(b)) for a, b in m], nr, ne, off, 'match_note_offsets(strict=%s, ratio=%s)' % (strict, ratio), fails)
            m = transcription.match_notes(ri, rp, ei, ep, onset_tolerance=ot, pitch_tolerance=pt, offset_ratio=ratio, offset_min_tolerance=omin, strict=strict)
            full = lambda i, j: on(i, j) and pi(i, j) and off(i, j)
            check_matching([(int(a), int(b)) for a, b in m], nr, ne, full,
                           'match_notes(%s,%s,%s,%s, strict=%s, ratio=%s)' % (ri.tolist(), rp.tolist(), ei.tolist(), ep.tolist(), strict, ratio), fails)
            rv = np.array([float(rng.randint(1, 100)) for _ in range(nr)])
            ev = np.array([float(rng.randint(1, 100)) for _ in range(ne)])
            if nr and rng.random() < 0.6:
                # estimated velocities that follow the reference ones up to a few units: errors on both sides of the tolerance
                ev = np.array([max(1.0, rv[j % nr] + rng.choice([-12, -8, -4, 0, 4, 8, 12])) for j in range(ne)])
            mv = [] if nr == 0 or ne == 0 else transcription_velocity.match_notes(ri, rp, rv, ei, ep, ev, onset_tolerance=ot, pitch_tolerance=pt, offset_ratio=ratio,
                                                    offset_min_tolerance=omin, strict=strict)
            if not set((int(a), int(b)) for a, b in mv) <= set((int(a), int(b)) for a, b in m):
                fails.append('velocity matching is not a sub-matching of the note matching')
            if nr and ne and len(m):
                # the documented velocity criterion: reference velocities scaled to [0, 1] over ALL reference notes, estimated velocities
                # mapped by the least-squares line through the matched pairs, pairs kept whose error is below the tolerance
                rvn = (rv - rv.min()) / float(max(1, rv.max() - rv.min()))
                mi_ = np.array([[int(a), int(b)] for a, b in m])
                A_ = np.vstack([ev[mi_[:, 1]], np.ones(len(mi_))]).T
                sl_, ic_ = np.linalg.lstsq(A_, rvn[mi_[:, 0]], rcond=None)[0]
                err_ = np.abs(sl_ * ev[mi_[:, 1]] + ic_ - rvn[mi_[:, 0]])
                if np.all(np.abs(err_ - 0.1) > 1e-6):
                    want_v = set((int(a), int(b)) for (a, b), e_ in zip(mi_, err_) if e_ < 0.1)
                    if set((int(a), int(b)) for a, b in mv) != want_v:
                        fails.append('transcription_velocity.match_notes keeps %s, the documented velocity criterion keeps %s (ref velocities %s, est velocities %s, note matching %s)'
                                     % (sorted((int(a), int(b)) for a, b in mv), sorted(want_v), rv.tolist(), ev.tolist(), mi_.tolist()))
            if len(fails) > 5:
                break
        # velocity criterion on well-separated notes where the loudest / softest reference note has no estimate
        for _ in range(150 if tier == 'quick' else 2000):
            kq = rng.randint(4, 6)
            ri = np.array([[1.0 * j, 1.0 * j + 0.5] for j in range(kq)])
            rp = np.full(kq, 440.0)
            rv = np.array([float(rng.choice([20, 40, 60, 80, 100, 127])) for _ in range(kq)])
            keep = [j for j in range(kq) if rng.random() < 0.7 and not (rng.random() < 0.7 and rv[j] in (rv.max(), rv.min()))]
            if len(keep) < 2:
                continue
            ei, ep = ri[keep].copy(), rp[keep].copy()
            ev = np.array([max(1.0, rv[j] + rng.choice([-14, -9, -5, 0, 5, 9, 14])) for j in keep])
            n += 1
            mv = transcription_velocity.match_notes(ri, rp, rv, ei, ep, ev)
            rvn = (rv - rv.min()) / float(max(1, rv.max() - rv.min()))
            A_ = np.vstack([ev, np.ones(len(ev))]).T
            sl_, ic_ = np.linalg.lstsq(A_, rvn[keep], rcond=None)[0]
            err_ = np.abs(sl_ * ev + ic_ - rvn[keep])
            if np.all(np.abs(err_ - 0.1) > 1e-6):
                want_v = set((keep[t], t) for t in range(len(keep)) if err_[t] < 0.1)
                if set((int(a), int(b)) for a, b in mv) != want_v:
                    fails.append('transcription_velocity.match_notes keeps %s, the documented velocity criterion keeps %s (ref velocities %s, estimates for notes %s with velocities %s)'
                                 % (sorted((int(a), int(b)) for a, b in mv), sorted(want_v), rv.tolist(), keep, ev.tolist()))
                    break
        bounded.append(dict(name='transcription.match_note_onsets / match_note_offsets / match_notes (+velocity sub-matching): valid maximum matchings of the documented predicate',
                            bound='%d random lattice note sets (<=3 x <=3 notes), strict in {T,F}, offset_ratio in {None, 1/4, 1/2}' % (1500 if tier == 'quick' else 20000),
                            cases=n, exhaustive=False, failures=fails[:3], wall_s=round(time.time() - t0, 2)))
        all_fails += fails
    if all_fails:
        results.append(dict(kind='engine', engine='matchnative', name='matcher bodies', status='ok', detail='', paths=0, inlined=[], used_contracts=[],
                            gen_time=0, wall=0, lib_used=[], props=[prop],
                            obligations=[dict(id='matchers#bounded:maximum-matching', kind='bounded', label='maximum-matching', props=[prop], line=None,
                                              note=all_fails[0][:400], expect='unsat', verdict='refuted', backend='native-exhaustive', time=0.0,
                                              model=dict(example=all_fails[0]), goal='matchers return valid maximum matchings of the stated predicate',
                                              native=dict(confirmed=True, example=all_fails[0]), finding=None)]))
    return dict(results=results, bounded=bounded)


def replay(rec):
    r = run(rec.get('property', 'C05'), 'quick', 0, None)
    fails = [f for b in r['bounded'] for f in b['failures']]
    return bool(fails), 'matcher conformance: %s' % (fails[:2] or 'no failure')
