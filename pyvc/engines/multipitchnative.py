"""Bounded stand-in for the parts of C18 outside the deductive core (resampling, per-frame counts, the 14 outputs of
metrics/evaluate): the real multipitch functions against an independent frame-by-frame specification on lattice
inputs (frequencies 440*2^(k/24), time bases that are equal / shifted / of different hop / disjoint)."""
import math
import random
import time
import warnings

from .matchnative import max_matching


def spec_metrics(ref_time, ref_freqs, est_time, est_freqs, window=0.5):
    # nearest estimate frame (ties: scipy 'nearest' rounds half down), empty outside the estimate's range
    same = len(ref_time) == len(est_time) and all(abs(a - b) <= 1e-8 + 1e-5 * abs(b) for a, b in zip(est_time, ref_time))
    if not same:
        res = []
        for t in ref_time:
            if len(est_time) == 0 or t < est_time[0] or t > est_time[-1]:
                res.append([])
            else:
                best = min(range(len(est_time)), key=lambda j: (abs(est_time[j] - t), j))
                res.append(list(est_freqs[best]))
        est_freqs = res
    midi = lambda f: 69.0 + 12.0 * math.log2(f / 440.0)
    tp, tpc, nr, ne = [], [], [], []
    for rf, ef in zip(ref_freqs, est_freqs):
        r = [midi(x) for x in rf]
        e = [midi(x) for x in ef]
        nr.append(len(r))
        ne.append(len(e))
        tp.append(max_matching(len(r), len(e), lambda i, j: abs(r[i] - e[j]) <= window))
        circ = lambda a, b: min(abs(a % 12 - b % 12), 12 - abs(a % 12 - b % 12))
        tpc.append(max_matching(len(r), len(e), lambda i, j: circ(r[i], e[j]) <= window))

    def scores(t):
        T, R, E = sum(t), sum(nr), sum(ne)
        p = T / E if E > 0 else 0.0
        rc = T / R if R > 0 else 0.0
        D = sum(a + b - c for a, b, c in zip(ne, nr, t))
        acc = T / D if D > 0 else 0.0
        if R == 0:
            return [p, rc, acc, 0.0, 0.0, 0.0, 0.0]
        sub = sum(min(a, b) - c for a, b, c in zip(nr, ne, t)) / R
        miss = sum(max(a - b, 0) for a, b in zip(nr, ne)) / R
        fa = sum(max(b - a, 0) for a, b in zip(nr, ne)) / R
        tot = sum(max(a, b) - c for a, b, c in zip(nr, ne, t)) / R
        return [p, rc, acc, sub, miss, fa, tot]
    return scores(tp) + scores(tpc), tp, tpc, nr, ne


def run(prop, tier, seed, known):
    from .. import native
    native.import_repo()
    import numpy as np
    from mir_eval import multipitch as M
    rng = random.Random(seed)
    fails, n = [], 0
    t0 = time.time()
    with warnings.catch_warnings():
        warnings.simplefilter('ignore')
        for _ in range(400 if tier == 'quick' else 4000):
            nf = rng.randint(1, 5)
            rt = [k * 0.25 for k in range(nf)]
            mode = rng.choice(['same', 'shift-small', 'shift-big', 'hop', 'disjoint', 'longer'])
            if mode == 'same':
                et = list(rt)
            elif mode == 'shift-small':
                et = [t + 0.0625 for t in rt]
            elif mode == 'shift-big':
                et = [t + 0.1875 for t in rt]
            elif mode == 'hop':
                et = [k * 0.375 for k in range(nf)]
            elif mode == 'disjoint':
                et = [t + 10.0 for t in rt]
            else:
                et = [k * 0.25 - 0.25 for k in range(nf + 2)]
            fr = lambda: [440.0 * 2 ** (rng.randint(-24, 24) / 24.0) for _ in range(rng.randint(0, 3))]
            # a frame may list the same frequency twice (validate accepts it): each listed value is its own event
            dup = lambda xs: (xs + [xs[0]]) if xs and rng.random() < 0.2 else xs
            rf = [dup(sorted(set(fr()), reverse=rng.random() < 0.5)) for _ in rt]
            ef = [dup(sorted(set(fr()), reverse=rng.random() < 0.5)) for _ in et]
            if rng.random() < 0.35:
                # octave errors: an estimate that repeats reference pitches one octave off scores differently with and without chroma wrapping
                ef = [[f * rng.choice([2.0, 0.5, 1.0]) for f in rf[min(k, len(rf) - 1)]] + (fr()[:1] if rng.random() < 0.3 else []) for k in range(len(et))]
            w = rng.choice([0.25, 0.5, 1.0])
            n += 1
            try:
                got = M.metrics(np.array(rt), [np.array(x) for x in rf], np.array(et), [np.array(x) for x in ef], window=w)
            except Exception as ex:
                fails.append('metrics raised %s on a valid input (%s time base)' % (type(ex).__name__, mode))
                continue
            want, tp, tpc, nr, ne = spec_metrics(rt, rf, et, ef, w)
            got = [float(x) for x in got]
            if len(got) != 14 or any(abs(a - b) > 1e-9 for a, b in zip(got, want)):
                fails.append('metrics(%s time base, ref_t=%s, est_t=%s, window=%s) = %s, frame-by-frame spec gives %s' % (
                    mode, rt, et, w, [round(x, 4) for x in got], [round(x, 4) for x in want]))
                continue
            p, r, a, es, em, ef_, etot = got[:7]
            pc, rc, ac, esc, emc, efc, etc_ = got[7:]
            for (pp, rr, aa, s1, s2, s3, s4) in (got[:7], got[7:]):
                if abs(s4 - (s1 + s2 + s3)) > 1e-9 or min(s1, s2, s3) < -1e-12 or aa > min(pp, rr) + 1e-12:
                    fails.append('identity violated: %s' % [pp, rr, aa, s1, s2, s3, s4])
            if any(c < t for c, t in zip(tpc, tp)) or any(t > min(a_, b_) for t, a_, b_ in zip(tp, nr, ne)):
                fails.append('per-frame counts: raw %s chroma %s' % (tp, tpc))
            ev = M.evaluate(np.array(rt), [np.array(x) for x in rf], np.array(et), [np.array(x) for x in ef], window=w)
            keys = ['Precision', 'Recall', 'Accuracy', 'Substitution Error', 'Miss Error', 'False Alarm Error', 'Total Error']
            keys = keys + ['Chroma ' + k_ for k_ in keys]
            if list(ev.keys()) != keys or any(float(ev[k_]) != g for k_, g in zip(keys, got)):
                fails.append('evaluate() does not report the metrics() scores under their documented names: %s vs metrics %s' % (
                    {k_: round(float(v), 4) for k_, v in ev.items()}, [round(g, 4) for g in got]))
            elif abs(ev['Chroma Total Error'] - (ev['Chroma Substitution Error'] + ev['Chroma Miss Error'] + ev['Chroma False Alarm Error'])) > 1e-9 \
                    or abs(ev['Total Error'] - (ev['Substitution Error'] + ev['Miss Error'] + ev['False Alarm Error'])) > 1e-9:
                fails.append('evaluate(): total error is not substitution + miss + false alarm by name: %s' % {k_: round(float(v), 4) for k_, v in ev.items()})
            if len(fails) > 5:
                break
        # a common time offset changes nothing, also far from the origin (times are exact multiples of 2^-7 s; the reference has frames one hop
        # outside the estimate's range, which stay empty estimate frames wherever the excerpt sits on the time axis)
        hop_ = 2.0 ** -7
        for trial_ in range(6):
            k_ = rng.randint(5, 8)
            rt_s = np.array([8.0 + i_ * hop_ for i_ in range(k_)])
            et_s = rt_s[1:-1] if trial_ % 2 == 0 else np.array([8.0 + hop_ + i_ * 2 * hop_ for i_ in range((k_ - 1) // 2)])
            rf_s = [np.array([440.0 * 2 ** (rng.randint(-12, 12) / 12.0) for _ in range(rng.randint(1, 2))]) for _ in rt_s]
            ef_s = [np.array([440.0 * 2 ** (rng.randint(-12, 12) / 12.0) for _ in range(rng.randint(1, 2))]) for _ in et_s]
            for i_ in range(min(len(ef_s), len(rf_s) - 1)):
                if rng.random() < 0.6:
                    ef_s[i_] = rf_s[i_ + 1].copy()
            base_m = [float(x) for x in M.metrics(rt_s, rf_s, et_s, ef_s)]
            for sh_ in (0.5, 992.0, 2000.0, 20000.0):
                n += 1
                got_m = [float(x) for x in M.metrics(rt_s + sh_, rf_s, et_s + sh_, ef_s)]
                if any(abs(a_ - b_) > 1e-9 for a_, b_ in zip(base_m, got_m)):
                    fails.append('metrics change under a common time shift of %s s: %s vs %s (reference frames %s, estimate frames %s)'
                                 % (sh_, [round(x, 4) for x in base_m[:7]], [round(x, 4) for x in got_m[:7]], rt_s.tolist(), et_s.tolist()))
                    break
        # a side without any frame is valid: an empty estimate misses everything (miss = total = 1 when the reference has pitches), an empty
        # reference scores 0 throughout
        rt_ = np.array([0.0, 0.25, 0.5])
        rf_ = [np.array([440.0]), np.array([]), np.array([220.0, 330.0])]
        for what_, args_, want_ in (('empty estimate', (rt_, rf_, np.array([]), []), [0.0, 0.0, 0.0, 0.0, 1.0, 0.0, 1.0] * 2),
                                    ('empty reference', (np.array([]), [], rt_, rf_), [0.0] * 14),
                                    ('both sides empty', (np.array([]), [], np.array([]), []), [0.0] * 14)):
            n += 1
            try:
                g_ = [float(x) for x in M.metrics(*args_)]
                if any(abs(a_ - b_) > 1e-12 for a_, b_ in zip(g_, want_)):
                    fails.append('metrics with an %s = %s, frame-by-frame spec gives %s' % (what_, g_, want_))
            except Exception as ex:
                fails.append('metrics raised %s on a valid input (%s)' % (type(ex).__name__, what_))
    bounded = [dict(name='multipitch.metrics / evaluate / resample_multipitch / compute_num_true_positives vs frame-by-frame specification and the C18 identities',
                    bound='%d random lattice inputs (<=5 frames, <=3 pitches per frame, unsorted frames; same / shifted / different-hop / disjoint / longer time bases; 3 windows)' % n,
                    cases=n, exhaustive=False, failures=fails[:4], wall_s=round(time.time() - t0, 2))]
    results = []
    if fails:
        results.append(dict(kind='engine', engine='multipitchnative', name='multipitch', status='ok', detail='', paths=0, inlined=[], used_contracts=[],
                            gen_time=0, wall=0, lib_used=[], props=[prop],
                            obligations=[dict(id='multipitch#bounded:frame-spec', kind='bounded', label='frame-spec', props=[prop], line=None, note=fails[0][:400],
                                              expect='unsat', verdict='refuted', backend='native', time=0.0, model=dict(example=fails[0]),
                                              goal='multipitch metrics equal the frame-by-frame specification', native=dict(confirmed=True, example=fails[0]),
                                              finding=None)]))
    return dict(results=results, bounded=bounded)


def replay(rec):
    r = run(rec.get('property', 'C18'), 'quick', 0, None)
    fails = [f for b in r['bounded'] for f in b['failures']]
    return bool(fails), 'multipitch vs frame-by-frame spec: %s' % (fails[:2] or 'no failure')
