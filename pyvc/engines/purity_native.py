"""Native purity harness (bounded stand-in for C15, and the replay of E3's frame / pure obligations).

A list of call recipes over the public entry points is executed against the real package:
  * deep snapshot of every argument before / after the call  -> "argument modified";
  * pass 1 runs the recipes in order, pass 2 runs them in REVERSED order on a freshly re-imported package;
    the two results of each recipe must be bit-identical -> dependence on call history / module state /
    uninitialised memory.
"""
import copy
import importlib
import io as _io
import sys
import warnings

import numpy as np

from .. import pools
from . import bundles


def fresh_package():
    from .. import native
    return native.import_repo()


def recipes(seed, n_inputs):
    """list of (name, module, function, args, kwargs)"""
    out = []
    for task in bundles.TASKS:
        for i, inp in enumerate(pools.inputs(task, seed, n_inputs)):
            kws = [{}]
            table = pools.KW_VALUES.get(task, {})
            for k, vals in list(table.items())[:3]:
                kws.append({k: vals[0]})
            for K in kws[: (2 if i else 4)]:
                out.append(('%s.evaluate#%d%s' % (task, i, sorted(K)), task, 'evaluate', inp, K))
    rng = np.random.RandomState(seed)
    iv = np.array([[0.5, 1.0], [1.0, 2.0], [2.5, 3.0]])
    lab = ['a', 'b', 'c']
    for t_min, t_max in ((0.0, 4.0), (None, 4.0), (0.0, None), (1.0, 2.5), (0.75, 2.75), (5.0, 6.0)):
        out.append(('util.adjust_intervals(%s,%s)' % (t_min, t_max), 'util', 'adjust_intervals', (iv, lab), dict(t_min=t_min, t_max=t_max)))
        out.append(('util.adjust_events(%s,%s)' % (t_min, t_max), 'util', 'adjust_events', (np.array([0.5, 1.0, 2.5]), lab), dict(t_min=t_min, t_max=t_max)))
    out.append(('util.merge_labeled_intervals', 'util', 'merge_labeled_intervals',
                (np.array([[0., 1.], [1., 3.]]), ['a', 'b'], np.array([[0., 2.], [2., 3.]]), ['x', 'y']), {}))
    out.append(('util.interpolate_intervals', 'util', 'interpolate_intervals', (iv, lab, np.array([0.0, 0.75, 1.0, 2.25, 3.0])), dict(fill_value='N')))
    out.append(('util.intervals_to_samples', 'util', 'intervals_to_samples', (iv, lab), dict(sample_size=0.25, fill_value='N')))
    out.append(('util.sort_labeled_intervals', 'util', 'sort_labeled_intervals', (iv[::-1].copy(), lab), {}))
    out.append(('util.match_events', 'util', 'match_events', (np.array([1.0, 2.0, 3.0]), np.array([1.01, 2.5, 2.99]), 0.05), {}))
    out.append(('util._bipartite_match', 'util', '_bipartite_match', ({0: [0, 1], 1: [0], 2: [2, 1]},), {}))
    t = np.arange(5) * 0.125
    f = np.array([440.0, 0.0, 220.0, 0.0, 330.0])
    ef = np.array([440.0, 0.0, -220.0, 110.0, 0.0])
    v = np.array([1.0, 1.0, 0.5, 1.0, 1.0])
    out.append(('melody.freq_to_voicing', 'melody', 'freq_to_voicing', (ef, v), {}))
    out.append(('melody.to_cent_voicing', 'melody', 'to_cent_voicing', (t, f, t, ef, v, v.copy()), {}))
    out.append(('melody.evaluate+voicing', 'melody', 'evaluate', (t, f, t, ef), dict(est_voicing=v, ref_reward=v.copy())))
    out.append(('melody.hz2cents', 'melody', 'hz2cents', (f,), {}))
    out.append(('melody.resample_melody_series', 'melody', 'resample_melody_series', (t, f, (f > 0).astype(float), t * 0.5), {}))
    out.append(('multipitch.resample_multipitch', 'multipitch', 'resample_multipitch',
                (t, [np.array([440.0]), np.array([]), np.array([220.0, 330.0]), np.array([]), np.array([110.0])], t + 0.05), {}))
    out.append(('chord.encode_many', 'chord', 'encode_many', (['C:9', 'G:maj(9)', 'N', 'A:min7/b3'],), {}))
    out.append(('chord.encode_many(reduce)', 'chord', 'encode_many', (['C:9', 'G:maj(9)', 'N', 'A:min7/b3'], True), {}))
    out.append(('chord.merge_chord_intervals', 'chord', 'merge_chord_intervals', (np.array([[0., 1.], [1., 2.], [2., 3.]]), ['C:9', 'C:9', 'G']), {}))
    out.append(('chord.tetrads', 'chord', 'tetrads', (['C:9', 'G:maj(9)', 'N'], ['C:9', 'G:maj7', 'C']), {}))
    out.append(('chord.split', 'chord', 'split', ('C:maj9(*3)/5', True), {}))
    out.append(('chord.join', 'chord', 'join', ('C', 'maj', {'9', '*3'}, '5'), {}))
    out.append(('chord.weighted_accuracy', 'chord', 'weighted_accuracy', (np.array([1., 0., -1.]), np.array([1., 2., 1.])), {}))
    fr = np.array([440.0, np.nan, 220.0, -110.0, 0.0])
    out.append(('sonify.pitch_contour', 'sonify', 'pitch_contour', (np.arange(5) * 0.01, fr, 4000), {}))
    out.append(('sonify.clicks', 'sonify', 'clicks', (np.array([0.01, 0.02]), 4000), dict(length=200)))
    out.append(('sonify.time_frequency', 'sonify', 'time_frequency',
                (np.array([[1.0, 0.0], [0.0, 1.0]]), np.array([220.0, 440.0]), np.array([[0.0, 0.01], [0.01, 0.02]]), 4000), dict(length=100)))
    out.append(('sonify.chords', 'sonify', 'chords', (['C:9', 'N'], np.array([[0.0, 0.01], [0.01, 0.02]]), 4000), dict(length=100)))
    src = rng.randn(2, 1400)
    est = src[::-1] + 0.1 * rng.randn(2, 1400)
    out.append(('separation.bss_eval_sources', 'separation', 'bss_eval_sources', (src, est), {}))
    sil = src.copy()
    sil[0, :700] = 0.0
    out.append(('separation.bss_eval_sources_framewise', 'separation', 'bss_eval_sources_framewise', (sil, est), dict(window=700, hop=700)))
    img = rng.randn(2, 1400, 1)
    imge = img + 0.1 * rng.randn(2, 1400, 1)
    out.append(('separation.bss_eval_images', 'separation', 'bss_eval_images', (img, imge), {}))
    simg = img.copy()
    simg[0, :700] = 0.0
    out.append(('separation.bss_eval_images_framewise', 'separation', 'bss_eval_images_framewise', (simg, imge), dict(window=700, hop=700)))
    out.append(('separation.bss_eval_images_framewise(empty)', 'separation', 'bss_eval_images_framewise', (np.zeros((0, 0, 0)), np.zeros((0, 0, 0))), {}))
    out.append(('io.load_events', 'io', 'load_events', ('1.0\n2.5\n',), {}))
    out.append(('io.load_labeled_intervals', 'io', 'load_labeled_intervals', ('0.0 1.0 a b\n1.0 2.0 c\n',), {}))
    return out


def same(a, b):
    if isinstance(a, np.ndarray) or isinstance(b, np.ndarray):
        if not (isinstance(a, np.ndarray) and isinstance(b, np.ndarray)) or a.shape != b.shape or a.dtype != b.dtype:
            return False
        if a.dtype == object:
            return all(same(x, y) for x, y in zip(a.ravel().tolist(), b.ravel().tolist()))
        return a.tobytes() == b.tobytes()
    if isinstance(a, (list, tuple)):
        return type(a) is type(b) and len(a) == len(b) and all(same(x, y) for x, y in zip(a, b))
    if isinstance(a, dict):
        return isinstance(b, dict) and list(a) == list(b) and all(same(a[k], b[k]) for k in a)
    if isinstance(a, set):
        return a == b
    if isinstance(a, float) and isinstance(b, float):
        return a == b or (a != a and b != b)
    try:
        r = a == b
        return bool(r)
    except Exception:
        return False


def call(pkg, mod, fn, args, kwargs):
    m = importlib.import_module('mir_eval.' + mod)
    f = getattr(m, fn)
    a = copy.deepcopy(args)
    k = copy.deepcopy(kwargs)
    if mod == 'io':
        a = tuple(_io.StringIO(x) if isinstance(x, str) else x for x in a)
    before = (copy.deepcopy(a), copy.deepcopy(k)) if mod != 'io' else None
    with warnings.catch_warnings():
        warnings.simplefilter('ignore')
        try:
            res = ('ok', f(*a, **k))
        except Exception as ex:
            res = ('raise', type(ex).__name__)
    modified = []
    if before is not None:
        for i, (x, y) in enumerate(zip(before[0], a)):
            if not same(x, y):
                modified.append('positional argument %d' % i)
        for kk in k:
            if not same(before[1][kk], k[kk]):
                modified.append('keyword argument %s' % kk)
    return res, modified


def run_harness(seed=0, n_inputs=3):
    rs = recipes(seed, n_inputs)
    findings = []
    pkg = fresh_package()
    first = {}
    for name, mod, fn, args, kwargs in rs:
        res, modified = call(pkg, mod, fn, args, kwargs)
        first[name] = res
        for m in modified:
            findings.append(dict(kind='argument-modified', recipe=name, what=m))
        res2, _ = call(pkg, mod, fn, args, kwargs)
        if not same(res, res2):
            findings.append(dict(kind='not-repeatable', recipe=name, what='two consecutive identical calls differ: %r vs %r' % (str(res)[:80], str(res2)[:80])))
    pkg = fresh_package()
    for name, mod, fn, args, kwargs in reversed(rs):
        res, _ = call(pkg, mod, fn, args, kwargs)
        if not same(first[name], res):
            findings.append(dict(kind='history-dependent', recipe=name,
                                 what='result differs between call orders on fresh module state: %r vs %r' % (str(first[name])[:80], str(res)[:80])))
    return len(rs), findings
