"""Bounded stand-in for the segment labelling metrics (C16; also C01 ranges, C06 swap, C08 relabelling, C12 cutting):
the real segment.* functions against textbook formulas evaluated on the contingency table of the two frame-label
sequences (frames at k*frame_size, label of the interval containing the frame time, the later interval at a shared
boundary; labels compared case-insensitively)."""
import itertools
import math
import random
import time
import warnings


def frames(iv, labels, size):
    kmax = int(math.floor(max(e for s, e in iv) / size))
    out = []
    for k in range(kmax):
        t = k * size
        cands = [l for (s, e), l in zip(iv, labels) if s <= t <= e]
        out.append(cands[-1].lower() if cands else None)
    return out


def table(a, b):
    ra, rb = sorted(set(a), key=str), sorted(set(b), key=str)
    C = [[0] * len(rb) for _ in ra]
    for x, y in zip(a, b):
        C[ra.index(x)][rb.index(y)] += 1
    return C


def comb2(n):
    return n * (n - 1) // 2


def H(ps):
    return -sum(p * math.log2(p) for p in ps if p > 0)


def spec(a, b, beta=1.0):
    n = len(a)
    C = table(a, b)
    rows = [sum(r) for r in C]
    cols = [sum(C[i][j] for i in range(len(C))) for j in range(len(C[0]))]
    agree_a, agree_b = sum(comb2(x) for x in rows), sum(comb2(x) for x in cols)
    both = sum(comb2(x) for r in C for x in r)
    fb = lambda p, r: 0.0 if p == 0 and r == 0 else (1 + beta ** 2) * p * r / (beta ** 2 * p + r)
    out = {}
    P = both / agree_b if agree_b else float('nan')
    R = both / agree_a if agree_a else float('nan')
    out['pairwise'] = (P, R, fb(P, R) if P == P and R == R else float('nan'))
    tot = comb2(n)
    out['rand'] = (both + (tot - agree_a - agree_b + both)) / tot if tot else float('nan')
    if len(rows) == len(cols) == 1 or (len(rows) == len(cols) == n):
        out['ari'] = 1.0
    else:
        prod = agree_a * agree_b / tot
        mean = (agree_a + agree_b) / 2.0
        out['ari'] = (both - prod) / (mean - prod)
    mi = sum(C[i][j] / n * math.log((C[i][j] * n) / (rows[i] * cols[j])) for i in range(len(rows)) for j in range(len(cols)) if C[i][j])
    ha = -sum(x / n * math.log(x / n) for x in rows if x)
    hb = -sum(x / n * math.log(x / n) for x in cols if x)
    out['mi'] = mi
    if len(rows) == len(cols) == 1:
        out['ami'] = out['nmi'] = 1.0
    else:
        emi = 0.0
        for ai in rows:
            for bj in cols:
                for nij in range(max(1, ai + bj - n), min(ai, bj) + 1):
                    emi += nij / n * math.log(n * nij / (ai * bj)) * math.exp(
                        math.lgamma(ai + 1) + math.lgamma(bj + 1) + math.lgamma(n - ai + 1) + math.lgamma(n - bj + 1) - math.lgamma(n + 1)
                        - math.lgamma(nij + 1) - math.lgamma(ai - nij + 1) - math.lgamma(bj - nij + 1) - math.lgamma(n - ai - bj + nij + 1))
        out['ami'] = (mi - emi) / (max(ha, hb) - emi)
        out['nmi'] = mi / max(math.sqrt(ha * hb), 1e-10)
    # conditional entropies (bits)
    h_a_given_b = sum(cols[j] / n * H([C[i][j] / cols[j] for i in range(len(rows))]) for j in range(len(cols)))
    h_b_given_a = sum(rows[i] / n * H([C[i][j] / rows[i] for j in range(len(cols))]) for i in range(len(rows)))
    for key, za, zb in (('nce', math.log2(len(rows)), math.log2(len(cols))), ('v', H([x / n for x in rows]), H([x / n for x in cols]))):
        under = 1.0 - h_a_given_b / za if za > 0 else 0.0
        over = 1.0 - h_b_given_a / zb if zb > 0 else 0.0
        out[key] = (over, under, fb(over, under))
    return out


def close(x, y, tol=1e-8):
    if isinstance(x, tuple):
        return all(close(a, b, tol) for a, b in zip(x, y))
    if x != x or y != y:
        return x != x and y != y
    return abs(x - y) <= tol * max(1.0, abs(x), abs(y))


def run(prop, tier, seed, known):
    from .. import native
    native.import_repo()
    import numpy as np
    from mir_eval import segment as S
    rng = random.Random(seed)
    from ._tag import Fails
    fails = Fails(prop, (('textbook formula', ('C16', 'C04')), ('vmeasure != nce', ('C16',)), ('swap of reference', ('C06',)),
                         ('label renaming', ('C08', 'C16')), ('is not symmetric', ('C06',)), ('is cut at', ('C12',)), ('is cut at ', ('C12',)), ('cut at [', ('C12',)), ('out of [0, 1]', ('C01',)), ('above 1', ('C01',)),
                         ('perfect score', ('C02', 'C16'))))
    n = 0
    t0 = time.time()

    def seg(k, end):
        cuts = sorted(rng.sample([x * 0.25 for x in range(1, int(end / 0.25))], k - 1)) if k > 1 else []
        b = [0.0] + cuts + [end]
        return [[b[i], b[i + 1]] for i in range(k)]

    def metrics(ri, rl, ei, el, size, beta):
        a = (np.array(ri), rl, np.array(ei), el)
        return dict(pairwise=tuple(float(x) for x in S.pairwise(*a, frame_size=size, beta=beta)), rand=float(S.rand_index(*a, frame_size=size)),
                    ari=float(S.ari(*a, frame_size=size)), mi3=tuple(float(x) for x in S.mutual_information(*a, frame_size=size)),
                    nce=tuple(float(x) for x in S.nce(*a, frame_size=size, beta=beta)), v=tuple(float(x) for x in S.vmeasure(*a, frame_size=size, beta=beta)),
                    nce_m=tuple(float(x) for x in S.nce(*a, frame_size=size, beta=beta, marginal=True)))
    with warnings.catch_warnings():
        warnings.simplefilter('ignore')
        for it in range(120 if tier == 'quick' else 1500):
            end = rng.choice([2.0, 3.0, 4.5])
            ri, ei = seg(rng.randint(1, 4), end), seg(rng.randint(1, 4), end)
            if it % 7 == 3:
                # a track that ends just short of a whole number of frames: the grid has floor(T / frame_size) points, not one more
                short = rng.choice([2.5e-7, 4e-7, 1e-9])
                ri[-1][1] = end - short
                ei[-1][1] = end - short
            rl = [rng.choice(['a', 'b', 'A', 'c', 'B']) for _ in ri]
            el = [rng.choice(['x', 'y', 'X', 'z']) for _ in ei]
            size = rng.choice([0.25, 0.5])
            beta = rng.choice([1.0, 2.0, 0.5])
            n += 1
            got = metrics(ri, rl, ei, el, size, beta)
            fa, fb_ = frames(ri, rl, size), frames(ei, el, size)
            want = spec(fa, fb_, beta)
            for key, g, w in (('pairwise', got['pairwise'], want['pairwise']), ('rand', got['rand'], want['rand']), ('ari', got['ari'], want['ari']),
                              ('mi', got['mi3'][0], want['mi']), ('ami', got['mi3'][1], want['ami']), ('nmi', got['mi3'][2], want['nmi']),
                              ('nce', got['nce'], want['nce']), ('vmeasure', got['v'], want['v'])):
                if key == 'nmi' and (len(set(fa)) == 1 or len(set(fb_)) == 1) and abs(g - w) < 1e-4:
                    continue        # recorded finding KF-nmi-negative-rounding (rounding noise divided by the 1e-10 floor)
                if not close(g, w):
                    fails.append('segment.%s(ref=%s %s, est=%s %s, frame_size=%s, beta=%s) = %s, textbook formula gives %s' % (key, ri, rl, ei, el, size, beta, g, w))
            if got['v'] != got['nce_m']:
                fails.append('vmeasure != nce(marginal=True): %s vs %s' % (got['v'], got['nce_m']))
            # C06 swap
            sw = metrics(ei, el, ri, rl, size, 1.0)
            g1 = metrics(ri, rl, ei, el, size, 1.0)
            if not (close(g1['pairwise'][0], sw['pairwise'][1]) and close(g1['pairwise'][1], sw['pairwise'][0]) and close(g1['rand'], sw['rand'])
                    and close(g1['ari'], sw['ari']) and close(g1['mi3'], sw['mi3']) and close(g1['nce'][0], sw['nce'][1]) and close(g1['nce'][1], sw['nce'][0])
                    and close(g1['v'][0], sw['v'][1]) and close(g1['v'][2], sw['v'][2])):
                fails.append('swap of reference and estimate does not exchange precision/recall (over/under): %s vs %s' % (g1, sw))
            # C08 relabelling by a bijection within each annotation, C16 case-insensitivity
            ren = {'a': 'q', 'b': 'r', 'c': 's'}
            rl2 = [ren[l.lower()] for l in rl]
            el2 = [l.upper() for l in el]
            g2 = metrics(ri, rl2, ei, el2, size, beta)
            if not all(close(got[k], g2[k]) for k in got):
                fails.append('scores change under label renaming / letter case: %s vs %s' % (got, g2))
            # C12 cutting an interval into two pieces with the same label
            j = rng.randrange(len(ri))
            s, e = ri[j]
            if e - s >= 0.5:
                cut = s + 0.25 * rng.randint(1, int((e - s) / 0.25) - 1)
                ri3 = ri[:j] + [[s, cut], [cut, e]] + ri[j + 1:]
                rl3 = rl[:j] + [rl[j], rl[j]] + rl[j + 1:]
                g3 = metrics(ri3, rl3, ei, el, size, beta)
                if not all(close(got[k], g3[k]) for k in got):
                    fails.append('scores change when reference interval %s is cut at %s: %s vs %s' % (ri[j], cut, got, g3))
            # C16 / C12: the rows of an annotation listed in another order (with their labels) are the same annotation; cutting every interval
            # into pieces shorter than a coarse frame changes nothing either
            if len(ri) > 1:
                # (interior boundaries moved off the frame grid: which interval owns a frame that falls exactly on a shared boundary is decided
                # by the listing order and is not part of the claim)
                ro_ = [[s_ + (0.1 if s_ > 0 else 0.0), e_ + (0.1 if e_ < ri[-1][1] else 0.0)] for s_, e_ in ri]
                perm_ = list(range(len(ri)))
                rng.shuffle(perm_)
                g_sorted = metrics(ro_, rl, ei, el, size, beta)
                gp = metrics([list(ro_[k_]) for k_ in perm_], [rl[k_] for k_ in perm_], ei, el, size, beta)
                if not all(close(g_sorted[k], gp[k]) for k in g_sorted):
                    fails.append('segment scores differ from their textbook formula when the reference rows are listed in the order %s: %s vs %s (ref %s %s)' % (perm_, gp, g_sorted, ro_, rl))
            if it % 5 == 0:
                big_ = 1.0
                fine_r, fine_rl = [], []
                for (s_, e_), l_ in zip(ri, rl):
                    t_ = s_
                    while t_ < e_ - 1e-12:
                        nx_ = min(e_, t_ + 0.75)
                        fine_r.append([t_, nx_])
                        fine_rl.append(l_)
                        t_ = nx_
                try:
                    gc0 = metrics(ri, rl, ei, el, big_, beta)
                    gc1 = metrics(fine_r, fine_rl, ei, el, big_, beta)
                    if not all(close(gc0[k], gc1[k]) for k in gc0):
                        fails.append('scores change when every reference interval is cut at [%s] into pieces shorter than the frame size %s: %s vs %s' % (
                            [x_[0] for x_ in fine_r][1:], big_, gc0, gc1))
                except Exception as ex:
                    fails.append('segment metrics raised %s when the reference is cut at [...] into pieces shorter than the frame size' % type(ex).__name__)
            # ranges (C01)
            for key in ('pairwise', 'nce', 'v'):
                if any(not (x != x or -1e-9 <= x <= 1 + 1e-9) for x in got[key]):
                    fails.append('segment.%s out of [0, 1]: %s' % (key, got[key]))
            if got['ari'] > 1 + 1e-9 or got['mi3'][1] > 1 + 1e-6 or not (got['rand'] != got['rand'] or 0 <= got['rand'] <= 1):
                fails.append('chance-adjusted index above 1: %s' % (got,))
            # perfect estimate
            p = metrics(ri, rl, ri, rl, size, beta)
            if len(set(fa)) > 1 and len(fa) > len(set(fa)):
                if not (close(p['pairwise'], (1.0, 1.0, 1.0)) and close(p['rand'], 1.0) and close(p['ari'], 1.0) and close(p['v'], (1.0, 1.0, 1.0))):
                    fails.append('identical annotations do not get the perfect score: %s' % (p,))
            # C08: labels that differ only by surrounding blanks are different labels: renaming them to fresh names changes nothing
            if len(ri) >= 2:
                rl5 = [('a' if k_ % 2 == 0 else 'a ') if l.lower() == 'a' else l for k_, l in enumerate(rl)]
                fresh = {}
                rl6 = [fresh.setdefault(l.lower(), 'f%d' % len(fresh)) for l in rl5]
                q0 = metrics(ri, rl5, ei, el, size, beta)
                q1 = metrics(ri, rl6, ei, el, size, beta)
                if not all(close(q0[k], q1[k]) for k in q0):
                    fails.append('scores change under label renaming when two labels differ only by a trailing blank: %s -> %s: %s vs %s' % (rl5, rl6, q0, q1))
            # C08: renaming the labels of ONE side of two identical annotations (also when there is a single label)
            one = rng.random() < 0.4
            rl4 = [rl[0]] * len(rl) if one else rl
            ren2 = {'a': 'm', 'b': 'n', 'c': 'o'}
            p0 = metrics(ri, rl4, ri, list(rl4), size, beta)
            p1 = metrics(ri, rl4, ri, [ren2[l.lower()] for l in rl4], size, beta)
            if not all(close(p0[k], p1[k]) for k in p0):
                fails.append('scores of identical annotations change under label renaming of the estimate only: %s vs %s (labels %s)' % (p0, p1, rl4))
            # C06: one side gives every frame its own label (all singletons), the other groups frames
            nfr = int(end / size)
            if nfr <= 12 and it % 7 != 3:
                si = [[k * size, (k + 1) * size] for k in range(nfr)]
                sl = ['s%d' % k for k in range(nfr)]
                ga, gb = metrics(si, sl, ei, el, size, 1.0), metrics(ei, el, si, sl, size, 1.0)
                if not (close(ga['ari'], gb['ari']) and close(ga['rand'], gb['rand']) and close(ga['mi3'], gb['mi3']) and close(ga['pairwise'][0], gb['pairwise'][1])):
                    fails.append('swap of reference and estimate is not symmetric when one side is all singletons: %s vs %s' % (ga, gb))
            if len(fails) > 6:
                break
        # C12 on a decimal grid (boundaries that are not binary fractions): a 30 s annotation, frame size 0.1, cut at random multiples of 0.1.
        # The number of frames, and with it every score, must not depend on how the time is cut up.
        ndec = 0
        base_iv = [[0.0, 12.3], [12.3, 21.7], [21.7, 30.0]]
        base_lb = ['a', 'b', 'a']
        est_iv = [[0.0, 7.1], [7.1, 19.9], [19.9, 30.0]]
        est_lb = ['x', 'y', 'z']
        g0 = metrics(base_iv, base_lb, est_iv, est_lb, 0.1, 1.0)
        for it in range(60 if tier == 'quick' else 600):
            def refine(iv, lb):
                out_i, out_l = [], []
                for (s_, e_), l in zip(iv, lb):
                    cuts = sorted({round(rng.randint(int(round(s_ * 10)) + 1, int(round(e_ * 10)) - 1) / 10.0, 1) for _ in range(rng.randint(1, 3))})
                    b = [s_] + cuts + [e_]
                    out_i += [[b[i], b[i + 1]] for i in range(len(b) - 1)]
                    out_l += [l] * (len(b) - 1)
                return out_i, out_l
            ri2, rl2 = refine(base_iv, base_lb)
            ei2, el2 = refine(est_iv, est_lb)
            for (a_i, a_l, b_i, b_l, what) in ((ri2, rl2, est_iv, est_lb, 'reference'), (base_iv, base_lb, ei2, el2, 'estimate'), (ri2, rl2, ei2, el2, 'both')):
                ndec += 1
                try:
                    g = metrics(a_i, a_l, b_i, b_l, 0.1, 1.0)
                except Exception as ex:
                    fails.append('segment metrics raised %s when the %s is cut at %s (same labels, 0.1 s frames)' % (type(ex).__name__, what, [x[0] for x in (a_i if what != 'estimate' else b_i)][1:]))
                    break
                if not all(close(g0[k], g[k]) for k in g0):
                    fails.append('scores change when the %s is cut at %s (same labels, 0.1 s frames): %s vs %s' % (what, [x[0] for x in (a_i if what != 'estimate' else b_i)][1:], g0, g))
                    break
            if len(fails) > 6:
                break
        n += ndec
    bounded = [dict(name='segment.pairwise / rand_index / ari / mutual_information / nce / vmeasure vs textbook formulas on the frame contingency table; '
                         'vmeasure == nce(marginal=True); swap, relabelling, case, cutting, ranges, perfect estimate',
                    bound='%d random labelled segmentations (<=4 segments, lattice boundaries), frame_size in {1/4, 1/2}, beta in {1/2, 1, 2}' % n,
                    cases=n, exhaustive=False, failures=fails[:4], wall_s=round(time.time() - t0, 2))]
    results = []
    if fails:
        results.append(dict(kind='engine', engine='segnative', name='segment labelling metrics', status='ok', detail='', paths=0, inlined=[], used_contracts=[],
                            gen_time=0, wall=0, lib_used=[], props=[prop],
                            obligations=[dict(id='segment#bounded:clustering-definitions', kind='bounded', label='clustering-definitions', props=[prop], line=None,
                                              note=fails[0][:500], expect='unsat', verdict='refuted', backend='native', time=0.0, model=dict(example=fails[0]),
                                              goal='segment labelling metrics equal their clustering-index definitions',
                                              native=dict(confirmed=True, example=fails[0]), finding=None)]))
    return dict(results=results, bounded=bounded)


def replay(rec):
    r = run(rec.get('property', 'C16'), 'quick', 0, None)
    fails = [f for b in r['bounded'] for f in b['failures']]
    return bool(fails), 'segment labelling metrics vs definitions: %s' % (fails[:2] or 'no failure')
