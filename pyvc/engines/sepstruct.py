"""C19 structural obligations on mir_eval.separation (AST level) plus a bounded native harness.

[P] arity: every `return` of bss_eval_sources(_framewise) has 4, of bss_eval_images(_framewise) 5 components (empty inputs included).
[P] init:  every buffer allocated with np.empty is written, on every path of the loop nest that fills it, at the loop indices -
           so no cell of a returned array is uninitialised memory (in particular the silent-window branch of the framewise variants
           writes every metric).
[B] native: decomposition sums to the (zero-padded) estimate; scale invariance; permutation maximises mean SIR; framewise windows equal
            the non-framewise result on that window; NaN in every metric for silent windows; arity on empty input.
"""
import ast
import itertools
import time
import warnings

from .. import frontend
from . import bundles


def must_write(stmts, name, idx_names):
    """True if every path through `stmts` executes a store  name[... idx ...] = ..  mentioning all of idx_names"""
    for s in stmts:
        if writes(s, name, idx_names):
            return True
    return False


def target_hits(t, name, idx_names):
    if isinstance(t, (ast.Tuple, ast.List)):
        return any(target_hits(x, name, idx_names) for x in t.elts)
    if isinstance(t, ast.Subscript) and isinstance(t.value, ast.Name) and t.value.id == name:
        used = {n.id for n in ast.walk(t.slice) if isinstance(n, ast.Name)}
        return set(idx_names) <= used
    return False


def writes(s, name, idx_names):
    if isinstance(s, ast.Assign):
        return any(target_hits(t, name, idx_names) for t in s.targets)
    if isinstance(s, ast.If):
        return must_write(s.body, name, idx_names) and must_write(s.orelse, name, idx_names)
    if isinstance(s, ast.For):
        return False
    return False


UNINIT = ('np.empty', 'numpy.empty', 'np.empty_like', 'numpy.empty_like', 'np.ndarray', 'numpy.ndarray')


def init_obligations(modules=('separation',)):
    obs = []
    for mname in modules:
        obs.extend(_init_obligations(mname))
    return obs


def _init_obligations(mname):
    obs = []
    mod = frontend.module(mname)
    for fname, fd in mod.functions.items():
        empties = []
        named = set()
        for n in ast.walk(fd):
            if isinstance(n, ast.Assign) and isinstance(n.value, ast.Call) and frontend.dotted(n.value.func) in UNINIT \
                    and len(n.targets) == 1 and isinstance(n.targets[0], ast.Name) and n.value.args:
                shape = n.value.args[0]
                dims = list(shape.elts) if isinstance(shape, (ast.Tuple, ast.List)) else [shape]
                named.add(id(n.value))
                if any(isinstance(d, ast.Constant) and d.value == 0 for d in dims):
                    continue            # a buffer with a zero extent has no cell to read
                empties.append((n.targets[0].id, [ast.unparse(d) for d in dims], n.lineno, n))
        for n in ast.walk(fd):
            # an uninitialised allocation that is not bound to a plain name cannot be followed by this rule
            if isinstance(n, ast.Call) and frontend.dotted(n.func) in UNINIT and id(n) not in named:
                obs.append(dict(id='%s.%s#init:anonymous@L%d' % (mname, fname, n.lineno), kind='init', label='anonymous', props=['C19', 'C15'], line=n.lineno,
                                note='uninitialised allocation `%s` is not assigned to a plain name' % ast.unparse(n)[:80], expect='unsat', verdict='refuted',
                                backend='ast-must-write', time=0.0, model=dict(function=fname, line=n.lineno), goal='every uninitialised buffer is filled before use',
                                native=None, finding=None))
        for name, dims, line, node in empties:
            # the loop nests that follow the allocation in the same block
            ok, why = False, 'no loop fills it'
            block = enclosing_block(fd, node)
            after = block[block.index(node) + 1:]
            for s in after:
                if not isinstance(s, ast.For):
                    continue
                nest = []
                cur = s
                while isinstance(cur, ast.For):
                    var = cur.target.id if isinstance(cur.target, ast.Name) else \
                        (cur.target.elts[0].id if isinstance(cur.target, ast.Tuple) and isinstance(cur.target.elts[0], ast.Name) else None)
                    rng = ast.unparse(cur.iter)
                    nest.append((var, rng, cur))
                    inner = [x for x in cur.body if isinstance(x, ast.For)]
                    if len(cur.body) == 1 and inner:
                        cur = inner[0]
                    else:
                        break
                body = nest[-1][2].body
                idx = [v for v, _, _ in nest if v]
                # which loop variables index the buffer: all of the nest whose range is a dimension of the buffer
                covering = [v for v, rng, _ in nest if any(rng in ('range(%s)' % d, 'enumerate(%s)' % d.replace('len(', '').rstrip(')')) or
                                                               rng == 'range(%s)' % d for d in dims)]
                if not covering:
                    continue
                if must_write(body, name, covering):
                    # dimensions not covered by a loop variable must be written as a whole slice (":")
                    ok, why = True, ''
                    break
                else:
                    why = 'some path through the loop at line %d does not write %s[%s]' % (s.lineno, name, ', '.join(covering))
            obs.append(dict(id='%s.%s#init:%s@L%d' % (mname, fname, name, dims_key(empties, name, line)), kind='init', label=name, props=['C19', 'C15'], line=line,
                            note='' if ok else 'np.empty buffer %s: %s' % (name, why), expect='unsat', verdict='discharged' if ok else 'refuted',
                            backend='ast-must-write', time=0.0, model=None if ok else dict(buffer=name, function=fname, line=line, why=why),
                            goal='every cell of %s (np.empty%s) is written on every path before it is returned' % (name, tuple(dims)),
                            native=None, finding=None))
    return obs


def dims_key(empties, name, line):
    same = [l for n, _, l, _ in empties if n == name]
    return same.index(line)


def enclosing_block(fd, node):
    for n in ast.walk(fd):
        for field in ('body', 'orelse', 'finalbody'):
            b = getattr(n, field, None)
            if isinstance(b, list) and node in b:
                return b
    return []


# ----------------------------------------------------------------------------- bounded native harness
def native_harness(tier, seed):
    from .. import native
    native.import_repo()
    import numpy as np
    from mir_eval import separation as S
    fails, n = [], 0
    rs = np.random.RandomState(seed)
    with warnings.catch_warnings():
        warnings.simplefilter('ignore')
        for nsrc in (1, 2, 3):
            T = 2 * nsrc * 512 + 200
            ref = rs.randn(nsrc, T)
            mix = rs.randn(nsrc, nsrc) * 0.3 + np.eye(nsrc)[rs.permutation(nsrc)]
            est = mix @ ref + 0.05 * rs.randn(nsrc, T)
            # decomposition
            for j in range(nsrc):
                parts = S._bss_decomp_mtifilt(ref, est[j], j, 512)
                tot = sum(parts)
                n += 1
                if not np.allclose(tot[:T], est[j], atol=1e-8) or not np.allclose(tot[T:], 0, atol=1e-8):
                    fails.append('_bss_decomp_mtifilt components do not sum to the estimate (nsrc=%d, j=%d)' % (nsrc, j))
            sdr, sir, sar, perm = S.bss_eval_sources(ref, est)
            n += 1
            if sorted(perm.tolist()) != list(range(nsrc)):
                fails.append('bss_eval_sources perm %s is not a permutation' % perm.tolist())
            # permutation maximises mean SIR over all pairings (recomputed from the non-permuted criteria)
            full = np.array([[S._bss_source_crit(*S._bss_decomp_mtifilt(ref, est[je], jt, 512))[1] for jt in range(nsrc)] for je in range(nsrc)])
            best = max(np.mean(full[list(p), np.arange(nsrc)]) for p in itertools.permutations(range(nsrc)))
            if abs(np.mean(full[perm, np.arange(nsrc)]) - best) > 1e-9:
                fails.append('bss_eval_sources perm %s does not maximise mean SIR (nsrc=%d)' % (perm.tolist(), nsrc))
            # the images variant on a pairing that is not its own inverse (3-cycle) and on very quiet signals
            if nsrc == 3:
                cyc = ref[[1, 2, 0]] + 0.05 * rs.randn(nsrc, T)
                isdr, iisr, isir, isar, iperm = S.bss_eval_images(ref, cyc)
                n += 1
                fulli = np.array([[S._bss_image_crit(*S._bss_decomp_mtifilt_images(np.atleast_3d(ref), np.atleast_3d(cyc)[je], jt, 512))[2]
                                   for jt in range(nsrc)] for je in range(nsrc)])
                besti = max(np.mean(fulli[list(p), np.arange(nsrc)]) for p in itertools.permutations(range(nsrc)))
                if abs(np.mean(fulli[iperm, np.arange(nsrc)]) - besti) > 1e-9 or abs(np.mean(isir) - besti) > 1e-6:
                    fails.append('bss_eval_images perm %s does not maximise mean SIR (best %.3f, returned %.3f)' % (iperm.tolist(), besti, np.mean(isir)))
                sp, _, _, pp = S.bss_eval_sources(ref, cyc)
                if pp.tolist() != iperm.tolist():
                    fails.append('bss_eval_images and bss_eval_sources disagree on the permutation: %s vs %s' % (iperm.tolist(), pp.tolist()))
            tiny = 2.0 ** -40
            sdr_t, sir_t, sar_t, perm_t = S.bss_eval_sources(ref * tiny, est * tiny)
            n += 1
            if not (np.allclose(sdr, sdr_t, atol=1e-4) and np.allclose(sir, sir_t, atol=1e-4) and (perm == perm_t).all()):
                fails.append('bss_eval_sources changes when all signals are scaled by 2**-40: SDR %s vs %s' % (sdr.tolist(), sdr_t.tolist()))
            # scale invariance
            c = np.array([-3.0, 0.5, 7.0][:nsrc])[:, None]
            sdr2, sir2, sar2, perm2 = S.bss_eval_sources(ref, est * c)
            n += 1
            if not (np.allclose(sdr, sdr2, atol=1e-6) and np.allclose(sir, sir2, atol=1e-6) and np.allclose(sar, sar2, atol=1e-6) and (perm == perm2).all()):
                fails.append('bss_eval_sources is not invariant to scaling the estimates (nsrc=%d)' % nsrc)
            # the images variant: SIR, SAR and the permutation are gain invariant (SDR / ISR of the images variant measure the gain
            # mismatch by construction: recorded finding KF-bss-images-gain, the true image is the reference itself, not its projection)
            if nsrc == 2:
                i0 = S.bss_eval_images(ref, est)
                i1 = S.bss_eval_images(ref, est * c)
                n += 1
                if not (np.allclose(i0[2], i1[2], atol=1e-6) and np.allclose(i0[3], i1[3], atol=1e-6) and (i0[4] == i1[4]).all()):
                    fails.append('bss_eval_images SIR / SAR / perm are not invariant to scaling the estimates: %s vs %s' % ([x.tolist() for x in i0[2:]], [x.tolist() for x in i1[2:]]))
            # reordering the estimates permutes the result
            order = rs.permutation(nsrc)
            sdr3, sir3, sar3, perm3 = S.bss_eval_sources(ref, est[order])
            n += 1
            if not (np.allclose(sdr, sdr3, atol=1e-6) and (order[perm3] == perm).all()):
                fails.append('bss_eval_sources does not follow a reordering of the estimates (nsrc=%d)' % nsrc)
            # perfect estimate
            sdrp, sirp, sarp, permp = S.bss_eval_sources(ref, ref.copy())
            n += 1
            if permp.tolist() != list(range(nsrc)) or not (sdrp > 100).all():
                fails.append('perfect estimate: perm %s, SDR %s' % (permp.tolist(), sdrp.tolist()))
            # framewise consistency incl. a silent window
            win, hop = T // 2, T // 2
            sil = ref.copy()
            sil[0, :win] = 0.0
            for fw, plain, k_out in ((S.bss_eval_sources_framewise, S.bss_eval_sources, 4), (S.bss_eval_images_framewise, S.bss_eval_images, 5)):
                for cp in (False, True):
                    out = fw(sil, est, window=win, hop=hop, compute_permutation=cp)
                    n += 1
                    if len(out) != k_out:
                        fails.append('%s returns %d results' % (fw.__name__, len(out)))
                        continue
                    for m in out:
                        if not np.isnan(np.asarray(m)[:, 0]).all():
                            fails.append('%s: window with a silent source is not NaN in every metric (compute_permutation=%s)' % (fw.__name__, cp))
                            break
                    second = plain(sil[:, hop:hop + win], est[:, hop:hop + win], cp)
                    for m, x in zip(out, second):
                        if not np.allclose(np.asarray(m)[:, 1], np.asarray(x).reshape(-1), atol=1e-9, equal_nan=True):
                            fails.append('%s: window 1 differs from %s on that window' % (fw.__name__, plain.__name__))
                            break
        # multichannel images with a hard-panned estimate (one channel of one source exactly zero): a source is silent only when ALL its
        # channels are; the input is valid, scores are finite, and every window equals the non-framewise result on that window
        Tm = 1400
        refm = rs.randn(2, Tm, 2)
        estm = refm + 0.1 * rs.randn(2, Tm, 2)
        estm[0, :, 1] = 0.0
        refm2 = refm.copy()
        refm2[1, Tm // 2:, 0] = 0.0
        for rr_, ee_, what in ((refm, estm, 'estimate'), (refm2, estm, 'reference window')):
            n += 1
            try:
                S.validate(rr_, ee_)
                full = S.bss_eval_images(rr_, ee_)
                if not all(np.isfinite(np.asarray(x_)).all() for x_ in full[:4]):
                    fails.append('bss_eval_images is not finite for a hard-panned %s (no source is silent): %s' % (what, [np.asarray(x_).tolist() for x_ in full[:4]]))
                outm = S.bss_eval_images_framewise(rr_, ee_, window=Tm // 2, hop=Tm // 2)
                for w_ in (0, 1):
                    pw = S.bss_eval_images(rr_[:, w_ * (Tm // 2):(w_ + 1) * (Tm // 2)], ee_[:, w_ * (Tm // 2):(w_ + 1) * (Tm // 2)])
                    for m, x in zip(outm, pw):
                        if not np.allclose(np.asarray(m)[:, w_], np.asarray(x).reshape(-1), atol=1e-9, equal_nan=False):
                            fails.append('bss_eval_images_framewise: window %d differs from bss_eval_images on that window for a hard-panned %s: %s vs %s'
                                         % (w_, what, np.asarray(m)[:, w_].tolist(), np.asarray(x).reshape(-1).tolist()))
                            break
            except Exception as ex:
                fails.append('hard-panned %s (valid multichannel input) raised %s: %s' % (what, type(ex).__name__, str(ex)[:100]))
        # a hard-panned reference (singular Gram matrix: the least-squares fallback) is still separated perfectly by a perfect estimate, and the
        # permutation follows a reordering of the estimates
        refp = rs.randn(2, Tm, 2)
        refp[0, :, 0] = 0.0
        for order_, wantp_ in (([0, 1], [0, 1]), ([1, 0], [1, 0])):
            n += 1
            try:
                op_ = S.bss_eval_images(refp, refp[order_].copy())
                if np.asarray(op_[4]).tolist() != wantp_ or not (np.asarray(op_[0]) > 100).all() or not (np.asarray(op_[2]) > 100).all():
                    fails.append('perfect estimate of a hard-panned reference (estimates in order %s): perm %s, SDR %s, SIR %s' % (
                        order_, np.asarray(op_[4]).tolist(), np.asarray(op_[0]).tolist(), np.asarray(op_[2]).tolist()))
            except Exception as ex:
                fails.append('perfect estimate of a hard-panned reference raised %s: %s' % (type(ex).__name__, str(ex)[:100]))
        # a source whose samples sum to exactly zero (integer-valued, antisymmetric) is not silent: valid input, no NaN window
        xs_ = np.round(rs.randn(Tm // 2) * 100)
        srcz = rs.randn(2, Tm)
        srcz[0] = np.concatenate([xs_, -xs_])
        estz = srcz[::-1] * 0.5 + 0.1 * rs.randn(2, Tm)
        n += 1
        try:
            S.validate(srcz, estz)
            oz_ = S.bss_eval_sources_framewise(srcz, estz, window=Tm, hop=Tm)
            if any(np.isnan(np.asarray(m_)).any() for m_ in oz_[:3]):
                fails.append('bss_eval_sources_framewise gives NaN although no source is silent (one source sums to exactly 0): %s' % [np.asarray(m_).tolist() for m_ in oz_[:1]])
        except Exception as ex:
            fails.append('a source summing to exactly zero (not silent) raised %s: %s' % (type(ex).__name__, str(ex)[:100]))
        # integer-typed (PCM) input: same scores as the same values given as floats, components still sum to the estimate
        Ti = 1300
        refi = (rs.randn(2, Ti) * 3000).astype(np.int16)
        refi[0, 5] = -32768
        esti = (refi[::-1].astype(float) * 0.9 + rs.randn(2, Ti) * 200).astype(np.int16)
        a_i = S.bss_eval_sources(refi, esti)
        a_f = S.bss_eval_sources(refi.astype(float), esti.astype(float))
        n += 1
        if not all(np.allclose(np.asarray(x_), np.asarray(y_), atol=1e-6) for x_, y_ in zip(a_i, a_f)):
            fails.append('bss_eval_sources on int16 input differs from the same values as floats: SDR %s vs %s' % (np.asarray(a_i[0]).tolist(), np.asarray(a_f[0]).tolist()))
        # the images variant on int16 input: same scores as the same values given as floats (no integer overflow in the energy sums)
        im_i = S.bss_eval_images(refi, esti)
        im_f = S.bss_eval_images(refi.astype(float), esti.astype(float))
        n += 1
        if not all(np.allclose(np.asarray(x_), np.asarray(y_), atol=1e-6, equal_nan=False) for x_, y_ in zip(im_i, im_f)):
            fails.append('bss_eval_images on int16 input differs from the same values as floats: SDR %s vs %s, ISR %s vs %s' % (
                np.asarray(im_i[0]).tolist(), np.asarray(im_f[0]).tolist(), np.asarray(im_i[1]).tolist(), np.asarray(im_f[1]).tolist()))
        parts_i = S._bss_decomp_mtifilt(refi, esti[0], 0, 512)
        if not np.allclose(sum(parts_i)[:Ti], esti[0], atol=1e-6):
            fails.append('_bss_decomp_mtifilt components do not sum to the estimate for int16 input')
        # fewer than two windows (window longer than the signal): the framewise variants return the non-framewise result with the SAME
        # compute_permutation setting, also when the estimates are in swapped order
        T2 = 1400
        ref2 = rs.randn(2, T2)
        est2 = ref2[::-1] + 0.1 * rs.randn(2, T2)
        for fw, plain, k_out in ((S.bss_eval_sources_framewise, S.bss_eval_sources, 4), (S.bss_eval_images_framewise, S.bss_eval_images, 5)):
            for cp in (False, True):
                out = fw(ref2, est2, window=4 * T2, hop=4 * T2, compute_permutation=cp)
                want = plain(ref2, est2, cp)
                n += 1
                if not all(np.allclose(np.asarray(a_).reshape(-1), np.asarray(b_).reshape(-1), atol=1e-9, equal_nan=True) for a_, b_ in zip(out, want)):
                    fails.append('%s with a single window (compute_permutation=%s) differs from %s: perm %s vs %s' % (
                        fw.__name__, cp, plain.__name__, np.asarray(out[-1]).reshape(-1).tolist(), np.asarray(want[-1]).reshape(-1).tolist()))
        for f, k_out in ((S.bss_eval_sources, 4), (S.bss_eval_sources_framewise, 4), (S.bss_eval_images, 5), (S.bss_eval_images_framewise, 5)):
            out = f(np.zeros((0, 0)), np.zeros((0, 0)))
            n += 1
            if len(out) != k_out:
                fails.append('%s on empty input returns %d results, documented %d' % (f.__name__, len(out), k_out))
        # evaluate passes window / hop / compute_permutation on
        T = 2200
        ref = rs.randn(2, T)
        est = ref[::-1] + 0.1 * rs.randn(2, T)
        a = S.evaluate(ref, est)
        b = S.evaluate(ref, est, window=1100, hop=550)
        n += 1
        if np.shape(b['Sources Frames - Source to Distortion']) == np.shape(a['Sources Frames - Source to Distortion']):
            fails.append('separation.evaluate ignores window / hop')
    return n, fails


def perm_obligations():
    """the index expression that scores a candidate permutation is the one that selects the returned values"""
    obs = []
    mod = frontend.module('separation')
    for fname in ('bss_eval_sources', 'bss_eval_images'):
        fd = mod.functions.get(fname)
        if fd is None:
            continue
        score_idx, select_idx, loopvar, best = None, None, None, None
        for n in ast.walk(fd):
            if isinstance(n, ast.For) and isinstance(n.iter, ast.Call) and frontend.dotted(n.iter.func) == 'enumerate' \
                    and isinstance(n.target, ast.Tuple) and len(n.target.elts) == 2:
                for a in ast.walk(n):
                    if isinstance(a, ast.Call) and frontend.dotted(a.func) == 'np.mean' and a.args and isinstance(a.args[0], ast.Subscript) \
                            and isinstance(a.args[0].value, ast.Name) and a.args[0].value.id == 'sir':
                        score_idx = ast.unparse(a.args[0].slice)
                        loopvar = n.target.elts[1].id
            if isinstance(n, ast.Assign) and isinstance(n.targets[0], ast.Name) and n.targets[0].id == 'idx' and isinstance(n.value, ast.Tuple):
                select_idx = ast.unparse(n.value)
            if isinstance(n, ast.Assign) and isinstance(n.targets[0], ast.Name) and n.targets[0].id == 'popt' and isinstance(n.value, ast.Subscript):
                best = ast.unparse(n.value)
        if score_idx is None or select_idx is None:
            verdict, note = 'out-of-subset', 'permutation search idiom not recognised in %s' % fname
        else:
            want = '(%s)' % score_idx.strip('()').replace(loopvar, 'popt') if not score_idx.startswith('(') else score_idx.replace(loopvar, 'popt')
            ok = select_idx.replace(' ', '') == want.replace(' ', '') and best is not None and 'argmax(mean_sir)' in best.replace('np.', '')
            verdict = 'discharged' if ok else 'refuted'
            note = '' if ok else 'candidates are scored with sir[%s] but results are selected with %s (best = %s)' % (score_idx, select_idx, best)
        obs.append(dict(id='separation.%s#post:perm-maximises-mean-sir' % fname, kind='post', label='perm-maximises-mean-sir', props=['C19'],
                        line=fd.lineno, note=note, expect='unsat', verdict=verdict, backend='ast-structural', time=0.0,
                        model=None if verdict == 'discharged' else dict(function=fname, note=note),
                        goal='popt = argmax over all permutations p of mean(sir[p, arange]) and the returned rows are [popt, arange]', native=None, finding=None))
    return obs


def run(prop, tier, seed, known):
    results = []
    t0 = time.time()
    if prop == 'C15':
        # for the purity property only the initialisation obligations matter (no result depends on uninitialised memory)
        return dict(results=[dict(kind='engine', engine='sepstruct', name='np.empty buffers', status='ok', detail='', paths=0, obligations=init_obligations(tuple(frontend.MODULES)),
                                  inlined=[], used_contracts=[], gen_time=0, wall=0, lib_used=[], props=['C15'])], bounded=[])
    obs = [o for o in bundles.arity_obligations() if 'C19' in o['props']]
    results.append(dict(kind='engine', engine='sepstruct', name='separation result arity', status='ok', detail='', paths=0, obligations=obs, inlined=[],
                        used_contracts=[], gen_time=0, wall=0, lib_used=[], props=['C19']))
    results.append(dict(kind='engine', engine='sepstruct', name='separation np.empty buffers', status='ok', detail='', paths=0, obligations=init_obligations(),
                        inlined=[], used_contracts=[], gen_time=0, wall=0, lib_used=[], props=['C19']))
    results.append(dict(kind='engine', engine='sepstruct', name='separation permutation search', status='ok', detail='', paths=0,
                        obligations=perm_obligations(), inlined=[], used_contracts=[], gen_time=0, wall=0, lib_used=[], props=['C19']))
    t1 = time.time()
    try:
        n, fails = native_harness(tier, seed)
    except Exception as ex:
        import traceback
        n, fails = 0, ['harness error: %s' % traceback.format_exc()[-400:]]
    bounded = [dict(name='BSS-eval native harness: decomposition sum, scale invariance, permutation optimality and equivariance, perfect estimate, framewise = per-window, NaN on silent windows, arity on empty input, evaluate() keyword pass-through',
                    bound='nsrc in 1..3, one random mixture each (signal length 2*nsrc*512+200), both framewise variants, compute_permutation in {T,F}',
                    cases=n, exhaustive=False, failures=fails[:4], wall_s=round(time.time() - t1, 2))]
    for o in [o for r in results for o in r['obligations'] if o['verdict'] == 'refuted']:
        o['native'] = dict(confirmed=bool(fails), findings=fails[:3])
    if fails and not any(o['verdict'] == 'refuted' for r in results for o in r['obligations']):
        results.append(dict(kind='engine', engine='sepstruct', name='BSS-eval harness', status='ok', detail='', paths=0, inlined=[], used_contracts=[],
                            gen_time=0, wall=0, lib_used=[], props=['C19'],
                            obligations=[dict(id='separation#bounded:harness', kind='bounded', label='harness', props=['C19'], line=None, note=fails[0][:300],
                                              expect='unsat', verdict='refuted', backend='native', time=0.0, model=dict(example=fails[0]),
                                              goal='BSS-eval structural properties hold natively', native=dict(confirmed=True, example=fails[0]), finding=None)]))
    return dict(results=results, bounded=bounded)


def replay(rec):
    n, fails = native_harness('quick', 0)
    return bool(fails), 'BSS-eval harness: %s' % (fails[:2] or 'no failure over %d cases' % n)
