"""Induction-schema proofs of the SUM lemma library (pyvc/sums.py): base and step VCs over arbitrary arrays, discharged every run."""
import time

import z3

from .. import sums


def run(prop, tier, seed, known):
    obs = []
    for name, hyps, goal in sums.library_obligations():
        s = z3.Solver()
        s.set('timeout', 10000)
        s.add(*hyps, z3.Not(goal))
        t0 = time.time()
        r = s.check()
        verdict = 'discharged' if r == z3.unsat else ('refuted' if r == z3.sat else 'unknown')
        obs.append(dict(id='lemma-library#induction:%s' % name, kind='lemma', label=name, props=[prop], line=None, note='', expect='unsat', verdict=verdict,
                        backend='z3', time=round(time.time() - t0, 4), model=None, goal=str(goal)[:200], native=None, finding=None))
    return dict(results=[dict(kind='engine', engine='sumlib', name='SUM lemma library', status='ok', detail='', paths=0, obligations=obs, inlined=[],
                              used_contracts=[], gen_time=0, wall=0, lib_used=[], props=[prop])], bounded=[])
