"""Bounded metamorphic stand-in for the task metrics that are not under contract (beat Cemgil/Goto/P-score/continuity/information
gain, pattern discovery, transcription velocity, alignment PCS): ranges (C01), perfect estimate (C02), swap (C06), nested and
monotone criteria (C07), time shift / permutation (C08), valid inputs never raise (C14).  Never counted as proved."""
import random
import time
import warnings


def run(prop, tier, seed, known):
    from .. import native
    native.import_repo()
    import numpy as np
    from mir_eval import beat, pattern, transcription_velocity as TV, transcription as T, alignment, melody, onset, multipitch
    rng = random.Random(seed)
    n = 0

    class Fails(list):
        """keeps only the relations that belong to the property being checked"""
        RULES = (('its definition', ('C04',)), ('octave', ('C09',)), ('raised', ('C14',)), ('accepted', ('C14',)), ('out of', ('C01',)), ('not binary', ('C01',)), ('nested', ('C07',)), ('above without', ('C07',)),
                 ('perfect', ('C02',)), ('shift', ('C08',)), ('reordering', ('C08',)), ('symmetric', ('C06',)), ('swap', ('C06',)))

        def append(self, msg):
            for key, props in self.RULES:
                if key in msg:
                    if prop in props:
                        list.append(self, msg)
                    return
            list.append(self, msg)
    fails = Fails()
    t0 = time.time()
    N = 60 if tier == 'quick' else 600

    def close(a, b, tol=1e-9):
        a, b = np.asarray(a, dtype=float), np.asarray(b, dtype=float)
        return a.shape == b.shape and bool(np.allclose(a, b, atol=tol, rtol=tol, equal_nan=True))

    def guard(desc, f):
        nonlocal n
        n += 1
        try:
            return f()
        except Exception as ex:
            fails.append('%s raised %s: %s' % (desc, type(ex).__name__, str(ex)[:100]))
            return None
    with warnings.catch_warnings():
        warnings.simplefilter('ignore')
        for it in range(N):
            # ---------------------------------------------------------------- beat
            k = rng.randint(6, 12)
            period = rng.choice([0.5, 0.75, 1.0, 0.25])      # binary-exact periods only: the 10 ms quantisation of P-score makes other lattices shift-sensitive by rounding
            start = rng.choice([5.0, 5.25, 6.0])
            ref = np.array([start + i * period for i in range(k)])
            kind = rng.choice(['same', 'shifted', 'double', 'half', 'jitter', 'few', 'slip', 'sparse'])
            if kind == 'same':
                est = ref.copy()
            elif kind == 'shifted':
                est = ref + rng.choice([0.03125, 0.125, 0.25])
            elif kind == 'double':
                est = np.array([start + i * period / 2 for i in range(2 * k - 1)])
            elif kind == 'half':
                est = ref[::2].copy()
            elif kind == 'jitter':
                est = np.sort(ref + np.array([rng.choice([-0.0625, 0, 0.0625]) for _ in ref]))
                if est.min() < 5.0:          # the shift invariance is claimed for beats at or after the trim time only
                    est = est + 0.0625
            elif kind == 'sparse':
                # a tight group inside the reference span and one beat far behind it: the estimate's own inter-beat intervals say nothing about
                # the reference's (beats within each sequence stay further apart than twice the P-score window)
                a = rng.randint(1, k - 3)
                est = np.array([ref[a], ref[a] + 0.75 * period, ref[-1] + 20 * period])
            elif kind == 'slip':
                # follows the beat, then slips to the off-beat and drops a beat now and then
                a = rng.randint(2, max(2, k - 3))
                est = np.array(list(ref[:a]) + [t + period / 2 for j, t in enumerate(ref[a:]) if j % 3 != 1])
            else:
                est = ref[:rng.randint(0, 2)].copy()
            ev = guard('beat.evaluate(%s)' % kind, lambda: beat.evaluate(ref, est))
            if ev is not None:
                for key, v in ev.items():
                    hi = 1 + 1e-9
                    if not (isinstance(v, (float, int, np.floating, np.integer)) and np.isfinite(v) and -1e-9 <= v <= hi):
                        fails.append('beat.evaluate[%r] = %r out of [0, 1] (%s, period %s)' % (key, v, kind, period))
                if ev['Goto'] not in (0.0, 1.0):
                    fails.append('Goto is not binary: %r' % ev['Goto'])
                if ev['Cemgil'] > ev['Cemgil Best Metric Level'] + 1e-12 or ev['Correct Metric Level Continuous'] > ev['Any Metric Level Continuous'] + 1e-12 \
                        or ev['Correct Metric Level Total'] > ev['Any Metric Level Total'] + 1e-12 \
                        or ev['Correct Metric Level Continuous'] > ev['Correct Metric Level Total'] + 1e-12 \
                        or ev['Any Metric Level Continuous'] > ev['Any Metric Level Total'] + 1e-12:
                    fails.append('nested beat criteria out of order: %s' % dict(ev))
                if kind == 'same':
                    want = {'F-measure': 1.0, 'Cemgil': 1.0, 'Cemgil Best Metric Level': 1.0, 'Goto': 1.0, 'P-score': 1.0,
                            'Correct Metric Level Continuous': 1.0, 'Correct Metric Level Total': 1.0, 'Any Metric Level Continuous': 1.0,
                            'Any Metric Level Total': 1.0}
                    for key, w in want.items():
                        if abs(ev[key] - w) > 1e-9:
                            fails.append('perfect beat estimate: %s = %r' % (key, ev[key]))
                    # the same through evaluate() with a trim time other than the default (both sides are trimmed alike)
                    for mbt_, sh_ in ((5.5, 0.0), (6.5, 0.0), (8.0, 0.0), (0.0, 3.0), (1.0, 3.0)):
                        r_ = ref - sh_
                        if (r_ >= mbt_).sum() < 5:         # non-degenerate: at least 5 beats remain (Goto is 0 by construction below that)
                            continue
                        ev3 = guard('beat.evaluate(x, x, min_beat_time=%s)' % mbt_, lambda: beat.evaluate(r_, r_.copy(), min_beat_time=mbt_))
                        if ev3 is not None:
                            for key, w in want.items():
                                if abs(ev3[key] - w) > 1e-9:
                                    fails.append('perfect beat estimate with min_beat_time=%s: %s = %r (beats from %s, period %s)' % (mbt_, key, ev3[key], r_[0], period))
                                    break
                # C08: common offset (binary-exact), all beats stay >= the trim time
                d = rng.choice([0.125, 1.0, 2.5, 16.0])
                ev2 = guard('beat.evaluate shifted', lambda: beat.evaluate(ref + d, est + d))
                if ev2 is not None:
                    for key in ev:
                        if key != 'Information gain' and abs(ev[key] - ev2[key]) > 1e-9:
                            fails.append('beat %s changes under a common time shift of %s: %r vs %r (%s, start %s)' % (key, d, ev[key], ev2[key], kind, start))
                            break
                # C08: P-score quantises beat times on a 10 ms grid laid from the first beat: offsets that are not multiples of 10 ms (but exact
                # in binary, like every beat time here) still change nothing, also when the estimate sits near the edge of the correlation window
                lag_ = rng.choice([13, 12, 14, 6, 19]) / 128.0
                pe_ = ref + lag_
                p0_ = guard('beat.p_score', lambda: beat.p_score(ref, pe_))
                for dd_ in (1 / 128.0, 1 / 64.0, 3 / 128.0, 0.125 + 1 / 128.0):
                    p1_ = guard('beat.p_score shifted', lambda: beat.p_score(ref + dd_, pe_ + dd_))
                    if p0_ is not None and p1_ is not None and abs(p0_ - p1_) > 1e-9:
                        fails.append('beat P-score changes under a common time shift of %s: %r vs %r (period %s, estimate %s s behind the reference)' % (dd_, p0_, p1_, period, lag_))
                        break
                # C04: continuity (CMLc, CMLt, AMLc, AMLt) per Davies et al.: an estimated beat is correct when its nearest annotation is still
                # unclaimed, lies within phase_thr inter-annotation intervals and the local inter-beat interval deviates by less than period_thr;
                # intervals are taken backwards, forwards for the first beat or the first annotation; scores are the longest correct run / the
                # number of correct beats over max(#annotations, #beats), for the annotation as given and the best of its five metrical variations
                def cont_one(ann, es, pth, qth):
                    used, okl = set(), []
                    for m_, g_ in enumerate(es):
                        dist_ = [abs(g_ - a_) for a_ in ann]
                        j_ = dist_.index(min(dist_))
                        ok_ = False
                        if j_ not in used:
                            if m_ == 0 or j_ == 0:
                                aiv = ann[j_ + 1] - ann[j_] if j_ + 1 < len(ann) else ann[j_] - ann[j_ - 1]
                                eiv = es[m_ + 1] - es[m_] if m_ + 1 < len(es) else es[m_] - es[m_ - 1]
                            else:
                                aiv, eiv = ann[j_] - ann[j_ - 1], es[m_] - es[m_ - 1]
                            ok_ = dist_[j_] / aiv < pth and abs(1.0 - eiv / aiv) < qth
                            if ok_:
                                used.add(j_)
                        okl.append(ok_)
                    longest = run_ = 0
                    for ok_ in okl:
                        run_ = run_ + 1 if ok_ else 0
                        longest = max(longest, run_)
                    den_ = float(max(len(ann), len(es)))
                    return longest / den_, sum(okl) / den_
                for es_ in (est.tolist(), [ref[0] - period] + ref.tolist(), [ref[0] - 2 * period, ref[0] - period] + (ref + 0.03125).tolist()):
                    if len(es_) < 2 or len(ref) < 4 or len(set(es_)) != len(es_):
                        continue
                    pth_, qth_ = rng.choice([(0.175, 0.175), (0.25, 0.125)])
                    gc_ = guard('beat.continuity', lambda: beat.continuity(ref, np.array(es_), continuity_phase_threshold=pth_, continuity_period_threshold=qth_))
                    if gc_ is not None:
                        rl0_ = ref.tolist()
                        mids0_ = [(a_ + b_) / 2 for a_, b_ in zip(rl0_, rl0_[1:])]
                        vars_ = [rl0_, mids0_, sorted(rl0_ + mids0_), rl0_[::2], rl0_[1::2]]
                        res_ = [cont_one(v_, es_, pth_, qth_) for v_ in vars_]
                        wc_ = (res_[0][0], res_[0][1], max(r_[0] for r_ in res_), max(r_[1] for r_ in res_))
                        if any(abs(float(a_) - b_) > 1e-9 for a_, b_ in zip(gc_, wc_)):
                            fails.append('beat.continuity(thresholds %s, %s) = %s, its definition gives %s (reference from %s every %s, estimate %s)'
                                         % (pth_, qth_, tuple(float(x_) for x_ in gc_), wc_, ref[0], period, es_))
                # C07: a wider P-score window (p_score_threshold) never lowers the P-score, also for a sparse reference
                for rr_, ee_ in ((ref, est), (ref[[0, -1]], ref[[0, -1]].copy()), (ref[[0, len(ref) // 2, -1]], ref[[0, len(ref) // 2, -1]] + 0.0625)):
                    if len(rr_) < 2 or len(ee_) < 2:
                        continue
                    prev_p = None
                    for thr_ in (0.1, 0.2, 0.4, 0.6, 0.8, 1.0):
                        pv_ = guard('beat.p_score(p_score_threshold=%s)' % thr_, lambda: beat.p_score(rr_, ee_, p_score_threshold=thr_))
                        if pv_ is None:
                            break
                        if prev_p is not None and pv_ < prev_p - 1e-12:
                            fails.append('nested: a wider P-score window lowers the P-score: %r at the narrower threshold, %r at %s (reference %s, estimate %s)'
                                         % (prev_p, pv_, thr_, rr_.tolist(), np.asarray(ee_).tolist()))
                            break
                        prev_p = pv_
                # C04: Cemgil accuracy per its definition (Gaussian error of the closest estimate to every reference beat, normalised by the mean
                # number of beats), and its best value over the five metrical variations built here independently
                import math
                sig = rng.choice([0.04, 0.02, 0.1])
                def cem(rb, eb):
                    if len(rb) == 0 or len(eb) == 0:
                        return 0.0
                    return sum(max(math.exp(-((e - b) ** 2) / (2 * sig ** 2)) for e in eb) for b in rb) / (0.5 * (len(eb) + len(rb)))
                rl_, el_ = ref.tolist(), est.tolist()
                mids = [(a + b) / 2 for a, b in zip(rl_, rl_[1:])]
                dbl = sorted(rl_ + mids)
                variations = [rl_, mids, dbl, rl_[::2], rl_[1::2]]
                if len(el_):
                    got_c = guard('beat.cemgil', lambda: beat.cemgil(ref, est, cemgil_sigma=sig))
                    if got_c is not None:
                        want_c = (cem(rl_, el_), max(cem(v, el_) for v in variations))
                        if abs(got_c[0] - want_c[0]) > 1e-9 or abs(got_c[1] - want_c[1]) > 1e-9:
                            fails.append('beat.cemgil(sigma=%s) = %s, its definition gives %s (%s, period %s)' % (sig, tuple(float(x) for x in got_c), want_c, kind, period))
                # C04: information gain per its definition, on exact lattices where both sequences span the same stretch of time: every
                # beat's error relative to the nearest beat of the other sequence, as a fraction of the inter-beat interval on that side,
                # in (-1/2, 1/2]; `bins` uniform bins; (log2(bins) - larger of the two entropies) / log2(bins)
                def entropy_(rb, qb, nb):
                    errs = []
                    for x in qb:
                        j = min(range(len(rb)), key=lambda t: (abs(x - rb[t]), t))
                        ae = x - rb[j]
                        if j == len(rb) - 1:
                            iv_ = rb[-1] - rb[-2]
                        elif ae < 0:
                            iv_ = rb[j] - rb[j - 1]
                        else:
                            iv_ = rb[j + 1] - rb[j]
                        er = ae / iv_
                        if er <= -0.5:
                            er += 1.0
                        errs.append(er)
                    counts = [0] * nb
                    for er in errs:
                        k_ = min(int(math.floor((er + 0.5) * nb)), nb - 1)
                        counts[k_] += 1
                    tot = float(sum(counts))
                    return -sum((c / tot) * math.log2(c / tot) for c in counts if c)
                gN = rng.randint(6, 12)
                gref = [float(t) for t in range(gN)]
                gest = sorted(set(gref[:1] + gref[-1:] + [t for t in gref[1:-1] if rng.random() < 0.7]
                                  + [rng.randint(0, gN - 2) + rng.choice([0.5, 0.5, 0.25, 65 / 128.0, 63 / 128.0, 0.125, 0.75]) for _ in range(rng.randint(1, 4))]))
                nb_ = rng.choice([41, 21, 11, 40, 4, 2])
                ig = guard('beat.information_gain', lambda: beat.information_gain(np.array(gref) + 6.0, np.array(gest) + 6.0, bins=nb_))
                if ig is not None and not (np.isfinite(ig) and -1e-9 <= ig <= 1 + 1e-9):
                    fails.append('beat.information_gain(bins=%d) = %r out of [0, 1] (ref 0..%d, est %s)' % (nb_, float(ig), gN - 1, gest))
                if ig is not None and len(gest) > 1:
                    want_ig = (math.log2(nb_) - max(entropy_(gref, gest, nb_), entropy_(gest, gref, nb_))) / math.log2(nb_)
                    if abs(ig - want_ig) > 1e-9:
                        fails.append('beat.information_gain(bins=%d) = %r, its definition gives %r (ref 0..%d, est %s)' % (nb_, float(ig), want_ig, gN - 1, gest))
                f1 = beat.f_measure(ref, est)
                f2 = beat.f_measure(est, ref) if len(est) else f1
                if abs(f1 - f2) > 1e-12:
                    fails.append('beat.f_measure is not symmetric: %r vs %r' % (f1, f2))
            # ---------------------------------------------------------------- pattern discovery
            def pat():
                occs = []
                base = [(float(rng.randint(0, 8)), float(rng.randint(55, 72))) for _ in range(rng.randint(1, 4))]
                base = sorted(set(base))
                for o in range(rng.randint(1, 3)):
                    sh = float(rng.randint(0, 16))
                    occs.append([(t + sh, p) for t, p in base] if rng.random() < 0.7 else sorted({(float(rng.randint(0, 20)), float(rng.randint(55, 72))) for _ in range(rng.randint(1, 3))}))
                return occs
            rp = [pat() for _ in range(rng.randint(1, 3))]
            ep = [pat() for _ in range(rng.randint(1, 3))] if rng.random() < 0.7 else [list(map(list, p)) for p in rp]
            if rng.random() < 0.4:
                # estimated patterns that are near-copies of reference patterns (some notes replaced): similarities between the thresholds,
                # several estimated patterns relevant to one reference pattern and the other way round
                ep = []
                for p_ in rp:
                    for _rep in range(rng.randint(1, 2)):
                        ep.append([[tuple(x_) for x_ in occ_[:max(1, len(occ_) - rng.choice([0, 0, 1]))]] + [(t_ + 0.5, q_ + 13.0) for t_, q_ in occ_[max(1, len(occ_) - rng.choice([0, 1])):]]
                                   for occ_ in p_])
                rng.shuffle(ep)
            pv = guard('pattern.evaluate', lambda: pattern.evaluate(rp, ep))
            # C04: establishment and occurrence scores per their definition (Collins): cardinality score between occurrences; establishment matrix =
            # best occurrence pair per pattern pair; occurrence scores over the pattern pairs whose best occurrence pair reaches the threshold,
            # each pattern counted once per relevant pair it takes part in
            def sim_(a_, b_):
                return len(set(map(tuple, a_)) & set(map(tuple, b_))) / float(max(len(a_), len(b_)))
            smat_ = {(i_, j_): [[sim_(a_, b_) for b_ in ep[j_]] for a_ in rp[i_]] for i_ in range(len(rp)) for j_ in range(len(ep))}
            S_ = [[max(max(r_) for r_ in smat_[(i_, j_)]) for j_ in range(len(ep))] for i_ in range(len(rp))]
            f1_ = lambda p_, r_: 0.0 if p_ == 0 and r_ == 0 else 2 * p_ * r_ / (p_ + r_)
            pe_ = sum(max(S_[i_][j_] for i_ in range(len(rp))) for j_ in range(len(ep))) / len(ep)
            re_ = sum(max(S_[i_][j_] for j_ in range(len(ep))) for i_ in range(len(rp))) / len(rp)
            ge_ = guard('pattern.establishment_FPR', lambda: pattern.establishment_FPR(rp, ep))
            if ge_ is not None and any(abs(float(a_) - b_) > 1e-9 for a_, b_ in zip(ge_, (f1_(pe_, re_), pe_, re_))):
                fails.append('pattern.establishment_FPR = %s, its definition gives %s (ref %s, est %s)' % (tuple(float(x_) for x_ in ge_), (f1_(pe_, re_), pe_, re_), rp, ep))
            for thr_ in (0.5, 0.75):
                rel_ = [(i_, j_) for i_ in range(len(rp)) for j_ in range(len(ep)) if S_[i_][j_] >= thr_]
                if rel_:
                    op_ = {k_: sum(max(row_[c_] for row_ in smat_[k_]) for c_ in range(len(smat_[k_][0]))) / len(smat_[k_][0]) for k_ in rel_}
                    or_ = {k_: sum(max(row_) for row_ in smat_[k_]) / len(smat_[k_]) for k_ in rel_}
                    rows_, cols_ = [i_ for i_, _ in rel_], [j_ for _, j_ in rel_]
                    po_ = sum(max(op_.get((i_, j_), 0.0) for i_ in rows_) for j_ in cols_) / len(cols_)
                    ro_ = sum(max(or_.get((i_, j_), 0.0) for j_ in cols_) for i_ in rows_) / len(rows_)
                else:
                    po_ = ro_ = 0.0
                go_ = guard('pattern.occurrence_FPR', lambda: pattern.occurrence_FPR(rp, ep, thres=thr_))
                if go_ is not None and any(abs(float(a_) - b_) > 1e-9 for a_, b_ in zip(go_, (f1_(po_, ro_), po_, ro_))):
                    fails.append('pattern.occurrence_FPR(thres=%s) = %s, its definition gives %s (ref %s, est %s)' % (thr_, tuple(float(x_) for x_ in go_), (f1_(po_, ro_), po_, ro_), rp, ep))
            if pv is not None:
                for key, v in pv.items():
                    if not (isinstance(v, (float, int, np.floating, np.integer)) and np.isfinite(v) and v >= -1e-9) or (key not in ('P', 'F') and v > 1 + 1e-9):
                        fails.append('pattern.evaluate[%r] = %r out of range' % (key, v))
                if ep == rp or [list(map(list, p)) for p in rp] == ep:
                    for key in ('F_est', 'P_est', 'R_est', 'F_occ.75', 'F_3', 'P_3', 'R_3', 'FFP', 'FFTP_est', 'F', 'P', 'R'):
                        if abs(pv[key] - 1.0) > 1e-9:
                            fails.append('perfect pattern estimate: %s = %r' % (key, pv[key]))
                    # every threshold / tolerance setting in range, the largest included: a copy is still perfect
                    for thr_ in (0.1, 0.5, 0.9, 1.0):
                        of_ = guard('pattern.occurrence_FPR(x, x, thres=%s)' % thr_, lambda: pattern.occurrence_FPR(rp, [list(map(list, p)) for p in rp], thres=thr_))
                        if of_ is not None and any(abs(v_ - 1.0) > 1e-9 for v_ in of_):
                            fails.append('perfect pattern estimate: occurrence_FPR(thres=%s) = %r' % (thr_, tuple(float(v_) for v_ in of_)))
                    ef_ = guard('pattern.establishment_FPR(x, x, thres=1.0)', lambda: pattern.establishment_FPR(rp, [list(map(list, p)) for p in rp], similarity_metric='cardinality_score'))
                    if ef_ is not None and any(abs(v_ - 1.0) > 1e-9 for v_ in ef_):
                        fails.append('perfect pattern estimate: establishment_FPR = %r' % (tuple(float(v_) for v_ in ef_),))
                # swap exchanges precision and recall of establishment / occurrence / three-layer
                sv = pattern.evaluate(ep, rp)
                for a, b in (('P_est', 'R_est'), ('P_occ.75', 'R_occ.75'), ('P_3', 'R_3')):
                    if abs(pv[a] - sv[b]) > 1e-9 or abs(pv[b] - sv[a]) > 1e-9:
                        fails.append('pattern swap: %s=%r vs %s=%r' % (a, pv[a], b, sv[b]))
                # standard (exact-match) scores with a user tolerance under which "matches" is not transitive: still independent of the reference order
                pa_ = [[(0.0, 60.0), (1.0, 62.0)]]
                pb_ = [[(0.0, 60.0), (1.5, 62.0)]]
                px_ = [[(0.0, 60.0), (1.25, 62.0)]]
                py_ = [[(0.0, 60.0), (1.75, 62.0)]]
                s1_ = guard('pattern.standard_FPR', lambda: pattern.standard_FPR([pa_, pb_], [px_, py_], tol=0.3))
                s2_ = guard('pattern.standard_FPR', lambda: pattern.standard_FPR([pb_, pa_], [px_, py_], tol=0.3))
                if s1_ is not None and s2_ is not None and any(abs(float(a_) - float(b_)) > 1e-9 for a_, b_ in zip(s1_, s2_)):
                    fails.append('pattern standard_FPR(tol=0.3) changes under reordering the reference patterns: %s vs %s' % (tuple(float(x_) for x_ in s1_), tuple(float(x_) for x_ in s2_)))
                # reference pattern order and a common time shift are immaterial
                rp2 = list(reversed(rp))
                sh = 3.0
                rps = [[[(t + sh, p) for t, p in occ] for occ in pt] for pt in rp]
                eps = [[[(t + sh, p) for t, p in occ] for occ in pt] for pt in ep]
                for other, what in ((pattern.evaluate(rp2, ep), 'reordering the reference patterns'), (pattern.evaluate(rps, eps), 'a common time shift')):
                    for key in ('F_est', 'P_est', 'R_est', 'F_occ.5', 'F_occ.75', 'F_3', 'P_3', 'R_3', 'F', 'P', 'R'):
                        if abs(pv[key] - other[key]) > 1e-9:
                            fails.append('pattern %s changes under %s: %r vs %r' % (key, what, pv[key], other[key]))
                            break
                # first-n scores: the order of the reference list is immaterial for every n (only the estimate is cut to its first n)
                for nn in (1, 2):
                    a1 = pattern.evaluate(rp, ep, n=nn)
                    a2 = pattern.evaluate(rp2, ep, n=nn)
                    for key in ('FFTP_est', 'FFP'):
                        if abs(a1[key] - a2[key]) > 1e-9:
                            fails.append('pattern %s (n=%d) changes under reordering the reference patterns: %r vs %r' % (key, nn, a1[key], a2[key]))
            # ---------------------------------------------------------------- transcription with velocities
            kk = rng.randint(1, 4)
            ri = np.array([[i * 1.0, i * 1.0 + 0.5] for i in range(kk)])
            rpit = np.array([440.0 * 2 ** (rng.randint(-12, 12) / 12.0) for _ in range(kk)])
            rv = np.array([float(rng.choice([64, 64, 20, 100])) for _ in range(kk)]) if rng.random() < 0.6 else np.full(kk, float(rng.choice([1, 64, 127])))
            tv = guard('transcription_velocity.evaluate(x, x)', lambda: TV.evaluate(ri, rpit, rv, ri.copy(), rpit.copy(), rv.copy()))
            if tv is not None:
                for key, v in tv.items():
                    if abs(v - 1.0) > 1e-9:
                        fails.append('transcription_velocity perfect estimate: %s = %r (velocities %s)' % (key, v, rv.tolist()))
                        break
            ei = ri + rng.choice([0.0, 0.02, 0.04])
            evv = np.clip(rv + np.array([rng.choice([-30, 0, 30]) for _ in range(kk)]), 1, 127)
            a = guard('transcription_velocity', lambda: TV.precision_recall_f1_overlap(ri, rpit, rv, ei, rpit, evv))
            b = guard('transcription', lambda: T.precision_recall_f1_overlap(ri, rpit, ei, rpit))
            if a is not None and b is not None and (a[0] > b[0] + 1e-12 or a[1] > b[1] + 1e-12):
                fails.append('with velocity scores above without velocity: %s vs %s' % (a, b))
            # MIDI velocities given as integers (int64 / uint8 arrays) are valid input and score like the same values as floats
            for dt_ in (np.int64, np.uint8):
                ai_ = guard('transcription_velocity.precision_recall_f1_overlap on %s velocities' % np.dtype(dt_).name,
                            lambda: TV.precision_recall_f1_overlap(ri, rpit, rv.astype(dt_), ei, rpit, evv.astype(dt_)))
                if ai_ is not None and a is not None and any(abs(float(x_) - float(y_)) > 1e-9 for x_, y_ in zip(ai_, a)):
                    fails.append('transcription_velocity on %s velocities %s, its definition gives %s on the same values as floats' % (np.dtype(dt_).name, tuple(float(x_) for x_ in ai_), tuple(float(x_) for x_ in a)))
            # ---------------------------------------------------------------- melody: octave, sign flip, common factor (C09)
            nf = rng.randint(2, 6)
            tt = np.arange(nf) * 0.125
            rf = np.array([rng.choice([0.0, 220.0, 330.0, 440.0 * 2 ** (rng.randint(-10, 10) / 12.0)]) for _ in range(nf)])
            dev = [rng.choice([-30, -10, 0, 10, 30, 60, 1190, 1210, -1190]) for _ in range(nf)]
            ef = np.array([0.0 if (f == 0 and rng.random() < 0.5) else (f if f else 220.0) * 2 ** (d / 1200.0) for f, d in zip(rf, dev)])
            m0 = guard('melody.evaluate', lambda: melody.evaluate(tt, rf, tt, ef))
            if m0 is not None:
                for kk_ in (-1, 1, 2):
                    m1 = melody.evaluate(tt, rf, tt, ef * 2.0 ** kk_)
                    if abs(m0['Raw Chroma Accuracy'] - m1['Raw Chroma Accuracy']) > 1e-9:
                        fails.append('octave shift of the estimate by %d octaves changes Raw Chroma Accuracy: %r vs %r (deviations %s cents)' % (kk_, m0['Raw Chroma Accuracy'], m1['Raw Chroma Accuracy'], dev))
                m2 = melody.evaluate(tt, rf, tt, -ef)
                if abs(m0['Raw Pitch Accuracy'] - m2['Raw Pitch Accuracy']) > 1e-9 or abs(m0['Raw Chroma Accuracy'] - m2['Raw Chroma Accuracy']) > 1e-9:
                    fails.append('octave/sign: negating the estimated frequencies changes raw pitch / raw chroma accuracy')
                m3 = melody.evaluate(tt, rf * 2.0, tt, ef * 2.0)
                if any(abs(m0[k_] - m3[k_]) > 1e-9 for k_ in m0):
                    fails.append('octave: multiplying reference and estimate by 2 changes melody scores: %s vs %s' % (dict(m0), dict(m3)))
                if m0['Raw Pitch Accuracy'] > m0['Raw Chroma Accuracy'] + 1e-12:
                    fails.append('nested: raw pitch above raw chroma accuracy')
                # the same ordering, and tolerance monotonicity, when the tolerance is passed through evaluate()
                prev_ = None
                for ct_ in (25.0, 45.0, 100.0, 200.0):
                    mt_ = guard('melody.evaluate(cent_tolerance=%s)' % ct_, lambda: melody.evaluate(tt, rf, tt, ef, cent_tolerance=ct_))
                    if mt_ is None:
                        break
                    if mt_['Raw Pitch Accuracy'] > mt_['Raw Chroma Accuracy'] + 1e-12:
                        fails.append('nested: raw pitch above raw chroma accuracy in evaluate(cent_tolerance=%s): %r > %r (deviations %s cents)'
                                     % (ct_, mt_['Raw Pitch Accuracy'], mt_['Raw Chroma Accuracy'], dev))
                    if prev_ is not None and any(mt_[k_] < prev_[k_] - 1e-12 for k_ in ('Raw Pitch Accuracy', 'Raw Chroma Accuracy', 'Overall Accuracy')):
                        fails.append('nested: a wider cent_tolerance lowers a melody score through evaluate(): %s then %s' % (dict(prev_), dict(mt_)))
                    prev_ = mt_
                # the estimate starts later than the reference (a frame at time 0 is padded in): negation still changes nothing
                lt_ = tt[1:] if len(tt) > 2 else tt
                le_ = ef[1:] if len(tt) > 2 else ef
                s0_ = guard('melody.evaluate (late start)', lambda: melody.evaluate(tt, rf, lt_, le_))
                s1_ = guard('melody.evaluate (late start, negated)', lambda: melody.evaluate(tt, rf, lt_, -le_))
                if s0_ is not None and s1_ is not None and (abs(s0_['Raw Pitch Accuracy'] - s1_['Raw Pitch Accuracy']) > 1e-9 or abs(s0_['Raw Chroma Accuracy'] - s1_['Raw Chroma Accuracy']) > 1e-9):
                    fails.append('octave/sign: negating the estimated frequencies changes raw pitch / raw chroma accuracy when the estimate starts after time 0: %s vs %s'
                                 % ((s0_['Raw Pitch Accuracy'], s0_['Raw Chroma Accuracy']), (s1_['Raw Pitch Accuracy'], s1_['Raw Chroma Accuracy'])))
                # a single-frame estimate (at time 0, and later), and a single-frame reference, against a longer annotation: valid input
                for args_, what_ in (((tt, rf, tt[:1], ef[:1]), 'one-frame estimate at time 0'), ((tt, rf, tt[1:2], ef[1:2]), 'one-frame estimate after time 0'),
                                     ((tt[:1], rf[:1], tt, ef), 'one-frame reference')):
                    o1_ = guard('melody.evaluate (%s)' % what_, lambda: melody.evaluate(*args_))
                    if o1_ is not None and not all(np.isfinite(v_) and -1e-9 <= v_ <= 1 + 1e-9 for v_ in o1_.values()):
                        fails.append('melody.evaluate (%s) out of [0, 1]: %s' % (what_, dict(o1_)))
                # optional voicing / reward arrays, each alone and together, with an estimate (or a reference) that starts after time 0: valid input
                ev_ = (le_ != 0).astype(float)
                rw_ = np.ones(len(tt))
                for kw_ in (dict(est_voicing=ev_), dict(ref_reward=rw_), dict(est_voicing=ev_, ref_reward=rw_)):
                    o_ = guard('melody.evaluate(late-starting estimate, %s)' % sorted(kw_), lambda: melody.evaluate(tt, rf, lt_, le_, **kw_))
                    if o_ is not None and not all(np.isfinite(v_) and -1e-9 <= v_ <= 1 + 1e-9 for v_ in o_.values()):
                        fails.append('melody.evaluate(late-starting estimate, %s) out of [0, 1]: %s' % (sorted(kw_), dict(o_)))
                # the same relations when the estimate lives on its own time base (resampling with interpolation)
                tt2 = np.arange(2 * nf - 1) * 0.0625
                ef2 = np.repeat(ef, 2)[:2 * nf - 1]
                r0 = guard('melody.evaluate (resampled)', lambda: melody.evaluate(tt, rf, tt2, ef2))
                r1 = guard('melody.evaluate (resampled, negated)', lambda: melody.evaluate(tt, rf, tt2, -ef2))
                if r0 is not None and r1 is not None and (abs(r0['Raw Pitch Accuracy'] - r1['Raw Pitch Accuracy']) > 1e-9 or abs(r0['Raw Chroma Accuracy'] - r1['Raw Chroma Accuracy']) > 1e-9):
                    fails.append('octave/sign: negating the estimated frequencies changes raw pitch / raw chroma accuracy when the estimate is resampled: %s vs %s'
                                 % ((r0['Raw Pitch Accuracy'], r0['Raw Chroma Accuracy']), (r1['Raw Pitch Accuracy'], r1['Raw Chroma Accuracy'])))
            # C02: a melody against a copy of itself is perfect for every resampling hop and interpolation kind (both sides are resampled alike)
            nfp = rng.randint(8, 14)
            tp_ = np.arange(nfp) * 0.01
            fp_ = np.array([0.0 if rng.random() < 0.3 else rng.choice([220.0, 330.0, 440.0, 495.0]) for _ in range(nfp)])
            if (fp_ > 0).any() and (fp_ == 0).any():
                for hop_, kind_ in ((None, 'linear'), (0.016, 'nearest'), (0.016, 'zero'), (0.025, 'linear'), (0.007, 'nearest')):
                    kw_ = {} if hop_ is None else dict(hop=hop_, kind=kind_)
                    mp = guard('melody.evaluate(x, x, %s)' % kw_, lambda: melody.evaluate(tp_, fp_, tp_.copy(), fp_.copy(), **kw_))
                    # non-degenerate only: after resampling the reference still has voiced and unvoiced frames and its voicing is binary
                    rv_ = melody.to_cent_voicing(tp_, fp_, tp_.copy(), fp_.copy(), **kw_)[0]
                    if not ((rv_ == 1).any() and (rv_ == 0).any() and np.isin(rv_, (0.0, 1.0)).all()):
                        mp = None
                    if mp is not None:
                        want_ = {'Voicing Recall': 1.0, 'Voicing False Alarm': 0.0, 'Raw Pitch Accuracy': 1.0, 'Raw Chroma Accuracy': 1.0, 'Overall Accuracy': 1.0}
                        badk = [k_ for k_ in want_ if abs(mp[k_] - want_[k_]) > 1e-9]
                        if badk:
                            fails.append('perfect melody estimate with %s: %s = %r (frequencies %s)' % (kw_, badk[0], float(mp[badk[0]]), fp_.tolist()))
            # ---------------------------------------------------------------- transcription: a common pitch factor changes no score (C09); pitch
            # deviations a few hundredths of a cent on either side of the tolerance (far above rounding error, far below any coarser grid)
            kn_ = rng.randint(2, 6)
            tri_ = np.array([[0.5 * j_, 0.5 * j_ + 0.4] for j_ in range(kn_)])
            trp_ = np.array([rng.choice([220.0, 261.6255653005986, 329.6275569128699, 440.0]) for _ in range(kn_)])
            tep_ = trp_ * 2.0 ** (np.array([rng.choice([49.97, 50.03, -49.97, -50.03, 0.0, 20.0]) for _ in range(kn_)]) / 1200.0)
            if rng.random() < 0.3:
                # high notes whose estimate is uniformly sharp by less than the tolerance: the two pitch ranges are disjoint in Hz
                trp_ = np.full(kn_, rng.choice([2093.004522404789, 1760.0, 3520.0]))
                tep_ = trp_ * 2.0 ** (np.array([rng.choice([43.0, 45.0, 47.0]) for _ in range(kn_)]) / 1200.0)
            t0_ = guard('transcription.precision_recall_f1_overlap', lambda: T.precision_recall_f1_overlap(tri_, trp_, tri_.copy(), tep_))
            for fac_ in (2.0 ** (1 / 12.0), 1.5, 2.0 ** (7 / 12.0), 3.0, 0.5, 0.125):
                t1_ = guard('transcription.precision_recall_f1_overlap (scaled pitches)', lambda: T.precision_recall_f1_overlap(tri_, trp_ * fac_, tri_.copy(), tep_ * fac_))
                if t0_ is not None and t1_ is not None and any(abs(a_ - b_) > 1e-9 for a_, b_ in zip(t0_, t1_)):
                    fails.append('octave/transposition: multiplying all note pitches by %s changes the transcription scores: %s vs %s (ref %s, est %s)'
                                 % (fac_, tuple(float(x_) for x_ in t0_), tuple(float(x_) for x_ in t1_), trp_.tolist(), tep_.tolist()))
                    break
            # ---------------------------------------------------------------- multipitch: common transposition (C09), pitches on both sides of the octave seam
            nfm = rng.randint(1, 4)
            tm = np.arange(nfm) * 0.25
            hz = lambda m: 440.0 * 2.0 ** ((m - 69.0) / 12.0)
            rm = [sorted(set(rng.sample([48.0, 59.9, 60.0, 60.1, 64.0, 71.9, 72.1, 83.8], rng.randint(0, 3)))) for _ in range(nfm)]
            em = [[m + rng.choice([0.0, 0.1, -0.2, 0.3, 0.7, 11.8, 12.2, -12.1]) for m in fr] + ([rng.choice([55.0, 66.3])] if rng.random() < 0.3 else []) for fr in rm]
            rfz = [np.array([hz(m) for m in fr]) for fr in rm]
            efz = [np.array(sorted(hz(m) for m in fr)) for fr in em]
            # the property excludes pitch differences within rounding error of the tolerance: skip frames with a pair at 0.5 semitones
            def near_tol(fr, fe):
                for a in fr:
                    for b in fe:
                        for d in (abs(a - b), abs((a - b) % 12.0), 12.0 - abs((a - b) % 12.0)):
                            if abs(d - 0.5) < 1e-6:
                                return True
                return False
            b0 = None if any(near_tol(a, b) for a, b in zip(rm, em)) else guard('multipitch.metrics', lambda: multipitch.metrics(tm, rfz, tm, efz))
            if b0 is not None:
                for semis in (1, 2, 5, -3):
                    fac = 2.0 ** (semis / 12.0)
                    b1 = multipitch.metrics(tm, [x * fac for x in rfz], tm, [x * fac for x in efz])
                    if any(abs(x - y) > 1e-9 for x, y in zip(b0, b1)):
                        fails.append('octave/transposition: multiplying all multipitch frequencies by 2^(%d/12) changes the scores: %s vs %s (ref midi %s, est midi %s)'
                                     % (semis, [round(float(x), 4) for x in b0], [round(float(x), 4) for x in b1], rm, em))
                        break
            # ---------------------------------------------------------------- alignment PCS
            ts = np.array(sorted(rng.sample([x * 0.25 for x in range(0, 40)], rng.randint(2, 6))))
            es = np.array(sorted(max(0.0, x + rng.choice([-0.25, 0, 0.25])) for x in ts))
            for dur in (None, 12.0):
                pcs = guard('alignment.percentage_correct_segments', lambda: alignment.percentage_correct_segments(ts, es, duration=dur))
                if pcs is not None and not (-1e-9 <= pcs <= 1 + 1e-9):
                    fails.append('PCS out of [0, 1]: %r' % pcs)
            same = alignment.evaluate(ts, ts.copy())
            if abs(same['pc'] - 1) > 1e-12 or same['mae'] != 0 or same['aae'] != 0 or abs(same['pcs'] - 1) > 1e-12:
                fails.append('perfect alignment: %s' % dict(same))
            if abs(alignment.percentage_correct_segments(ts + 2.0, es + 2.0) - alignment.percentage_correct_segments(ts, es)) > 1e-9:
                fails.append('MIREX PCS changes under a common time shift')
            # PCS with the audio duration: a last timestamp equal to the duration is valid (C14); a later one is rejected
            dur_eq = float(max(ts[-1], es[-1]))
            guard('alignment.percentage_correct_segments(duration == last timestamp)', lambda: alignment.percentage_correct_segments(ts, es, duration=dur_eq))
            guard('alignment.evaluate(duration == last timestamp)', lambda: alignment.evaluate(ts, es, duration=dur_eq))
            # ---------------------------------------------------------------- pattern occurrences that list an event twice (accepted by validate): ranges only
            dp = [[list(occ) + [occ[0]] for occ in pt] for pt in ep]
            pd = guard('pattern.evaluate with a repeated event', lambda: pattern.evaluate(rp, dp))
            sd = guard('pattern.evaluate (swapped) with a repeated event', lambda: pattern.evaluate(dp, rp))
            if pd is not None and sd is not None:
                for a_, b_ in (('P_est', 'R_est'), ('P_occ.75', 'R_occ.75'), ('P_occ.5', 'R_occ.5'), ('P_3', 'R_3')):
                    if abs(pd[a_] - sd[b_]) > 1e-9 or abs(pd[b_] - sd[a_]) > 1e-9:
                        fails.append('pattern swap with a repeated event: %s=%r vs %s=%r' % (a_, pd[a_], b_, sd[b_]))
            # swap when the estimate holds an exact copy of a reference pattern followed by a near variant of it
            var = [[(t, p) for t, p in occ] for occ in rp[0]]
            var[0] = var[0][:-1] + [(var[0][-1][0] + 1.0, var[0][-1][1])] if len(var[0]) > 1 else var[0] + [(var[0][0][0] + 1.0, var[0][0][1])]
            ev_ = [list(map(list, p)) for p in rp] + [var]
            a1 = guard('pattern.evaluate (copy + variant)', lambda: pattern.evaluate(rp, ev_))
            a2 = guard('pattern.evaluate (copy + variant, swapped)', lambda: pattern.evaluate(ev_, rp))
            if a1 is not None and a2 is not None:
                for a_, b_ in (('P_est', 'R_est'), ('P_occ.75', 'R_occ.75'), ('P_3', 'R_3')):
                    if abs(a1[a_] - a2[b_]) > 1e-9 or abs(a1[b_] - a2[a_]) > 1e-9:
                        fails.append('pattern swap (estimate = copy of the reference plus a variant): %s=%r vs %s=%r' % (a_, a1[a_], b_, a2[b_]))
                if abs(a1['F_3'] - a2['F_3']) > 1e-9:
                    fails.append('pattern swap (estimate = copy of the reference plus a variant): F_3 %r vs %r' % (a1['F_3'], a2['F_3']))
            # swap when one estimated pattern is relevant to two reference patterns (unequal multiplicities among the relevant pairs)
            bA = [[(float(t), 60.0 + t) for t in range(4)], [(float(t) + 10.0, 60.0 + t) for t in range(4)]]
            def vary(pt, k_):
                q = [list(o) for o in pt]
                q[0][k_] = (q[0][k_][0] + 0.5, q[0][k_][1])
                return q
            bZ = [[(float(t), 72.0 - t) for t in range(3)], [(float(t) + 20.0, 72.0 - t) for t in range(3)]]
            r_ = [bA, vary(bA, rng.randint(0, 1)), bZ]
            e_ = [vary(bA, rng.randint(2, 3)), [list(o) for o in bZ]]
            o1 = guard('pattern.occurrence_FPR (shared estimate)', lambda: pattern.occurrence_FPR(r_, e_, thres=0.75))
            o2 = guard('pattern.occurrence_FPR (shared estimate, swapped)', lambda: pattern.occurrence_FPR(e_, r_, thres=0.75))
            if o1 is not None and o2 is not None and (abs(o1[1] - o2[2]) > 1e-9 or abs(o1[2] - o2[1]) > 1e-9 or abs(o1[0] - o2[0]) > 1e-9):
                fails.append('pattern swap (one estimated pattern relevant to two reference patterns): occurrence (F, P, R) = %s vs swapped %s' % (tuple(float(x) for x in o1), tuple(float(x) for x in o2)))
            # C04: the first-n scores are the establishment recall / three-layer precision of the first n estimated patterns
            many = ep + [pat() for _ in range(2)]
            for nn in (1, 2, 3):
                got_r = guard('first_n_target_proportion_R', lambda: pattern.first_n_target_proportion_R(rp, many, n=nn))
                got_p = guard('first_n_three_layer_P', lambda: pattern.first_n_three_layer_P(rp, many, n=nn))
                if got_r is not None and got_p is not None:
                    want_r = pattern.establishment_FPR(rp, many[:nn])[2]
                    want_p = pattern.three_layer_FPR(rp, many[:nn])[1]
                    if abs(got_r - want_r) > 1e-12 or abs(got_p - want_p) > 1e-12:
                        fails.append('first-n pattern scores (n=%d) = (%r, %r), its definition gives (%r, %r) on the first n of %d estimated patterns'
                                     % (nn, float(got_r), float(got_p), float(want_r), float(want_p), len(many)))
            if pd is not None:
                for key, v in pd.items():
                    if not (np.isfinite(v) and v >= -1e-9) or (key not in ('P', 'F') and v > 1 + 1e-9):
                        fails.append('pattern.evaluate[%r] = %r out of range when an estimated occurrence repeats an event' % (key, v))
            # ---------------------------------------------------------------- multipitch: an exact copy is perfect, whatever order a frame lists its pitches in (C02)
            nfp_ = rng.randint(1, 4)
            mtp_ = np.arange(nfp_) * 0.25
            pool_ = [110.0, 146.83, 220.0, 261.63, 330.0, 440.0, 587.33, 880.0]
            xfp_ = [np.array(rng.sample(pool_, rng.randint(0, 4))) for _ in range(nfp_)]
            if any(len(f_) for f_ in xfp_):
                mp_ = guard('multipitch.evaluate(x, x)', lambda: multipitch.evaluate(mtp_, xfp_, mtp_.copy(), [f_.copy() for f_ in xfp_]))
                if mp_ is not None:
                    for key, v in mp_.items():
                        w_ = 0.0 if 'Error' in key else 1.0
                        if abs(v - w_) > 1e-9:
                            fails.append('perfect multipitch estimate: %s = %r (frames %s)' % (key, v, [f_.tolist() for f_ in xfp_]))
                            break
            # ---------------------------------------------------------------- interval arrays that are not n-by-2 are rejected with ValueError (C14)
            if it % 10 == 0:
                from mir_eval import util as _util, segment as _segment, chord as _chord
                good_iv = np.array([[0.0, 1.0], [1.0, 2.5], [2.5, 4.0]])
                shapes_ = [('1-D, two values', np.array([0.0, 4.0])), ('1-D, three values', np.array([0.0, 1.0, 4.0])), ('n-by-3', np.array([[0.0, 1.0, 2.0], [2.0, 3.0, 4.0]])),
                           ('n-by-1', np.array([[0.0], [4.0]])), ('1-by-n-by-2', good_iv[np.newaxis]), ('n-by-1-by-2', good_iv[:, np.newaxis, :])]
                entries_ = [('util.validate_intervals', lambda a: _util.validate_intervals(a)),
                            ('util.intervals_to_durations', lambda a: _util.intervals_to_durations(a)),
                            ('segment.detection (reference)', lambda a: _segment.detection(a, good_iv)),
                            ('segment.detection (estimate)', lambda a: _segment.detection(good_iv, a)),
                            ('segment.deviation (estimate)', lambda a: _segment.deviation(good_iv, a)),
                            ('chord.overseg (reference)', lambda a: _chord.overseg(a, good_iv)),
                            ('chord.seg (estimate)', lambda a: _chord.seg(good_iv, a)),
                            ('transcription.onset_precision_recall_f1 (estimate)', lambda a: T.onset_precision_recall_f1(good_iv, a)),
                            ('transcription.offset_precision_recall_f1 (reference)', lambda a: T.offset_precision_recall_f1(a, good_iv))]
                one_row_bad_ = [('one row, negative time', np.array([[-1.0, 2.0]])), ('one row, zero duration', np.array([[1.0, 1.0]])),
                                ('one row, end before start', np.array([[2.0, 1.0]])), ('one row, three columns', np.array([[0.0, 1.0, 2.0]]))]
                for sname_, arr_ in one_row_bad_:
                    for ename_, call_ in (('segment.detection(trim=True) (reference)', lambda a: _segment.detection(a, good_iv, trim=True)),
                                          ('segment.detection(trim=True) (estimate)', lambda a: _segment.detection(good_iv, a, trim=True)),
                                          ('segment.deviation(trim=True) (estimate)', lambda a: _segment.deviation(good_iv, a, trim=True)),
                                          ('segment.detection (estimate)', lambda a: _segment.detection(good_iv, a))):
                        n += 1
                        try:
                            r_ = call_(arr_.copy())
                            fails.append('%s accepted (no ValueError raised) a malformed interval array (%s) and returned %r' % (ename_, sname_, r_))
                        except ValueError:
                            pass
                        except Exception as ex:
                            fails.append('%s raised %s instead of ValueError for a malformed interval array (%s)' % (ename_, type(ex).__name__, sname_))
                for sname_, arr_ in shapes_:
                    for ename_, call_ in entries_:
                        n += 1
                        try:
                            r_ = call_(arr_.copy())
                            fails.append('%s accepted (no ValueError raised) an interval array that is not n-by-2 (%s) and returned %r' % (ename_, sname_, r_))
                        except ValueError:
                            pass
                        except Exception as ex:
                            fails.append('%s raised %s instead of ValueError for an interval array that is not n-by-2 (%s)' % (ename_, type(ex).__name__, sname_))
            # ---------------------------------------------------------------- multipitch: single faults on either side are rejected (C14)
            nfr = rng.randint(1, 4)
            mt = np.arange(nfr) * 0.25
            good = lambda: [np.array(sorted(rng.sample([110.0, 220.0, 330.0, 440.0, 880.0], rng.randint(0, 3)))) for _ in range(nfr)]
            rfq, efq = good(), good()
            guard('multipitch.evaluate on a valid input', lambda: multipitch.evaluate(mt, rfq, mt, efq))
            bad_frame = rng.choice([np.array([6000.0]), np.array([5.0]), np.array([[220.0, 440.0]])])
            for side in ('reference', 'estimate'):
                fr, fe = [x.copy() for x in rfq], [x.copy() for x in efq]
                (fr if side == 'reference' else fe)[rng.randrange(nfr)] = bad_frame
                n += 1
                try:
                    multipitch.metrics(mt, fr, mt, fe)
                    fails.append('multipitch.metrics accepted (no ValueError raised) a malformed %s frame %s' % (side, bad_frame.tolist()))
                except ValueError:
                    pass
                except Exception as ex:
                    fails.append('multipitch.metrics raised %s instead of ValueError for a malformed %s frame %s' % (type(ex).__name__, side, bad_frame.tolist()))
            if len(fails) > 8:
                break
    bounded = [dict(name='metamorphic relations of beat / pattern / transcription_velocity / alignment metrics (ranges, perfect estimate, swap, nested criteria, time shift, reference order)',
                    bound='%d random lattice inputs per task' % N, cases=n, exhaustive=False, failures=fails[:5], wall_s=round(time.time() - t0, 2))]
    results = []
    if fails:
        results.append(dict(kind='engine', engine='tasknative', name='task metrics', status='ok', detail='', paths=0, inlined=[], used_contracts=[], gen_time=0, wall=0,
                            lib_used=[], props=[prop],
                            obligations=[dict(id='tasks#bounded:metamorphic', kind='bounded', label='metamorphic', props=[prop], line=None, note=fails[0][:500],
                                              expect='unsat', verdict='refuted', backend='native', time=0.0, model=dict(example=fails[0]),
                                              goal='metamorphic relations of the task metrics', native=dict(confirmed=True, example=fails[0]), finding=None)]))
    return dict(results=results, bounded=bounded)


def replay(rec):
    r = run(rec.get('property', 'C02'), 'quick', 0, None)
    fails = [f for b in r['bounded'] for f in b['failures']]
    return bool(fails), 'task metamorphic relations: %s' % (fails[:2] or 'no failure')
