"""Front end: reads the *real* sources of /repo/mir_eval on every run.

Nothing is copied or re-typed: every function body the engines work on is the
`ast.FunctionDef` obtained from `ast.parse(open(<repo>/mir_eval/<m>.py).read())`.
"""
import ast
import hashlib
import os

REPO = os.environ.get('PYVC_REPO', '/repo')
PKG = 'mir_eval'

MODULES = ['alignment', 'beat', 'chord', 'hierarchy', 'io', 'key', 'melody', 'multipitch', 'onset', 'pattern',
           'segment', 'separation', 'sonify', 'tempo', 'transcription', 'transcription_velocity', 'util']

_cache = {}


class Module:
    def __init__(self, name):
        self.name = name
        self.path = os.path.join(REPO, PKG, name + '.py')
        src = open(self.path, 'rb').read()
        self.sha256 = hashlib.sha256(src).hexdigest()
        self.src = src.decode('utf8')
        self.tree = ast.parse(self.src)
        self.functions = {}
        self.assigns = {}        # module-level NAME = <expr>   (AST of the value)
        self.imports = {}        # alias -> dotted module / object path
        for n in self.tree.body:
            if isinstance(n, ast.FunctionDef):
                self.functions[n.name] = n
            elif isinstance(n, ast.Assign) and len(n.targets) == 1 and isinstance(n.targets[0], ast.Name):
                self.assigns[n.targets[0].id] = n.value
            elif isinstance(n, ast.Import):
                for a in n.names:
                    self.imports[a.asname or a.name.split('.')[0]] = a.name if a.asname else a.name.split('.')[0]
            elif isinstance(n, ast.ImportFrom):
                base = n.module or ''
                if n.level:
                    base = PKG + ('.' + base if base else '')
                for a in n.names:
                    self.imports[a.asname or a.name] = (base + '.' + a.name) if base else a.name

    def const(self, name):
        """literal value of a module-level constant (evaluated from the real AST)"""
        return ast.literal_eval(self.assigns[name])


def module(name):
    if name not in _cache:
        _cache[name] = Module(name)
    return _cache[name]


def reset():
    _cache.clear()


def function(qual):
    """'mir_eval.util.f_measure' or 'util.f_measure' -> (Module, FunctionDef)"""
    parts = qual.split('.')
    if parts[0] == PKG:
        parts = parts[1:]
    m = module(parts[0])
    fd = m.functions.get(parts[1])
    if fd is None:
        raise KeyError('no function %s in %s' % (parts[1], m.path))
    for p in parts[2:]:           # nested def
        for n in ast.walk(fd):
            if isinstance(n, ast.FunctionDef) and n.name == p and n is not fd:
                fd = n
                break
        else:
            raise KeyError(qual)
    return m, fd


def params(fd):
    """positional parameter names (co_varnames[:co_argcount]), kw-only names, has **kwargs, has *args"""
    a = fd.args
    return [x.arg for x in a.posonlyargs + a.args], [x.arg for x in a.kwonlyargs], a.kwarg is not None, a.vararg is not None


def defaults(fd):
    """name -> default AST for parameters that have one"""
    a = fd.args
    pos = a.posonlyargs + a.args
    out = {}
    for p, d in zip(pos[len(pos) - len(a.defaults):], a.defaults):
        out[p.arg] = d
    for p, d in zip(a.kwonlyargs, a.kw_defaults):
        if d is not None:
            out[p.arg] = d
    return out


def dotted(e):
    parts = []
    while isinstance(e, ast.Attribute):
        parts.append(e.attr)
        e = e.value
    if isinstance(e, ast.Name):
        parts.append(e.id)
    else:
        return None
    return '.'.join(reversed(parts))


def resolve(mod, name):
    """Resolve a dotted name used inside module `mod` to a canonical path.

    returns ('repo', module, func) | ('lib', 'numpy.abs') | ('local', name)
    """
    parts = name.split('.')
    head = parts[0]
    if head in mod.functions and len(parts) == 1:
        return ('repo', mod.name, head)
    if head in mod.imports:
        full = mod.imports[head].split('.') + parts[1:]
        if full[0] == PKG:
            if len(full) >= 3 and full[1] in MODULES:
                return ('repo', full[1], full[2])
            return ('lib', '.'.join(full))
        return ('lib', '.'.join(full))
    return ('local', name)


def source_hashes(mods=None):
    return {m: module(m).sha256 for m in (mods or MODULES)}


def docstring_stripped(fd):
    body = fd.body
    if body and isinstance(body[0], ast.Expr) and isinstance(body[0].value, ast.Constant) and isinstance(body[0].value.value, str):
        return body[1:]
    return body
