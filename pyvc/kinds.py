"""Parameter / result kinds of the sidecar contract language (A3: typing by contract)."""
import ast

import z3

from .values import *        # noqa
from . import values as V


class Kind:
    pass


class KReal(Kind):
    def __repr__(self): return 'Real'


class KInt(Kind):
    def __repr__(self): return 'Int'


class KBool(Kind):
    def __repr__(self): return 'Bool'


class KStr(Kind):
    """concrete-only strings (symbolic strings use KEnum)"""
    def __repr__(self): return 'Str'


class KNone(Kind):
    def __repr__(self): return 'NoneT'


class KEnum(Kind):
    def __init__(self, name, members):
        self.name, self.members = name, list(members)

    def __repr__(self): return 'Enum(%s)' % self.name


class KOpt(Kind):
    def __init__(self, inner): self.inner = inner
    def __repr__(self): return 'Opt(%r)' % self.inner


class KArr(Kind):
    """ndarray: elem kind, shape template (ints or None for symbolic)"""
    def __init__(self, elem, shape):
        self.elem, self.shape = elem, tuple(shape)

    def __repr__(self): return 'Arr(%r,%r)' % (self.elem, self.shape)


class KTup(Kind):
    def __init__(self, *items): self.items = items
    def __repr__(self): return 'Tup%r' % (self.items,)


class KList(Kind):
    def __init__(self, elem, n=None): self.elem, self.n = elem, n
    def __repr__(self): return 'Lst(%r,%r)' % (self.elem, self.n)


class KObj(Kind):
    """opaque label objects: uninterpreted sort with equality only"""
    def __repr__(self): return 'ObjT'


OBJ_SORT = z3.DeclareSort('Obj')


def parse_kind(node):
    """annotation AST -> Kind"""
    if node is None:
        return None
    if isinstance(node, ast.Constant) and node.value is None:
        return KNone()
    if isinstance(node, ast.Name):
        return {'Real': KReal, 'Int': KInt, 'Bool': KBool, 'Str': KStr, 'ObjT': KObj, 'NoneT': KNone}[node.id]()
    if isinstance(node, ast.Call):
        f = node.func.id
        if f == 'Opt':
            return KOpt(parse_kind(node.args[0]))
        if f == 'Arr':      # Arr(Real, None) 1-D symbolic ; Arr(Real, None, 2) n x 2 ; Arr(Real, 2) fixed length 2
            elem = parse_kind(node.args[0])
            shape = [ast.literal_eval(a) for a in node.args[1:]]
            return KArr(elem, shape)
        if f == 'Tup':
            return KTup(*[parse_kind(a) for a in node.args])
        if f == 'Lst':
            n = ast.literal_eval(node.args[1]) if len(node.args) > 1 else None
            return KList(parse_kind(node.args[0]), n)
        if f == 'Enum':
            return KEnum(ast.literal_eval(node.args[0]), ast.literal_eval(node.args[1]))
    raise ValueError('bad kind annotation: %s' % ast.dump(node))


def z3sort(kind):
    if isinstance(kind, KReal):
        return z3.RealSort()
    if isinstance(kind, KInt):
        return z3.IntSort()
    if isinstance(kind, KBool):
        return z3.BoolSort()
    if isinstance(kind, KObj):
        return OBJ_SORT
    if isinstance(kind, KEnum):
        return enum_sort(kind.name, kind.members)[0]
    raise ValueError('no scalar sort for %r' % kind)


def fresh(kind, name, st, newref, origin='fresh', record=None):
    """fresh symbolic value of `kind`; type invariants are added to st.pc.

    `record` (dict) receives name -> description of the created symbols, used to read counter-models.
    """
    if isinstance(kind, (KReal, KInt, KBool, KObj, KEnum)):
        c = z3.Const(name, z3sort(kind))
        if record is not None:
            record[name] = ('scalar', c, kind)
        return c
    if isinstance(kind, KNone):
        return None
    if isinstance(kind, KStr):
        raise ValueError('free symbolic Str is not supported; use Enum')
    if isinstance(kind, KOpt):
        isn = z3.Bool(name + '.isnone')
        rec2 = {} if record is not None else None
        val = fresh(kind.inner, name, st, newref, origin, rec2)
        if record is not None:
            record[name] = ('opt', isn, rec2.get(name))
        return Opt(isn, val)
    if isinstance(kind, KTup):
        rec2 = {} if record is not None else None
        vals = tuple(fresh(k, '%s.%d' % (name, i), st, newref, origin, rec2) for i, k in enumerate(kind.items))
        if record is not None:
            record[name] = ('tuple', [rec2.get('%s.%d' % (name, i)) for i in range(len(kind.items))])
        return vals
    if isinstance(kind, KArr):
        shape = []
        for d, s in enumerate(kind.shape):
            if s is None:
                n = z3.Int('%s.n%d' % (name, d))
                st.assume(n >= 0)
                shape.append(n)
            else:
                shape.append(s)
        sort = z3sort(kind.elem)
        dt = {'KReal': 'real', 'KInt': 'int', 'KBool': 'bool'}.get(type(kind.elem).__name__, 'obj')
        if len(shape) == 1 and isinstance(shape[0], int) and 2 < shape[0] <= 64:
            # small fixed-size vector: one constant per cell (case analysis instead of an uninterpreted function)
            cells = [z3.Const('%s[%d]' % (name, k), sort) for k in range(shape[0])]

            def at(i, cells=cells):
                if isinstance(i, int):
                    return cells[i]
                ic = concrete(i)
                if ic is not None:
                    return cells[int(ic)]
                r = cells[-1]
                for k in range(len(cells) - 2, -1, -1):
                    r = z3.If(i == k, cells[k], r)
                return r
            if record is not None:
                record[name] = ('list', [('scalar', c, kind.elem) for c in cells])
            return newref(st, ArrV(shape, at, dt, origin))
        f = z3.Function(name, *([z3.IntSort()] * len(shape) + [sort]))
        arr = ArrV(shape, lambda *i, f=f: f(*[to_z3(x) for x in i]), dt, origin)
        if record is not None:
            record[name] = ('array', f, shape, kind)
        return newref(st, arr)
    if isinstance(kind, KList):
        if kind.n is not None:
            rec2 = {} if record is not None else None
            items = [fresh(kind.elem, '%s.%d' % (name, i), st, newref, origin, rec2) for i in range(kind.n)]
            if record is not None:
                record[name] = ('list', [rec2.get('%s.%d' % (name, i)) for i in range(kind.n)])
            return newref(st, ListV(items, origin))
        n = z3.Int(name + '.n')
        st.assume(n >= 0)
        if isinstance(kind.elem, KTup):
            fs = [z3.Function('%s.%d' % (name, k), z3.IntSort(), z3sort(ek)) for k, ek in enumerate(kind.elem.items)]
            if record is not None:
                record[name] = ('symlist-of-tuples', fs, n, kind)
            return newref(st, SymListV(n, lambda i, fs=fs: tuple(f(to_z3(i)) for f in fs), 'tuple', origin))
        sort = z3sort(kind.elem)
        f = z3.Function(name, z3.IntSort(), sort)
        if record is not None:
            record[name] = ('symlist', f, n, kind)
        el = {'KReal': 'real', 'KInt': 'int', 'KBool': 'bool'}.get(type(kind.elem).__name__, 'obj')
        return newref(st, SymListV(n, lambda i, f=f: f(to_z3(i)), el, origin))
    raise ValueError('cannot create fresh %r' % kind)
