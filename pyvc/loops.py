"""Loops: complete unrolling of fixed-length iteration; invariant-based cut for everything else."""
import ast

import z3

from .values import *      # noqa
from .symex import OutOfSubset, new_ref
from . import calls


def ex_for(eng, s, st):
    for it, st1 in eng.ev(s.iter, st):
        eng.cur_stmt = s
        if isinstance(it, Raised):
            yield st1, ('raise', it.cls)
            continue
        items = calls.seq_items(eng, it, st1)
        if items is not None:
            yield from unroll(eng, s, items, 0, st1)
        else:
            yield from invariant_for(eng, s, it, st1)


def unroll(eng, s, items, k, st):
    if k == len(items):
        if s.orelse:
            yield from eng.ex_block(s.orelse, st)
        else:
            yield st, None
        return
    for st1, out in list(eng.assign(s.target, items[k], st)):
        if out is not None:
            yield st1, out
            continue
        for st2, out2 in eng.ex_block(s.body, st1):
            if out2 is None or out2[0] == 'continue':
                yield from unroll(eng, s, items, k + 1, st2)
            elif out2[0] == 'break':
                yield st2, None
            else:
                yield st2, out2


def assigned_names(stmts):
    out = set()
    for s in stmts:
        for n in ast.walk(s):
            if isinstance(n, ast.Name) and isinstance(n.ctx, ast.Store):
                out.add(n.id)
            elif isinstance(n, ast.AugAssign) and isinstance(n.target, ast.Name):
                out.add(n.target.id)
    return out


def mutated_names(stmts):
    """names whose heap object may be mutated in the loop body (subscript stores, mutating methods)"""
    out = set()
    for s in stmts:
        for n in ast.walk(s):
            if isinstance(n, (ast.Assign, ast.AugAssign)):
                tgts = n.targets if isinstance(n, ast.Assign) else [n.target]
                for t in tgts:
                    for x in ast.walk(t):
                        if isinstance(x, ast.Subscript) and isinstance(x.value, ast.Name):
                            out.add(x.value.id)
            if isinstance(n, ast.AugAssign) and isinstance(n.target, ast.Name):
                out.add(n.target.id)
            if isinstance(n, ast.Call) and isinstance(n.func, ast.Attribute) and isinstance(n.func.value, ast.Name) \
                    and n.func.attr in ('append', 'insert', 'extend', 'sort', 'update', 'pop', 'remove', 'add'):
                out.add(n.func.value.id)
    return out


def havoc_value(eng, name, v, st, keep_shape=False):
    """a fresh value of the same shape-class as v"""
    if isinstance(v, bool) or isinstance(v, z3.BoolRef):
        return z3.Bool(fresh_name(name))
    if is_int_like(v):
        return z3.Int(fresh_name(name))
    if is_real_like(v) or isinstance(v, (int, float)):
        return z3.Real(fresh_name(name))
    if isinstance(v, Ref):
        o = st.heap[v.oid]
        if isinstance(o, ArrV):
            sort = {'real': z3.RealSort(), 'int': z3.IntSort(), 'bool': z3.BoolSort()}.get(o.dtype)
            if sort is None:
                raise OutOfSubset('havoc of object array %s' % name)
            f = z3.Function(fresh_name(name), *([z3.IntSort()] * o.ndim + [sort]))
            shape = []
            for d, sdim in enumerate(o.shape):
                if isinstance(sdim, int) or keep_shape:
                    shape.append(sdim)      # a buffer that is only written into (never re-bound) keeps its shape
                else:
                    n = z3.Int(fresh_name(name + '.n%d' % d))
                    st.assume(n >= 0)
                    shape.append(n)
            return new_ref(st, ArrV(shape, lambda *i, f=f: f(*[to_z3(x) for x in i]), o.dtype, o.origin))
        if isinstance(o, SymListV) or isinstance(o, ListV):
            n = z3.Int(fresh_name(name + '.n'))
            st.assume(n >= 0)
            from . import kinds
            if isinstance(o, SymListV):
                elem = o.elem
            elif o.items and all(is_z3(x) and x.sort() == kinds.OBJ_SORT for x in o.items):
                elem = 'obj'
            else:
                elem = eng.havoc_kinds.get(name, 'real')      # an (initially empty) accumulator list: numbers unless the contract says otherwise
            sort = {'real': z3.RealSort(), 'int': z3.IntSort(), 'bool': z3.BoolSort()}.get(elem, kinds.OBJ_SORT)
            f = z3.Function(fresh_name(name), z3.IntSort(), sort)
            return new_ref(st, SymListV(n, lambda i, f=f: f(to_z3(i)), elem, o.origin))
    if isinstance(v, tuple):
        return tuple(havoc_value(eng, '%s.%d' % (name, k), x, st) for k, x in enumerate(v))
    if isinstance(v, Opt):
        return Opt(z3.Bool(fresh_name(name + '.isnone')), havoc_value(eng, name, v.val, st))
    raise OutOfSubset('cannot havoc %s = %r' % (name, v))


def loop_index(eng, s):
    """ordinal of this loop among the loops of the function (source order)"""
    k = 0
    for n in ast.walk(eng.fd):
        if isinstance(n, (ast.For, ast.While)):
            if n is s:
                return k
            k += 1
    return -1


def eval_invariants(eng, s, st):
    """evaluate the invariant clauses of loop `s` in state st -> list of (label, cond)"""
    k = loop_index(eng, s)
    clauses = eng.loop_invariants.get(k, [])
    out = []
    saved_mode, saved_funcs = eng.spec_mode, eng.spec_funcs
    eng.spec_mode = True
    eng.spec_funcs = dict(eng.inv_funcs)
    try:
        for ci, cl in enumerate(clauses):
            lam = cl['args'][0]
            st2 = st.fork()
            for v, _ in calls.call_lambda(eng, FnV('lambda', '<inv>', lam.node, {}), [], st2):
                out.append((cl['kwargs'].get('label', 'inv%d' % ci), to_bool(v)))
                break
    finally:
        eng.spec_mode, eng.spec_funcs = saved_mode, saved_funcs
    return out, k


def invariant_for(eng, s, it, st):
    """for <target> in <symbolic-length iterable>:  cut at the loop head using the declared invariant.

    Encoded as  idx = 0; while idx < n: target = it[idx]; body; idx += 1  with the implicit
    invariant 0 <= idx <= n.
    """
    if s.orelse:
        raise OutOfSubset('for/else with symbolic length')
    if isinstance(it, calls.RangeV):
        lo, hi = it.lo, it.hi
        elem = lambda i: i
    elif isinstance(it, calls.ZipV):
        lens = [calls.length(eng, q, st) for q in it.seqs]
        n = lens[0]
        for ln in lens[1:]:
            n = minv(n, ln)
        lo, hi = 0, n
        elem = lambda i, it=it: tuple(eng.getitem(q, i, st_cur[0]) for q in it.seqs)
    elif isinstance(it, calls.EnumV):
        n = calls.length(eng, it.seq, st)
        lo, hi = 0, n
        elem = lambda i, it=it: (i, eng.getitem(it.seq, i, st_cur[0]))
    else:
        n = calls.length(eng, it, st)
        lo, hi = 0, n
        elem = lambda i, it=it: eng.getitem(it, i, st_cur[0])
    st_cur = [st]
    k = loop_index(eng, s)
    if k not in eng.loop_invariants:
        raise OutOfSubset('loop #%d of %s has symbolic length and no invariant' % (k, eng.qual))
    idx_name = '__idx%d' % k
    # initiation
    st.env[idx_name] = lo
    run_ghosts(eng, k, st, before=True)
    invs, _ = eval_invariants(eng, s, st)
    for label, cond in invs:
        eng.oblige('inv-init', 'L%d.%s' % (k, label), st, cond)
    # havoc
    names = assigned_names(s.body) | assigned_names([ast.Assign(targets=[s.target], value=ast.Constant(0))])
    muts = mutated_names(s.body)
    st_h = st.fork()
    for nme in sorted(names | muts):
        if nme in st_h.env:
            st_h.env[nme] = havoc_value(eng, nme, st_h.env[nme], st_h, keep_shape=(nme not in names))
    idx = z3.Int(fresh_name('idx%d' % k))
    st_h.env[idx_name] = idx
    st_h.assume(and_(le(lo, idx), le(idx, maxv(hi, lo))))
    invs_h, _ = eval_invariants(eng, s, st_h)
    for label, cond in invs_h:
        st_h.assume(cond)
    # one arbitrary iteration
    st_b = st_h.fork()
    st_b.assume(lt(idx, hi))
    if eng.feasible(st_b):
        st_cur[0] = st_b
        for st1, out in list(eng.assign(s.target, elem(idx), st_b)):
            for st2, out2 in eng.ex_block(s.body, st1):
                eng.cur_stmt = s
                if out2 is None or out2[0] == 'continue':
                    st2.env[idx_name] = add(idx, 1)
                    invs2, _ = eval_invariants(eng, s, st2)
                    for label, cond in invs2:
                        eng.oblige('inv-pres', 'L%d.%s' % (k, label), st2, cond)
                elif out2[0] == 'break':
                    raise OutOfSubset('break inside an invariant-cut loop')
                else:
                    yield st2, out2
    # exit
    st_x = st_h
    st_x.assume(le(hi, idx))
    st_x.env[idx_name] = idx
    eng.cur_stmt = s
    if eng.feasible(st_x):
        run_ghosts(eng, k, st_x)
        yield st_x, None


def run_ghosts(eng, k, st, before=False):
    """ghost(after_loop=k, lambda: <lemma applications>) clauses: premises become obligations, conclusions are assumed;
    ghost(before_loop=k, ...) runs where the loop is entered (facts proved there are framed by the loop: they may only mention values
    the loop does not assign or mutate -- anything else is havocked after them and the fact no longer speaks about it)"""
    for cl in eng.ghosts.get(('before', k) if before else k, []):
        lam = cl['args'][0]
        saved_funcs, saved_mode, saved_spec = eng.spec_funcs, eng.ghost_mode, eng.spec_mode
        eng.spec_funcs = dict(eng.inv_funcs)
        eng.ghost_mode = True
        eng.spec_mode = True          # a ghost clause is specification text: its terms are formulas, not code with safety obligations
        try:
            for v, st1 in calls.call_lambda(eng, FnV('lambda', '<ghost>', lam.node, {}), [], st):
                if st1 is not st:
                    # lemma applications made inside a spec helper live in the state it returned: keep their conclusions
                    st.pc[:] = list(st1.pc)
                    for oid, o in st1.heap.items():
                        st.heap.setdefault(oid, o)
                break
        finally:
            eng.spec_funcs, eng.ghost_mode, eng.spec_mode = saved_funcs, saved_mode, saved_spec


def ex_while(eng, s, st):
    raise OutOfSubset('while loop')
