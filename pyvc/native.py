"""Native replay: call the REAL function under CPython on a counter-model and evaluate the same
contract clauses concretely (the executor run on literal values)."""
import importlib
import math
import os
import sys
import warnings

from . import frontend, kinds, contract, calls
from .values import *      # noqa
from .symex import OutOfSubset, St, new_ref, NAN, INF, Engine


def import_repo():
    if frontend.REPO not in sys.path:
        sys.path.insert(0, frontend.REPO)
    for k in [k for k in sys.modules if k == 'mir_eval' or k.startswith('mir_eval.')]:
        del sys.modules[k]
    import mir_eval     # noqa
    assert os.path.realpath(os.path.dirname(os.path.dirname(mir_eval.__file__))) == os.path.realpath(frontend.REPO), \
        'mir_eval imported from %s, expected %s' % (mir_eval.__file__, frontend.REPO)
    return mir_eval


def real_function(qual):
    import_repo()
    parts = qual.split('.')
    if parts[0] == 'mir_eval':
        parts = parts[1:]
    m = importlib.import_module('mir_eval.' + parts[0])
    f = getattr(m, parts[1])
    return f


def to_native(kind, v):
    """model value (json-able) -> python / numpy object according to the contract kind"""
    import numpy as np
    if v is None:
        return None
    if isinstance(kind, kinds.KOpt):
        return to_native(kind.inner, v)
    if isinstance(kind, kinds.KArr):
        dt = {'KReal': float, 'KInt': int, 'KBool': bool}.get(type(kind.elem).__name__, object)
        a = np.array(v, dtype=dt)
        if len(kind.shape) == 2 and a.ndim == 1:
            a = a.reshape((0, kind.shape[1] if kind.shape[1] is not None else 0))
        return a
    if isinstance(kind, kinds.KTup):
        return tuple(to_native(k, x) for k, x in zip(kind.items, v))
    if isinstance(kind, kinds.KList):
        return [to_native(kind.elem, x) for x in v]
    if isinstance(kind, kinds.KReal):
        return float(v)
    if isinstance(kind, kinds.KInt):
        return int(v)
    if isinstance(kind, kinds.KBool):
        return bool(v)
    if isinstance(kind, kinds.KObj) and isinstance(v, (list, tuple)) and all(isinstance(r, (list, tuple)) and len(r) == 2 and
                                                                            all(isinstance(x, (int, float)) for x in r) for r in v):
        return np.array(v, dtype=float).reshape((-1, 2))        # an opaque interval array
    return v


def opaque(x):
    """contract-side value of an opaque (ObjT) argument: interval arrays become tuples of pairs"""
    import numpy as np
    if isinstance(x, np.ndarray):
        return tuple(tuple(float(y) for y in row) for row in x.tolist())
    if isinstance(x, (list, tuple)):
        return tuple(opaque(y) for y in x)          # nested opaque data (e.g. a pattern: occurrences of (onset, midi) pairs)
    return x


def lift(x, st):
    """python / numpy object -> concrete engine value"""
    import numpy as np
    if x is None or isinstance(x, (bool, int, str)):
        return x
    if isinstance(x, (np.bool_,)):
        return bool(x)
    if isinstance(x, (np.integer,)):
        return int(x)
    if isinstance(x, (float, np.floating)):
        x = float(x)
        if math.isnan(x):
            return NAN
        if math.isinf(x):
            return INF
        return x
    if isinstance(x, tuple):
        return tuple(lift(y, st) for y in x)
    if isinstance(x, list):
        return new_ref(st, ListV([lift(y, st) for y in x]))
    if isinstance(x, dict):
        return new_ref(st, DictV({k: lift(v, st) for k, v in x.items()}))
    if isinstance(x, np.ndarray):
        dt = 'bool' if x.dtype == bool else ('int' if np.issubdtype(x.dtype, np.integer) else
                                              ('real' if np.issubdtype(x.dtype, np.floating) else 'obj'))
        data = x.tolist()
        if x.ndim == 1:
            cells = [lift(v, st) for v in data]
            return new_ref(st, ArrV((len(cells),), lambda i, c=cells: c[int(i)], dt))
        if x.ndim == 2:
            cells = [[lift(v, st) for v in row] for row in data]
            return new_ref(st, ArrV(x.shape, lambda i, j, c=cells: c[int(i)][int(j)], dt))
    raise TypeError('cannot lift %r' % type(x))


def has_nonfinite(x):
    import numpy as np
    if isinstance(x, (float, np.floating)):
        return math.isnan(float(x)) or math.isinf(float(x))
    if isinstance(x, (tuple, list)):
        return any(has_nonfinite(y) for y in x)
    if isinstance(x, np.ndarray) and np.issubdtype(x.dtype, np.floating):
        return bool(np.any(~np.isfinite(x)))
    if isinstance(x, dict):
        return any(has_nonfinite(v) for v in x.values())
    return False


def snapshot(x):
    import copy
    return copy.deepcopy(x)


def same(a, b):
    import numpy as np
    if isinstance(a, np.ndarray) or isinstance(b, np.ndarray):
        return isinstance(a, np.ndarray) and isinstance(b, np.ndarray) and a.shape == b.shape and a.dtype == b.dtype \
            and bool(np.array_equal(a, b, equal_nan=True) if a.dtype.kind in 'fc' else np.array_equal(a, b))
    if isinstance(a, (list, tuple)):
        return type(a) is type(b) and len(a) == len(b) and all(same(x, y) for x, y in zip(a, b))
    if isinstance(a, dict):
        return isinstance(b, dict) and list(a) == list(b) and all(same(a[k], b[k]) for k in a)
    return a == b or (a != a and b != b)


def concrete_bool(v):
    if isinstance(v, bool):
        return v
    c = concrete(v)
    if isinstance(c, bool):
        return c
    return None


def replay_function(qual, inputs, registry=None):
    """returns dict(confirmed: bool, outcome, failed: [...], detail)"""
    calls.NATIVE_MODE[0] = True
    try:
        return _replay_function(qual, inputs, registry)
    finally:
        calls.NATIVE_MODE[0] = False


def _replay_function(qual, inputs, registry=None):
    registry = registry or contract.Registry()
    c = registry.get(qual)
    f = real_function(c.target)
    kw = {}
    for p in c.param_names:
        if p in inputs:
            kw[p] = to_native(c.param_kinds[p], inputs[p])
    before = snapshot(kw)
    outcome = None
    with warnings.catch_warnings():
        warnings.simplefilter('ignore')
        try:
            res = f(**kw)
            outcome = ('return', res)
        except Exception as ex:        # noqa
            outcome = ('raise', type(ex).__name__, str(ex)[:200])
    failed = []
    mutated = [k for k in kw if not same(before[k], kw[k])]
    for k in mutated:
        failed.append('frame: argument %s was modified by the call' % k)
    # evaluate the contract concretely on the ORIGINAL arguments
    st = St()
    def contract_value(p):
        k = c.param_kinds.get(p)
        if isinstance(k, kinds.KObj):
            return opaque(before[p])
        if isinstance(k, kinds.KList) and isinstance(k.elem, kinds.KObj) and isinstance(before[p], list) and \
                any(isinstance(y, (list, tuple)) for y in before[p]):
            return new_ref(st, ListV([opaque(y) for y in before[p]]))       # a list of opaque objects
        return lift(before[p], st)
    env = {p: contract_value(p) for p in before}
    mod, fd = frontend.function(c.target)
    dflt = frontend.defaults(fd)
    import ast
    for p in frontend.params(fd)[0]:
        if p not in env and p in dflt:
            env[p] = ast.literal_eval(dflt[p])
    try:
        pre = contract.eval_clauses(c, env, st, registry, 'pre')
    except Exception as ex:
        return dict(confirmed=False, outcome=repr(outcome)[:300], failed=failed, detail='contract not evaluable natively: %s' % ex)
    pre_ok = all(concrete_bool(cl['cond']) is not False for cl in pre if cl['kind'] == 'requires')
    raises = [cl for cl in pre if cl['kind'] == 'raises']
    if outcome[0] == 'raise':
        decl = [cl for cl in raises if cl['cls'] == outcome[1]]
        if not decl:
            failed.append('exc: raised undeclared %s: %s' % (outcome[1], outcome[2]))
        elif not any(concrete_bool(cl['cond']) for cl in decl):
            failed.append('exc: raised %s outside its documented condition: %s' % (outcome[1], outcome[2]))
    else:
        res = outcome[1]
        for cl in raises:
            if concrete_bool(cl['cond']) is True:
                failed.append('exc: returned normally although the %s condition holds' % cl['cls'])
        ok, why = contract.check_result_kind(c.result_kind, lift(res, st) if not isinstance(res, list) else tuple(lift(x, st) for x in res), st)
        if not ok:
            failed.append('arity: ' + why)
        else:
            if has_nonfinite(res) and not getattr(c, 'allows_nonfinite', False):
                failed.append('finite: result contains nan/inf: %r' % (res,))
            env2 = dict(env)
            env2['result'] = lift(res, st) if not isinstance(res, list) else tuple(lift(x, st) for x in res)
            try:
                post = contract.eval_clauses(c, env2, st, registry, 'post')
                for cl in post:
                    if cl['kind'] == 'ensures' and concrete_bool(cl['cond']) is False:
                        failed.append('post:%s is false' % cl['label'])
            except Exception as ex:
                # the contract cannot be evaluated concretely on this result: inconclusive, never a failure
                return dict(confirmed=bool(failed) and pre_ok, pre_ok=pre_ok, outcome=repr(outcome)[:400], failed=failed,
                            detail='post clauses not evaluable natively on this result (%s)' % str(ex)[:120])
    return dict(confirmed=bool(failed) and pre_ok, pre_ok=pre_ok, outcome=repr(outcome)[:400], failed=failed, detail='')


def model_is_native(model):
    """False when the counter-model mentions abstract objects (labels of the uninterpreted sort)"""
    def bad(v):
        if isinstance(v, str):
            return v.startswith('obj:') or v.startswith('unreadable')
        if isinstance(v, (list, tuple)):
            return any(bad(x) for x in v)
        if isinstance(v, dict):
            return any(bad(x) for x in v.values())
        return False
    return not bad(model)


def observe(qual, inputs, registry=None):
    """call the real function on `inputs`; bad = it raised something else than ValueError or returned a non-finite value"""
    registry = registry or contract.Registry()
    c = registry.get(qual)
    f = real_function(c.target)
    kw = {p: to_native(c.param_kinds[p], inputs[p]) for p in c.param_names if p in inputs}
    with warnings.catch_warnings():
        warnings.simplefilter('ignore')
        try:
            res = f(**kw)
        except ValueError as ex:
            return dict(bad=False, outcome='ValueError: %s' % ex)
        except Exception as ex:
            return dict(bad=True, outcome='%s: %s' % (type(ex).__name__, ex))
    return dict(bad=has_nonfinite(res), outcome=repr(res))


# ----------------------------------------------------------------------------- generic contract fuzzing (bounded fallback)
def random_value(kind, rng, depth=0):
    lattice = [-1.0, 0.0, 0.25, 0.5, 0.75, 1.0, 1.5, 2.0, 3.0]
    if isinstance(kind, kinds.KReal):
        return rng.choice(lattice)
    if isinstance(kind, kinds.KInt):
        return rng.randint(-1, 4)
    if isinstance(kind, kinds.KBool):
        return rng.random() < 0.5
    if isinstance(kind, kinds.KObj):
        return rng.choice(['a', 'b', 'c'])
    if isinstance(kind, kinds.KEnum):
        return rng.choice(kind.members)
    if isinstance(kind, kinds.KOpt):
        return None if rng.random() < 0.3 else random_value(kind.inner, rng, depth)
    if isinstance(kind, kinds.KTup):
        return [random_value(k, rng, depth) for k in kind.items]
    if isinstance(kind, kinds.KList):
        n = kind.n if kind.n is not None else rng.randint(0, 4)
        return [random_value(kind.elem, rng, depth + 1) for _ in range(n)]
    if isinstance(kind, kinds.KArr):
        shape = [s if s is not None else rng.randint(0, 4) for s in kind.shape]
        if len(shape) == 1:
            vals = [random_value(kind.elem, rng) for _ in range(shape[0])]
            if rng.random() < 0.5 and isinstance(kind.elem, kinds.KReal):
                vals = sorted(vals)
            return vals
        rows = []
        for _ in range(shape[0]):
            r = [random_value(kind.elem, rng) for _ in range(shape[1])]
            if shape[1] == 2 and isinstance(kind.elem, kinds.KReal) and rng.random() < 0.8:
                r = sorted(r)
            rows.append(r)
        if shape[1] == 2 and rng.random() < 0.7:
            rows.sort()
        return rows
    return None


def fuzz_contract(qual, seed=0, n=300, registry=None, want_labels=None):
    """random small inputs satisfying the precondition; returns the first input on which the real function violates its contract (when
    `want_labels` is given: preferably one that falsifies a postcondition with one of these labels; the first failing input otherwise)"""
    import random
    from . import pools
    registry = registry or contract.Registry()
    c = registry.get(qual)
    if c is None:
        return None, 0
    rng = random.Random('%s-%d' % (qual, seed))
    tried = 0
    first_hit = None
    gens = list(pools.function_inputs(c.target, seed)) or None
    if gens is None and any(isinstance(k, kinds.KObj) for k in c.param_kinds.values()):
        return None, 0
    for k in range(n):
        if gens is not None:
            if k >= len(gens):
                break
            inp = gens[k]
        else:
            inp = {}
            size = None
            for p in c.param_names:
                kd = c.param_kinds.get(p)
                if kd is None:
                    continue
                v = random_value(kd, rng)
                inp[p] = v
            # arrays of one call usually have to agree in length: equalise 1-D arrays half of the time
            arrs = [p for p in inp if isinstance(inp[p], list) and inp[p] and not isinstance(inp[p][0], list)]
            if len(arrs) > 1 and rng.random() < 0.7:
                m = min(len(inp[p]) for p in arrs)
                for p in arrs:
                    inp[p] = inp[p][:m]
        try:
            r = replay_function(c.target, inp, registry)
        except Exception:
            continue
        if r.get('pre_ok'):
            tried += 1
            if r['confirmed']:
                if not want_labels:
                    return dict(inputs=inp, native=r), tried
                bad = [f_[5:-9] for f_ in r['failed'] if f_.startswith('post:') and f_.endswith(' is false')]
                if any(b_ == w_ or b_.startswith(w_ + '.') or w_.startswith(b_ + '.') for b_ in bad for w_ in want_labels):
                    return dict(inputs=inp, native=r), tried
                first_hit = first_hit or dict(inputs=inp, native=r)
    return first_hit, tried


def fresh_outcome(qual, inp):
    """repr of what the real function returns / raises on `inp` in a FRESH interpreter (no earlier call in the process), formatted like the
    `cpython` side of the translation cross-check; None when the subprocess fails"""
    import json, subprocess, sys
    code = ("import json, sys, warnings\n"
            "warnings.simplefilter('ignore')\n"
            "sys.path.insert(0, %r)\n"
            "from pyvc import native, contract\n"
            "c = contract.Registry().get(%r)\n"
            "inp = json.loads(sys.stdin.read())\n"
            "f = native.real_function(c.target)\n"
            "kw = {p: native.to_native(c.param_kinds[p], inp[p]) for p in c.param_names if p in inp}\n"
            "try:\n    want = ('return', f(**kw))\n"
            "except Exception as ex:\n    want = ('raise', type(ex).__name__)\n"
            "print('OUT:' + repr(want)[:200])\n") % (os.path.dirname(os.path.dirname(os.path.abspath(__file__))), qual)
    try:
        r = subprocess.run([sys.executable, '-c', code], input=json.dumps(inp), capture_output=True, text=True, timeout=120, env=dict(os.environ))
        for line in r.stdout.splitlines():
            if line.startswith('OUT:'):
                return r.stdout[r.stdout.index('OUT:') + 4:].strip()
    except Exception:
        return None
    return None


def reach_witness(qual, seed=0, n=300, registry=None):
    """an input that satisfies the precondition natively, on which the real function returns normally and its contract holds: a concrete
    witness that the hypotheses of the function's obligations are satisfiable (used when the solver cannot build a model of quantified
    hypotheses for the cover / canary checks)"""
    import random
    from . import pools
    registry = registry or contract.Registry()
    c = registry.get(qual)
    if c is None:
        return None
    rng = random.Random('w-%s-%d' % (qual, seed))
    gens = list(pools.function_inputs(c.target, seed)) or None
    if gens is None and any(isinstance(k, kinds.KObj) for k in c.param_kinds.values()):
        return None
    for k in range(n):
        if gens is not None:
            if k >= len(gens):
                break
            inp = gens[k]
        else:
            inp = {p_: random_value(c.param_kinds[p_], rng) for p_ in c.param_names if c.param_kinds.get(p_) is not None}
            arrs = [p_ for p_ in inp if isinstance(inp[p_], list) and inp[p_] and not isinstance(inp[p_][0], list)]
            if len(arrs) > 1 and rng.random() < 0.7:
                m = min(len(inp[p_]) for p_ in arrs)
                for p_ in arrs:
                    inp[p_] = inp[p_][:m]
        try:
            r = replay_function(c.target, inp, registry)
        except Exception:
            continue
        if r.get('pre_ok') and not r['confirmed'] and not r.get('detail') and str(r.get('outcome', '')).startswith("('return'"):
            return inp
    return None


# ----------------------------------------------------------------------------- translation cross-check (engine in concrete mode vs CPython)
def unlift(v, st):
    import fractions
    import numpy as np
    if isinstance(v, Ref):
        o = st.heap[v.oid]
        if isinstance(o, ArrV):
            if not all(isinstance(x, int) for x in o.shape):
                raise ValueError('symbolic shape in concrete mode')
            if o.ndim == 1:
                return np.array([unlift(o.at(i), st) for i in range(o.shape[0])], dtype={'real': float, 'int': int, 'bool': bool}.get(o.dtype, object))
            return np.array([[unlift(o.at(i, j), st) for j in range(o.shape[1])] for i in range(o.shape[0])],
                            dtype={'real': float, 'int': int, 'bool': bool}.get(o.dtype, object)).reshape(o.shape)
        if isinstance(o, ListV):
            return [unlift(x, st) for x in o.items]
        if isinstance(o, SymListV):
            return [unlift(o.at(i), st) for i in range(int(o.n))]
        if isinstance(o, DictV):
            return {k: unlift(x, st) for k, x in o.items.items()}
    if isinstance(v, tuple):
        return tuple(unlift(x, st) for x in v)
    if isinstance(v, fractions.Fraction):
        return float(v)
    if is_z3(v):
        c = concrete(v)
        if c is None:
            raise ValueError('symbolic value in concrete mode: %s' % v)
        return float(c) if isinstance(c, fractions.Fraction) else c
    if v is NAN:
        return float('nan')
    if v is INF:
        return float('inf')
    return v


def results_agree(a, b):
    import numpy as np
    if isinstance(a, (tuple, list)) and isinstance(b, (tuple, list)):
        return len(a) == len(b) and all(results_agree(x, y) for x, y in zip(a, b))
    if isinstance(a, np.ndarray) or isinstance(b, np.ndarray):
        a, b = np.asarray(a), np.asarray(b)
        if a.shape != b.shape:
            return False
        if a.dtype == object or b.dtype == object:
            return a.tolist() == b.tolist()
        return bool(np.allclose(a.astype(float), b.astype(float), rtol=1e-9, atol=1e-9, equal_nan=True))
    if a is None or b is None:
        return a is None and b is None
    if isinstance(a, (str, bool)) or isinstance(b, (str,)):
        return a == b
    try:
        a, b = float(a), float(b)
        return (a != a and b != b) or abs(a - b) <= 1e-9 * max(1.0, abs(a), abs(b))
    except Exception:
        return a == b


def concrete_run(qual, inputs, registry):
    """execute the REAL body of `qual` with the symbolic executor on literal inputs (callees run natively)"""
    from . import calls as _calls
    c = registry.get(qual)
    mod, fd = frontend.function(c.target)
    eng = Engine(mod, fd, c.target, registry, concrete=True)
    st = St()
    env = {}
    import ast
    dflt = frontend.defaults(fd)
    kw = {p: to_native(c.param_kinds[p], inputs[p]) for p in c.param_names if p in inputs}
    for p in frontend.params(fd)[0]:
        if p in kw:
            env[p] = lift(kw[p], st)
        elif p in dflt:
            env[p] = ast.literal_eval(dflt[p])
    st.env = env
    outs = eng.run_body(frontend.docstring_stripped(fd), st)
    if len(outs) != 1:
        raise ValueError('%d paths in concrete mode' % len(outs))
    st1, out = outs[0]
    if out[0] == 'raise':
        return ('raise', out[1])
    return ('return', unlift(out[1], st1))


def crosscheck(qual, seed, n, registry):
    """-> (cases, mismatches) comparing concrete-mode execution of the engine with CPython on inputs satisfying the precondition"""
    import random
    from . import pools
    c = registry.get(qual)
    rng = random.Random('x-%s-%d' % (qual, seed))
    f = real_function(c.target)
    cases, bad, tried = 0, [], 0
    gens = list(pools.function_inputs(c.target, seed))
    rng.shuffle(gens)

    def opaque(k):
        return isinstance(k, kinds.KObj) or (isinstance(k, (kinds.KOpt, kinds.KList)) and opaque(getattr(k, 'inner', None) or getattr(k, 'elem', None)))
    if not gens and any(opaque(k) for k in c.param_kinds.values()):
        return 0, []        # parameters of an abstract sort have no native rendering without a pool
    while cases < n and tried < 25 * n:
        tried += 1
        if gens:
            inp = gens.pop()
        else:
            inp = {p: random_value(c.param_kinds[p], rng) for p in c.param_names if c.param_kinds.get(p) is not None}
            arrs = [p for p in inp if isinstance(inp[p], list) and inp[p] and not isinstance(inp[p][0], list)]
            if len(arrs) > 1:
                m = min(len(inp[p]) for p in arrs)
                for p in arrs:
                    inp[p] = inp[p][:m]
        try:
            r = replay_function(c.target, inp, registry)
        except Exception:
            continue
        if not r.get('pre_ok'):
            continue
        kw = {p: to_native(c.param_kinds[p], inp[p]) for p in c.param_names if p in inp}
        with warnings.catch_warnings():
            warnings.simplefilter('ignore')
            try:
                want = ('return', f(**kw))
            except Exception as ex:
                want = ('raise', type(ex).__name__)
        try:
            got = concrete_run(c.target, inp, registry)
        except OutOfSubset:
            continue        # the concrete interpreter has no answer for this input (e.g. a library model without a concrete meaning): not a mismatch
        except Exception as ex:
            got = ('engine-error', '%s: %s' % (type(ex).__name__, str(ex)[:120]))
        cases += 1
        same = got[0] == want[0] and (got[1] == want[1] if got[0] == 'raise' else results_agree(got[1], want[1]))
        if not same:
            bad.append(dict(inputs=inp, engine=repr(got)[:200], cpython=repr(want)[:200]))
    return cases, bad


def run_witness(w, bad_expr):
    """call the real function named in a known-finding witness; returns (still_bad, repr of the result)"""
    import math
    import numpy as np
    f = real_function(w['call'])
    args = [np.array(a, dtype=float) if i in w.get('arrays', []) else a for i, a in enumerate(w.get('args', []))]
    with warnings.catch_warnings():
        warnings.simplefilter('ignore')
        try:
            result = f(*args, **w.get('kwargs', {}))
        except Exception as ex:
            result = ex
    bad = bool(eval(bad_expr, {'result': result, 'math': math, 'np': np, 'isinstance': isinstance, 'Exception': Exception}))
    return bad, repr(result)


# ----------------------------------------------------------------------------- native instances of lemmas (vacuity guard + bounded test)
def lemma_instances(lem, registry, seed=0, tries=400, want=5):
    calls.NATIVE_MODE[0] = True
    try:
        return _lemma_instances(lem, registry, seed, tries, want)
    finally:
        calls.NATIVE_MODE[0] = False


def _lemma_instances(lem, registry, seed=0, tries=400, want=5):
    """random small inputs; those satisfying every `requires` are run through the lemma body with the REAL functions.
    -> dict(tried, satisfied, violated: [...])"""
    import random
    from . import calls as _calls
    rng = random.Random('lemma-%s-%d' % (lem.name, seed))
    if any(isinstance(k, kinds.KObj) for k in lem.param_kinds.values()):
        return dict(tried=0, satisfied=0, violated=[], note='parameters of an abstract sort: not instantiable natively')
    satisfied, violated, tried = 0, [], 0
    while tried < tries and satisfied < want:
        tried += 1
        inp = {p: random_value(lem.param_kinds[p], rng) for p in lem.param_names}
        # related arrays usually share their length
        arrs = [p for p in inp if isinstance(inp[p], list)]
        if len(arrs) > 1 and rng.random() < 0.8:
            m = min(len(inp[p]) for p in arrs)
            for p in arrs:
                inp[p] = inp[p][:m]
        eng = contract.spec_engine(lem.sidecar, lem.fd, 'lemma.' + lem.name, registry)
        eng.spec_mode = False
        eng.lemma_mode = True
        eng.concrete = True
        st = St()
        try:
            st.env = {p: lift(to_native(lem.param_kinds[p], inp[p]), st) for p in lem.param_names}
            outs = eng.run_body(lem.body, st)
        except _calls.LemmaInstanceDiscarded:
            continue
        except Exception:
            continue
        if any(o[1][0] == 'raise' for o in outs):
            continue
        satisfied += 1
        for label, ok in eng.instance_results:
            if ok is False:
                violated.append(dict(inputs=inp, clause=label))
    return dict(tried=tried, satisfied=satisfied, violated=violated[:3])


def replay_lemma(name, inputs, registry=None):
    """run one lemma instance natively (real functions): confirmed iff every `requires` holds and some `ensures` is false"""
    from . import calls as _calls
    registry = registry or contract.Registry()
    lem = [l for l in registry.lemmas if l.name == name][0]
    calls.NATIVE_MODE[0] = True
    try:
        eng = contract.spec_engine(lem.sidecar, lem.fd, 'lemma.' + lem.name, registry)
        eng.spec_mode = False
        eng.lemma_mode = True
        eng.concrete = True
        st = St()
        try:
            st.env = {p: lift(to_native(lem.param_kinds[p], inputs.get(p)), st) for p in lem.param_names}
            outs = eng.run_body(lem.body, st)
        except _calls.LemmaInstanceDiscarded:
            return dict(confirmed=False, detail='the counter-model does not satisfy the lemma preconditions natively (floating point / abstraction)')
        except Exception as ex:
            return dict(confirmed=False, detail='lemma instance not executable natively: %s' % str(ex)[:200])
        bad = [l for l, ok in eng.instance_results if ok is False]
        return dict(confirmed=bool(bad), failed=bad, detail='')
    finally:
        calls.NATIVE_MODE[0] = False
