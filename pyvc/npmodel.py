"""Model contracts for the NumPy / SciPy / stdlib functions used by functions under contract.

Every entry is an *assumed* contract on a dependency (listed in evidence as trusted base, and
compared with the real library, in their concrete branch, by the translation cross-check).  Definitional where possible.
"""
import os

import z3

from .values import *       # noqa
from .symex import OutOfSubset, new_ref, SliceV, NAN, INF
from . import calls

LIB = {}
USED = set()


def lib(*names):
    def deco(f):
        for n in names:
            def wrapped(eng, st, args, kwargs, f=f, n=n):
                USED.add(n)
                yield from f(eng, st, args, kwargs)
            LIB[n] = wrapped
        return f
    return deco


def arr_of(eng, st, v):
    """ArrV view of a value (array ref, list ref, tuple, scalar)"""
    if isinstance(v, Ref):
        o = st.heap[v.oid]
        if isinstance(o, ArrV):
            return o
        if isinstance(o, ListV):
            return list_arr(eng, st, list(o.items))
        if isinstance(o, SymListV):
            if o.elem == 'tuple':
                # np.array(list of k-tuples): an (n, k) array; k is read off one symbolic element
                k = len(o.at(z3.Int(fresh_name('w'))))
                return ArrV((o.n, k), lambda i, j, o=o, k=k: eng.select(list(o.at(i)), j), dtype_of(list(o.at(z3.Int(fresh_name('w'))))))
            return ArrV((o.n,), o.at, o.elem if o.elem in ('real', 'int', 'bool') else 'obj')
    if isinstance(v, (tuple, list)):
        return list_arr(eng, st, list(v))
    return None


def list_arr(eng, st, items):
    if items and all(isinstance(x, Ref) and isinstance(st.heap[x.oid], SymListV) for x in items):
        rs = [st.heap[x.oid] for x in items]
        return ArrV((len(rs), rs[0].n), lambda i, j, rs=rs: eng.select([r.at(j) for r in rs], i), 'real')
    if items and all(isinstance(x, Ref) and isinstance(st.heap[x.oid], ArrV) and st.heap[x.oid].ndim == 1 for x in items):
        rs = [st.heap[x.oid] for x in items]
        if not all(isinstance(r.shape[0], int) for r in rs):
            return ArrV((len(rs), rs[0].shape[0]), lambda i, j, rs=rs: eng.select([r.at(j) for r in rs], i), rs[0].dtype)
    rows = []
    for x in items:
        sub = calls.seq_items(eng, x, st) if isinstance(x, (Ref, tuple)) else None
        rows.append(sub)
    if items and all(r is not None for r in rows):
        w = len(rows[0])
        return ArrV((len(items), w), lambda i, j, rows=rows: eng.select([eng.select(r, j) for r in rows], i), dtype_of(sum(rows, [])))
    return ArrV((len(items),), lambda i, items=items: eng.select(items, i), dtype_of(items))


def dtype_of(items):
    if items and all(is_bool_like(x) for x in items):
        return 'bool'
    if items and all(is_int_like(x) for x in items):
        return 'int'
    return 'real'


def map1(eng, st, v, f, dtype=None):
    a = arr_of(eng, st, v)
    if a is None:
        return f(v)
    res = new_ref(st, ArrV(a.shape, lambda *i, a=a: f(a.at(*i)), dtype or a.dtype))
    info = eng.compress_info.get(v.oid) if isinstance(v, Ref) else None
    if info is not None and callable(info.get('pointwise')) and 'phi' in info:
        pw = info['pointwise']
        eng.compress_info[res.oid] = dict(info, src=ArrV(info['src'].shape, lambda i, pw=pw: f(pw(i)), dtype or a.dtype), pointwise=lambda i, pw=pw: f(pw(i)))
    return res


# ----------------------------------------------------------------------------- indexing
def getitem(eng, st, ref, o, idx):
    if not isinstance(idx, tuple):
        idx = (idx,)
    # boolean mask / fancy index
    if len(idx) == 1 and isinstance(idx[0], Ref) and idx[0].oid in eng.index_masks:
        idx = (eng.index_masks[idx[0].oid],)
    if len(idx) == 1 and isinstance(idx[0], Ref):
        m = arr_of(eng, st, idx[0])
        if m.dtype == 'bool':
            r = compress(eng, st, o, m)
            if r.oid in eng.compress_info and o.ndim == 1:
                eng.compress_info[r.oid]['pointwise'] = lambda i, o=o: o.at(i)
            return r
        # integer (fancy) index array: every entry must be a valid position of the first axis
        n0 = o.shape[0]
        if m.ndim != 1:
            raise OutOfSubset('fancy index array with more than one dimension')
        if isinstance(m.shape[0], int):
            goal = and_(*[and_(le(neg(n0), m.at(k)), lt(m.at(k), n0)) for k in range(m.shape[0])]) if m.shape[0] else True
        else:
            kk = z3.Int(fresh_name('fi'))
            goal = z3.ForAll([kk], z3.Implies(z3.And(0 <= kk, kk < to_z3(m.shape[0])),
                                               z3.And(to_z3(neg(n0)) <= to_z3(m.at(kk)), to_z3(m.at(kk)) < to_z3(n0))))
        eng.oblige('safe', 'fancy-index', st, goal)
        wrap = lambda j, n0=n0: ite(lt(j, 0), add(j, n0), j)
        return new_ref(st, ArrV(tuple(m.shape) + tuple(o.shape[1:]), lambda i, *r, o=o, m=m: o.at(wrap(m.at(i)), *r), o.dtype))
    if len(idx) == 2 and all(isinstance(x, Ref) for x in idx):
        m = arr_of(eng, st, idx[0])
        info = eng.compress_info.get(idx[1].oid)
        if m.dtype == 'bool' and info is not None and info['mask'] is m and callable(info.get('pointwise')):
            # A[m, B[m]]: row-wise selection under the same mask (same-mask fusion, DESIGN Appendix A)
            pw_b = info['pointwise']
            w = o.shape[1]
            if isinstance(o.shape[0], int):
                eng.oblige('safe', 'index', st, and_(*[implies(to_bool(m.at(r)), and_(le(neg(w), pw_b(r)), lt(pw_b(r), w))) for r in range(o.shape[0])]))
            else:
                ii = z3.Int(fresh_name('i'))
                eng.oblige('safe', 'index', st, z3.ForAll([ii], z3.Implies(z3.And(0 <= ii, ii < to_z3(o.shape[0]), to_z3(to_bool(m.at(ii)))),
                                                                            z3.And(to_z3(neg(w)) <= to_z3(pw_b(ii)), to_z3(pw_b(ii)) < to_z3(w)))))
            norm = lambda j, w=w: ite(lt(j, 0), add(j, w), j)
            inner = compress(eng, st, ArrV((o.shape[0],), lambda i, o=o, pw_b=pw_b: o.at(i, norm(pw_b(i))), o.dtype), m)
            eng.compress_info[inner.oid]['pointwise'] = lambda i, o=o, pw_b=pw_b: o.at(i, norm(pw_b(i)))
            return inner
        raise OutOfSubset('fancy indexing with two index arrays')
    if len(idx) > o.ndim:
        raise OutOfSubset('too many indices')
    # mixture of ints / slices
    fixed = {}
    dims = []
    for d in range(o.ndim):
        ix = idx[d] if d < len(idx) else SliceV(None, None)
        if isinstance(ix, SliceV):
            step = 1
            if ix.step is not None:
                step = concrete(ix.step)
                if step is None or int(step) != step or step < 1:
                    raise OutOfSubset('slice step that is not a positive integer constant')
                step = int(step)
            n = o.shape[d]
            lo = 0 if ix.lo is None else clip_index(ix.lo, n)
            hi = n if ix.hi is None else clip_index(ix.hi, n)
            extent = maxv(sub(hi, lo), 0) if not (isinstance(lo, int) and lo == 0 and hi is n) else n
            if step > 1:
                extent = floordiv(add(extent, step - 1), step)        # ceil(extent / step) cells: lo, lo + step, ...
            dims.append((d, lo, extent, step))
        elif isinstance(ix, Ref):
            raise OutOfSubset('mixed fancy indexing')
        else:
            fixed[d] = eng.norm_index(ix, o.shape[d], st)
    if not dims:
        return o.at(*[fixed[d] for d in range(o.ndim)])

    def at(*i, o=o, fixed=fixed, dims=dims):
        full = [None] * o.ndim
        for d, v in fixed.items():
            full[d] = v
        for (d, lo, _, step), k in zip(dims, i):
            kk = mul(k, step) if step > 1 else k
            full[d] = add(kk, lo) if not (isinstance(lo, int) and lo == 0) else kk
        return o.at(*full)
    return new_ref(st, ArrV([n for _, _, n, _ in dims], at, o.dtype, 'view:' + o.origin if o.origin != 'fresh' else 'fresh'))


def clip_index(i, n):
    """python slice bound normalisation: negative counts from the end, clipped to [0, n]"""
    i = to_num(i)
    ic = concrete(i)
    if ic is not None and isinstance(n, int):
        ic = int(ic)
        if ic < 0:
            ic += n
        return max(0, min(n, ic))
    i2 = ite(lt(i, 0), add(i, n), i)
    return ite(lt(i2, 0), 0, ite(lt(n, i2), n, i2))


def _apps_with(expr, var, limit=2):
    """uninterpreted function applications inside `expr` that take `var` directly as an argument (usable as triggers)"""
    out, seen = [], set()

    def walk(t):
        if t.get_id() in seen or len(out) >= limit or z3.is_quantifier(t):
            return
        seen.add(t.get_id())
        if z3.is_app(t):
            if t.decl().kind() == z3.Z3_OP_UNINTERPRETED and t.num_args() > 0 and any(a.eq(var) for a in t.children()):
                out.append(t)
                return
            for c in t.children():
                walk(c)
    if z3.is_expr(expr):
        walk(expr)
    return out


def compress(eng, st, o, m):
    """a[mask] : the sub-sequence of cells whose mask is true (fresh array)"""
    n = o.shape[0]
    if isinstance(n, int):
        ms = [to_bool(m.at(k)) for k in range(n)]
        if o.ndim != 1:
            if m.ndim == 1 and all(isinstance(b, bool) for b in ms):
                keep = [k for k in range(n) if ms[k]]          # concrete 1-D mask on an N-D array: the selected rows
                return new_ref(st, ArrV((len(keep),) + tuple(o.shape[1:]), lambda i, *r, o=o, keep=keep: o.at(eng.select(keep, i), *r), o.dtype))
            raise OutOfSubset('boolean mask on 2-D array')
        # concrete length: enumerate subsets symbolically via prefix counts
        if all(isinstance(b, bool) for b in ms):
            items = [o.at(k) for k in range(n) if ms[k]]
            res_ref = new_ref(st, ArrV((len(items),), lambda i, items=items: eng.select(items, i), o.dtype))
            eng.compress_info[res_ref.oid] = {'src': o, 'mask': m}
            return res_ref
        cnt = 0
        ranks = []
        for k in range(n):
            ranks.append(cnt)
            cnt = add(cnt, ite(ms[k], 1, 0))

        def at(i, o=o, ms=ms, ranks=ranks):
            r = o.at(n - 1)
            for k in range(n - 2, -1, -1):
                r = ite(and_(ms[k], eq(ranks[k], i)), o.at(k), r)
            return r
        res_ref = new_ref(st, ArrV((cnt,), at, o.dtype))
        eng.compress_info[res_ref.oid] = {'src': o, 'mask': m}
        return res_ref
    if m.ndim != 1:
        raise OutOfSubset('boolean mask with more than one dimension')
    rest = tuple(o.shape[1:])        # a 1-D mask on an N-D array selects rows
    # symbolic length: phi strictly increasing onto the true cells, rank its inverse (DESIGN 2.3)
    cached = eng.mask_cache.get(id(m))
    if cached is not None and cached[0] is m:
        _, cnt, phi, rank = cached
        res = ArrV((cnt,) + rest, lambda j, *r, o=o, phi=phi: o.at(phi(to_z3(j)), *r), o.dtype)
        res_ref = new_ref(st, res)
        eng.compress_info[res_ref.oid] = {'src': o, 'mask': m, 'phi': phi, 'rank': rank, 'cnt': cnt}
        return res_ref
    cnt = z3.Int(fresh_name('cnt'))
    phi = z3.Function(fresh_name('phi'), z3.IntSort(), z3.IntSort())
    rank = z3.Function(fresh_name('rank'), z3.IntSort(), z3.IntSort())
    eng.mask_cache[id(m)] = (m, cnt, phi, rank)
    k, k2, i = z3.Int(fresh_name('k')), z3.Int(fresh_name('k2')), z3.Int(fresh_name('i'))
    mk = lambda t: to_z3(to_bool(m.at(t)))
    st.assume(and_(cnt >= 0, cnt <= n))
    st.assume(z3.ForAll([k], z3.Implies(z3.And(0 <= k, k < cnt), z3.And(0 <= phi(k), phi(k) < n, mk(phi(k)), rank(phi(k)) == k),),
                        patterns=[phi(k)]))
    st.assume(z3.ForAll([k, k2], z3.Implies(z3.And(0 <= k, k < k2, k2 < cnt), phi(k) < phi(k2)), patterns=[z3.MultiPattern(phi(k), phi(k2))]))
    # the rank of a selected cell: triggered by rank(i) and also by the array cells the mask reads at i (so that a fact about
    # a particular cell of the masked array is enough to learn where that cell lands)
    pats = [rank(i)]
    for t in (_apps_with(mk(i), i) if getattr(eng, 'mask_triggers', False) else []):      # opt-in per contract (mask_triggers=True)
        pats.append(t)
    st.assume(z3.ForAll([i], z3.Implies(z3.And(0 <= i, i < n, mk(i)), z3.And(0 <= rank(i), rank(i) < cnt, phi(rank(i)) == i)),
                        patterns=pats))
    res = ArrV((cnt,) + rest, lambda j, *r, o=o, phi=phi: o.at(phi(to_z3(j)), *r), o.dtype)
    res_ref = new_ref(st, res)
    eng.compress_info[res_ref.oid] = {'src': o, 'mask': m, 'phi': phi, 'rank': rank, 'cnt': cnt}
    return res_ref


def setitem(eng, st, ref, o, idx, v):
    if not isinstance(idx, tuple):
        idx = (idx,)
    va = arr_of(eng, st, v)
    if len(idx) == 1 and isinstance(idx[0], Ref) and idx[0].oid in eng.index_masks:
        idx = (eng.index_masks[idx[0].oid],)
    if len(idx) == 1 and isinstance(idx[0], Ref):
        m = arr_of(eng, st, idx[0])
        if m.dtype != 'bool':
            raise OutOfSubset('fancy-index store')
        if va is not None:
            # same-mask fusion (DESIGN Appendix A): t[m] = e where e was compressed by the same mask object m
            info = eng.compress_info.get(v.oid) if isinstance(v, Ref) else None
            if (info is None or info['mask'] is not m or not callable(info.get('pointwise'))) and m.ndim == 1 and isinstance(m.shape[0], int):
                # concrete length: cell i receives the rank(i)-th value, rank(i) = number of selected cells before i
                ranks, cnt = [], 0
                for k in range(m.shape[0]):
                    ranks.append(cnt)
                    cnt = add(cnt, ite(to_bool(m.at(k)), 1, 0))
                eng.oblige('safe', 'mask-store-length', st, eq(va.shape[0], cnt))

                def at(i, o=o, m=m, va=va, ranks=ranks):
                    ic = concrete(i) if not isinstance(i, int) else i
                    def cell(k):
                        mk = to_bool(m.at(k))
                        if isinstance(mk, bool):
                            return va.at(ranks[k]) if mk else o.at(k)
                        return ite(mk, va.at(ranks[k]), o.at(k))
                    if ic is not None:
                        return cell(int(ic))
                    r = o.at(i)
                    for k in range(m.shape[0]):
                        r = ite(eq(i, k), cell(k), r)
                    return r
                st.heap[ref.oid] = ArrV(o.shape, at, o.dtype, o.origin)
                return
            if info is None or info['mask'] is not m or not callable(info.get('pointwise')):
                raise OutOfSubset('masked store of an array value that is not built pointwise from the same mask')
            pw = info['pointwise']
            st.heap[ref.oid] = ArrV(o.shape, lambda *i, o=o, m=m, pw=pw: ite(to_bool(m.at(*i[:m.ndim])), pw(*i), o.at(*i)),
                                    o.dtype, o.origin)
            return
        st.heap[ref.oid] = ArrV(o.shape, lambda *i, o=o, m=m, v=v: ite(to_bool(m.at(*i[:m.ndim])), v, o.at(*i)), o.dtype, o.origin)
        return
    # ints / slices
    conds = []
    for d in range(o.ndim):
        ix = idx[d] if d < len(idx) else SliceV(None, None)
        if isinstance(ix, SliceV):
            if ix.step is not None:
                raise OutOfSubset('slice step')
            n = o.shape[d]
            lo = 0 if ix.lo is None else clip_index(ix.lo, n)
            hi = n if ix.hi is None else clip_index(ix.hi, n)
            conds.append(('slice', lo, hi))
        else:
            conds.append(('at', eng.norm_index(ix, o.shape[d], st)))

    sl_dims = [d for d, c in enumerate(conds) if c[0] == 'slice']

    def at(*i, o=o, conds=conds, v=v, va=va):
        hit = True
        for d, c in enumerate(conds):
            if c[0] == 'at':
                hit = and_(hit, eq(i[d], c[1]))
            else:
                hit = and_(hit, le(c[1], i[d]), lt(i[d], c[2]))
        if va is None:
            newv = v
        else:
            sub_idx = [sub(i[d], conds[d][1]) for d in sl_dims][-va.ndim:]
            newv = va.at(*sub_idx)
        return ite(hit, newv, o.at(*i))
    dt = o.dtype
    st.heap[ref.oid] = ArrV(o.shape, at, dt, o.origin)


# ----------------------------------------------------------------------------- reductions
def reduce_minmax(eng, st, v, name):
    a = arr_of(eng, st, v)
    if a is None:
        yield v, st
        return
    n = a.shape[0]
    if a.ndim == 1 and isinstance(n, int):
        if n == 0:
            yield Raised('ValueError'), st
            return
        r = a.at(0)
        for k in range(1, n):
            r = minv(r, a.at(k)) if name == 'min' else maxv(r, a.at(k))
        yield r, st
        return
    if a.ndim == 2 and all(isinstance(s, int) for s in a.shape):
        if a.shape[0] * a.shape[1] == 0:
            yield Raised('ValueError'), st
            return
        cells = [a.at(i, j) for i in range(a.shape[0]) for j in range(a.shape[1])]
        r = cells[0]
        for x in cells[1:]:
            r = minv(r, x) if name == 'min' else maxv(r, x)
        yield r, st
        return
    # symbolic size: r is a bound that is attained (DESIGN 2.3)
    size = a.shape[0]
    for s in a.shape[1:]:
        size = mul(size, s)
    st_e = st.fork()
    if eng.feasible(st, eq(size, 0)):
        st_e.assume(eq(size, 0))
        yield Raised('ValueError'), st_e
    st.assume(lt(0, size))
    if not eng.feasible(st):
        return
    r = z3.Real(fresh_name(name)) if a.dtype == 'real' else z3.Int(fresh_name(name))
    idxs = [z3.Int(fresh_name('i')) for _ in a.shape]
    rng = and_(*[and_(le(0, i), lt(i, s)) for i, s in zip(idxs, a.shape)])
    cell = to_z3(to_num(a.at(*idxs)))
    bound = (r <= cell) if name == 'min' else (cell <= r)
    st.assume(z3.ForAll(idxs, z3.Implies(rng, bound)))
    wit = [z3.Int(fresh_name('w')) for _ in a.shape]
    st.assume(and_(*[and_(le(0, w), lt(w, s)) for w, s in zip(wit, a.shape)]))
    st.assume(eq(a.at(*wit), r))
    yield r, st


def reduce_sum(eng, st, a, ref=None):
    n = a.shape[0]
    if a.ndim == 1 and isinstance(n, int):
        r = 0 if a.dtype != 'real' else 0.0
        for k in range(n):
            r = add(r, a.at(k))
        return r
    if a.ndim == 2 and all(isinstance(s, int) for s in a.shape):
        r = 0
        for i in range(a.shape[0]):
            for j in range(a.shape[1]):
                r = add(r, a.at(i, j))
        return r
    from . import sums
    t = sums.sum_of(eng, st, a)
    info = eng.compress_info.get(ref.oid) if ref is not None else None
    if info is not None and 'phi' in info and info['src'].ndim == 1:
        eng.trusted_facts.add('model fact: the sum over a[mask] equals the sum over where(mask, a, 0) (boolean-mask selection, trusted)')
        st.assume(sums.compress_sum_fact(info['src'], info['mask'], a))
    return t


def reduce_anyall(eng, st, a, name):
    n = a.shape[0]
    if all(isinstance(s, int) for s in a.shape):
        import itertools
        cells = [to_bool(a.at(*i)) for i in itertools.product(*[range(s) for s in a.shape])]
        return and_(*cells) if name == 'all' else or_(*cells)
    idxs = [z3.Int(fresh_name('i')) for _ in a.shape]
    rng = and_(*[and_(le(0, i), lt(i, s)) for i, s in zip(idxs, a.shape)])
    cell = to_z3(to_bool(a.at(*idxs)))
    if name == 'all':
        return z3.ForAll(idxs, z3.Implies(rng, cell))
    return z3.Exists(idxs, z3.And(rng, cell))


def axis_of(args, kwargs, ndim):
    ax = kwargs.get('axis', args[0] if args else None)
    if ax is None:
        return None
    ax = concrete(ax)
    if ax < 0:
        ax += ndim
    return int(ax)


def reduce_axis(eng, st, a, axis, op):
    """reduction of a 2-D array along an axis whose extent is concrete; op in {'all','any','sum','max','min'}"""
    if a.ndim != 2:
        raise OutOfSubset('axis reduction of a %d-D array' % a.ndim)
    n = a.shape[axis]
    other = a.shape[1 - axis]
    if not isinstance(n, int):
        if op not in ('min', 'max'):
            raise OutOfSubset('reduction along an axis of symbolic extent')
        eng.oblige('safe', 'reduce-nonempty', st, lt(0, n))
        cell = (lambda i, k, a=a: a.at(i, k)) if axis == 1 else (lambda i, k, a=a: a.at(k, i))
        return new_ref(st, ArrV((other,), extremum_rows(eng, st, cell, other, n, op), 'real'))

    def at(i, a=a):
        cells = [a.at(i, k) if axis == 1 else a.at(k, i) for k in range(n)]
        if op == 'all':
            return and_(*[to_bool(c) for c in cells])
        if op == 'any':
            return or_(*[to_bool(c) for c in cells])
        if op == 'sum':
            r = 0
            for c in cells:
                r = add(r, c)
            return r
        r = cells[0]
        for c in cells[1:]:
            r = maxv(r, c) if op == 'max' else minv(r, c)
        return r
    dt = 'bool' if op in ('all', 'any') else ('int' if a.dtype in ('bool', 'int') else 'real')
    return new_ref(st, ArrV((other,), at, dt))


EXT_RECORDS = []       # row-wise extremum reductions of the current verification task (reset by contract.verify_*)


def extremum_rows(eng, st, cell, other, n, op):
    """row-wise min / max of cell(i, k), 0 <= k < n, for every row 0 <= i < other (n symbolic, > 0): a fresh function m(i)
    that bounds every cell of its row and is attained at some position of it"""
    m = z3.Function(fresh_name('rowmin' if op == 'min' else 'rowmax'), z3.IntSort(), z3.RealSort())
    w = z3.Function(fresh_name('argext'), z3.IntSort(), z3.IntSort())
    i, j = z3.Int(fresh_name('xi')), z3.Int(fresh_name('xj'))

    def define(fact):
        calls.define_fact(eng, st, fact)
    cij = to_z3(to_real(to_num(cell(i, j))))
    bound = (m(i) <= cij) if op == 'min' else (cij <= m(i))
    rng_i = z3.And(0 <= i, i < to_z3(other), 0 < to_z3(n))      # an empty row has no extremum: nothing is said about it
    define(z3.ForAll([i, j], z3.Implies(z3.And(rng_i, 0 <= j, j < to_z3(n)), bound)))
    ciw = to_z3(to_real(to_num(cell(i, w(i)))))
    define(z3.ForAll([i], z3.Implies(rng_i, z3.And(0 <= w(i), w(i) < to_z3(n), m(i) == ciw)), patterns=[m(i)]))
    # cross-instances of the bounding fact at the other reductions' attaining positions (instances of the facts above, nothing new):
    # they let the solver see that two reductions over pointwise-equal cells agree
    same = lambda a, b: (a == b) if (isinstance(a, int) or isinstance(b, int)) else to_z3(a).eq(to_z3(b))
    for r in EXT_RECORDS:
        if r['op'] != op or not (same(r['n'], n) and same(r['other'], other)):
            continue        # only reductions over rectangles of the same (syntactic) size can agree cell by cell
        for (ma, cella, na, oa), wb in (((m, cell, n, other), r['w']), ((r['m'], r['cell'], r['n'], r['other']), w)):
            c = to_z3(to_real(to_num(cella(i, wb(i)))))
            b = (ma(i) <= c) if op == 'min' else (c <= ma(i))
            define(z3.ForAll([i], z3.Implies(z3.And(0 <= i, i < to_z3(oa), 0 <= wb(i), wb(i) < to_z3(na)), b), patterns=[z3.MultiPattern(ma(i), wb(i))]))
    EXT_RECORDS.append(dict(op=op, m=m, w=w, cell=cell, n=n, other=other))
    return lambda t, m=m: m(to_z3(t))


def arr_method(eng, st, ref, o, name, args, kwargs):
    if name in ('min', 'max', 'sum', 'any', 'all') and (args or 'axis' in kwargs):
        ax = axis_of(args, kwargs, o.ndim)
        if ax is not None:
            yield reduce_axis(eng, st, o, ax, name), st
            return
    if name in ('min', 'max'):
        if args or kwargs:
            raise OutOfSubset('axis argument of %s' % name)
        yield from reduce_minmax(eng, st, ref, name)
    elif name == 'sum':
        if args or kwargs:
            raise OutOfSubset('axis argument of sum')
        yield reduce_sum(eng, st, o, ref), st
    elif name in ('any', 'all'):
        yield reduce_anyall(eng, st, o, name), st
    elif name == 'copy':
        yield new_ref(st, ArrV(o.shape, o.at, o.dtype)), st
    elif name == 'astype':
        t = args[0]
        tname = t.name if isinstance(t, FnV) else str(t)
        if tname.endswith('float') or tname.endswith('float64') or tname.endswith('float32'):
            yield new_ref(st, ArrV(o.shape, lambda *i, o=o: to_real(o.at(*i)), 'real')), st
        elif tname.endswith('int') or tname.endswith('int64'):
            if o.dtype == 'real':
                raise OutOfSubset('astype(int) of a real array')
            yield new_ref(st, ArrV(o.shape, lambda *i, o=o: to_num(o.at(*i)), 'int')), st
        elif tname.endswith('bool'):
            yield new_ref(st, ArrV(o.shape, lambda *i, o=o: to_bool(o.at(*i)), 'bool')), st
        else:
            raise OutOfSubset('astype(%s)' % tname)
    elif name == 'tolist':
        items = calls.seq_items(eng, ref, st)
        if items is None:
            yield new_ref(st, SymListV(o.shape[0], o.at, o.dtype)), st
        else:
            yield new_ref(st, ListV(items)), st
    elif name == 'flatten' and o.ndim == 1:
        yield new_ref(st, ArrV(o.shape, o.at, o.dtype)), st
    elif name == 'flatten' and o.ndim == 2 and isinstance(o.shape[1], int):
        w = o.shape[1]
        if w == 1:
            yield new_ref(st, ArrV((o.shape[0],), lambda i, o=o: o.at(i, 0), o.dtype)), st
        else:
            yield new_ref(st, ArrV((mul(o.shape[0], w),), lambda i, o=o, w=w: o.at(floordiv(i, w), mod(i, w)), o.dtype)), st
    elif name == 'mean':
        for r, st1 in LIB['numpy.mean'](eng, st, [ref], kwargs):
            yield r, st1
    else:
        raise OutOfSubset('ndarray.%s' % name)


# ----------------------------------------------------------------------------- library functions
@lib('numpy.abs', 'numpy.absolute', 'numpy.fabs')
def np_abs(eng, st, args, kwargs):
    yield map1(eng, st, args[0], absv), st


@lib('numpy.min', 'numpy.amin')
def np_min(eng, st, args, kwargs):
    if len(args) > 1 or kwargs:
        a = arr_of(eng, st, args[0])
        yield reduce_axis(eng, st, a, axis_of(args[1:], kwargs, a.ndim), 'min'), st
        return
    yield from reduce_minmax(eng, st, args[0], 'min')


@lib('numpy.max', 'numpy.amax')
def np_max(eng, st, args, kwargs):
    if len(args) > 1 or kwargs:
        a = arr_of(eng, st, args[0])
        yield reduce_axis(eng, st, a, axis_of(args[1:], kwargs, a.ndim), 'max'), st
        return
    yield from reduce_minmax(eng, st, args[0], 'max')


@lib('numpy.sum')
def np_sum(eng, st, args, kwargs):
    a = arr_of(eng, st, args[0])
    if len(args) > 1 or kwargs:
        ax = axis_of(args[1:], kwargs, a.ndim)
        if ax is None:
            raise OutOfSubset('np.sum with keyword arguments')
        yield reduce_axis(eng, st, a, ax, 'sum'), st
        return
    yield reduce_sum(eng, st, a, args[0] if isinstance(args[0], Ref) else None), st


@lib('numpy.any')
def np_any(eng, st, args, kwargs):
    a = arr_of(eng, st, args[0])
    if len(args) > 1 or kwargs:
        yield reduce_axis(eng, st, a, axis_of(args[1:], kwargs, a.ndim), 'any'), st
        return
    yield reduce_anyall(eng, st, a, 'any'), st


@lib('numpy.all')
def np_all(eng, st, args, kwargs):
    a = arr_of(eng, st, args[0])
    if len(args) > 1 or kwargs:
        yield reduce_axis(eng, st, a, axis_of(args[1:], kwargs, a.ndim), 'all'), st
        return
    yield reduce_anyall(eng, st, a, 'all'), st


@lib('numpy.asarray', 'numpy.array', 'numpy.atleast_1d')
def np_array(eng, st, args, kwargs):
    a = arr_of(eng, st, args[0])
    if a is None:
        raise OutOfSubset('np.array of a scalar')
    dt = a.dtype
    if 'dtype' in kwargs:
        t = kwargs['dtype']
        tn = t.name if isinstance(t, FnV) else str(t)
        dt = 'real' if 'float' in tn else ('int' if 'int' in tn else ('bool' if 'bool' in tn else dt))
    f = {'real': to_real, 'int': to_num, 'bool': to_bool, 'obj': lambda x: x}[dt] if dt != a.dtype else (lambda x: x)
    res = new_ref(st, ArrV(a.shape, lambda *i, a=a, f=f: f(a.at(*i)), dt))
    info = eng.compress_info.get(args[0].oid) if isinstance(args[0], Ref) else None
    if info is not None and callable(info.get('pointwise')) and 'phi' in info:
        pw = info['pointwise']
        eng.compress_info[res.oid] = dict(info, src=ArrV(info['src'].shape, lambda i, pw=pw, f=f: f(pw(i)), dt), pointwise=lambda i, pw=pw, f=f: f(pw(i)))
    yield res, st


@lib('numpy.maximum')
def np_maximum(eng, st, args, kwargs):
    yield eng.elementwise(maxv, args[0], args[1], st) if (arr_of(eng, st, args[0]) is not None or arr_of(eng, st, args[1]) is not None) \
        else maxv(args[0], args[1]), st


@lib('numpy.minimum')
def np_minimum(eng, st, args, kwargs):
    yield eng.elementwise(minv, args[0], args[1], st) if (arr_of(eng, st, args[0]) is not None or arr_of(eng, st, args[1]) is not None) \
        else minv(args[0], args[1]), st


@lib('numpy.logical_and')
def np_land(eng, st, args, kwargs):
    if kwargs:
        raise OutOfSubset('logical op with keywords')
    if len(args) == 3:
        # third positional argument of a ufunc is `out`: the result is written into that object
        r = eng.elementwise(lambda x, y: and_(to_bool(x), to_bool(y)), args[0], args[1], st, 'bool')
        out = args[2]
        eng.note_mutation(out, st)
        o = st.heap[out.oid]
        st.heap[out.oid] = ArrV(o.shape, st.heap[r.oid].at, 'bool', o.origin)
        yield out, st
        return
    yield eng.elementwise(lambda x, y: and_(to_bool(x), to_bool(y)), args[0], args[1], st, 'bool'), st


@lib('numpy.logical_or')
def np_lor(eng, st, args, kwargs):
    if kwargs:
        raise OutOfSubset('logical op with keywords')
    if len(args) == 3:
        # third positional argument of a ufunc is `out`: the result is written into that object
        r = eng.elementwise(lambda x, y: or_(to_bool(x), to_bool(y)), args[0], args[1], st, 'bool')
        out = args[2]
        eng.note_mutation(out, st)
        o = st.heap[out.oid]
        st.heap[out.oid] = ArrV(o.shape, st.heap[r.oid].at, 'bool', o.origin)
        yield out, st
        return
    yield eng.elementwise(lambda x, y: or_(to_bool(x), to_bool(y)), args[0], args[1], st, 'bool'), st


@lib('numpy.logical_not')
def np_lnot(eng, st, args, kwargs):
    yield map1(eng, st, args[0], lambda x: not_(to_bool(x)), 'bool'), st


@lib('numpy.less')
def np_less(eng, st, args, kwargs):
    yield _cmp(eng, st, args, lt), st


@lib('numpy.less_equal')
def np_less_equal(eng, st, args, kwargs):
    yield _cmp(eng, st, args, le), st


@lib('numpy.equal')
def np_equal(eng, st, args, kwargs):
    yield _cmp(eng, st, args, eq), st


def _cmp(eng, st, args, f):
    if arr_of(eng, st, args[0]) is None and arr_of(eng, st, args[1]) is None:
        return f(args[0], args[1])
    return eng.elementwise(f, args[0], args[1], st, 'bool')


def _shape_arg(eng, st, v):
    if isinstance(v, tuple):
        return tuple(v)
    items = calls.seq_items(eng, v, st) if isinstance(v, Ref) else None
    if items is not None:
        return tuple(items)
    return (v,)


def _dtype_arg(kwargs, default='real'):
    t = kwargs.get('dtype')
    if t is None:
        return default
    tn = t.name if isinstance(t, FnV) else str(t)
    return 'bool' if 'bool' in tn else ('int' if 'int' in tn else 'real')


@lib('numpy.zeros')
def np_zeros(eng, st, args, kwargs):
    dt = _dtype_arg(kwargs)
    z = {'real': 0.0, 'int': 0, 'bool': False}[dt]
    yield new_ref(st, ArrV(_shape_arg(eng, st, args[0]), lambda *i: z, dt)), st


@lib('numpy.ones')
def np_ones(eng, st, args, kwargs):
    dt = _dtype_arg(kwargs)
    o = {'real': 1.0, 'int': 1, 'bool': True}[dt]
    yield new_ref(st, ArrV(_shape_arg(eng, st, args[0]), lambda *i: o, dt)), st


@lib('numpy.isnan')
def np_isnan(eng, st, args, kwargs):
    v = args[0]
    if v is NAN:
        yield True, st
    elif arr_of(eng, st, v) is None:
        yield False, st
    else:
        yield map1(eng, st, v, lambda x: x is NAN, 'bool'), st


@lib('numpy.floor')
def np_floor(eng, st, args, kwargs):
    yield map1(eng, st, args[0], lambda x: to_real(floor_(x))), st


@lib('numpy.ceil')
def np_ceil(eng, st, args, kwargs):
    yield map1(eng, st, args[0], lambda x: to_real(ceil_(x))), st


@lib('numpy.mod')
def np_mod(eng, st, args, kwargs):
    # numpy mod by zero gives nan/0 with a warning, not an exception: no obligation here, result unspecified for b == 0
    f = lambda x, y: mod(x, y)
    if arr_of(eng, st, args[0]) is None and arr_of(eng, st, args[1]) is None:
        yield f(args[0], args[1]), st
    else:
        yield eng.elementwise(f, args[0], args[1], st), st


@lib('numpy.mean')
def np_mean(eng, st, args, kwargs):
    if len(args) > 1 or kwargs:
        raise OutOfSubset('np.mean with axis')
    a = arr_of(eng, st, args[0])
    n = a.shape[0]
    if a.ndim != 1:
        raise OutOfSubset('np.mean of 2-D')
    if isinstance(n, int) and n == 0:
        yield NAN, st
        return
    # mean of an empty array is nan with a warning (A9: `finite` obligation)
    eng.oblige('safe', 'mean-nonempty', st, lt(0, n))
    yield truediv(reduce_sum(eng, st, a), n), st


@lib('numpy.isfinite')
def np_isfinite(eng, st, args, kwargs):
    # A1: array cells and scalars are mathematical reals, hence finite
    v = args[0]
    if v is NAN or v is INF:
        yield False, st
    else:
        yield map1(eng, st, v, lambda x: True, 'bool'), st


@lib('numpy.diff')
def np_diff(eng, st, args, kwargs):
    a = arr_of(eng, st, args[0])
    if a.ndim == 2 and isinstance(a.shape[1], int) and kwargs.get('axis') in (-1, 1) and len(args) == 1:
        w = a.shape[1]
        yield new_ref(st, ArrV((a.shape[0], max(w - 1, 0)), lambda i, j, a=a: sub(a.at(i, add(j, 1)), a.at(i, j)), a.dtype)), st
        return
    if len(args) > 1 or kwargs:
        raise OutOfSubset('np.diff with arguments')
    if a.ndim != 1:
        raise OutOfSubset('np.diff of a 2-D array')
    n = a.shape[0]
    m = max(n - 1, 0) if isinstance(n, int) else maxv(sub(n, 1), 0)
    yield new_ref(st, ArrV((m,), lambda i, a=a: sub(a.at(add(i, 1)), a.at(i)), a.dtype if a.dtype != 'bool' else 'int')), st


@lib('numpy.argwhere')
def np_argwhere(eng, st, args, kwargs):
    m = arr_of(eng, st, args[0])
    if m.ndim != 1:
        raise OutOfSubset('argwhere of a 2-D array')
    idx = ArrV(m.shape, lambda i: i, 'int')
    c = compress(eng, st, idx, ArrV(m.shape, lambda i, m=m: to_bool(m.at(i)), 'bool'))
    co = st.heap[c.oid]
    yield new_ref(st, ArrV((co.shape[0], 1), lambda i, j, co=co: co.at(i), 'int')), st


@lib('numpy.vstack')
def np_vstack(eng, st, args, kwargs):
    parts = calls.seq_items(eng, args[0], st)
    blocks = []
    for p in parts:
        a = arr_of(eng, st, p)
        if a is None:
            raise OutOfSubset('vstack of a scalar')
        if a.ndim == 1:
            a = ArrV((1, a.shape[0]), lambda i, j, a=a: a.at(j), a.dtype)
        blocks.append(a)
    w = blocks[0].shape[1]
    for b in blocks[1:]:
        eng.oblige('safe', 'vstack-width', st, eq(b.shape[1], w))
    total = 0
    offs = []
    for b in blocks:
        offs.append(total)
        total = add(total, b.shape[0])

    def at(i, j, blocks=blocks, offs=offs):
        ic = concrete(i)
        if ic is not None and all(concrete(o) is not None and concrete(b.shape[0]) is not None for b, o in zip(blocks, offs)):
            for b, o in zip(blocks, offs):          # concrete position: only the block that holds it is read
                if concrete(o) <= ic < concrete(o) + concrete(b.shape[0]):
                    return b.at(int(ic - concrete(o)), j)
            raise IndexError('vstack index out of range')
        r = blocks[-1].at(sub(i, offs[-1]), j)
        for b, o in reversed(list(zip(blocks[:-1], offs[:-1]))):
            r = ite(lt(i, add(o, b.shape[0])), b.at(sub(i, o), j), r)
        return r
    res = ArrV((total, w), at, blocks[0].dtype if all(b.dtype == blocks[0].dtype for b in blocks) else 'real')
    res.blocks = list(blocks)          # the stacked blocks, for models that state facts per block (np.unique)
    yield new_ref(st, res), st


@lib('numpy.concatenate', 'numpy.hstack')
def np_concatenate(eng, st, args, kwargs):
    if len(args) > 1 or (kwargs and not (set(kwargs) == {'axis'} and concrete(kwargs['axis']) == 0)):
        raise OutOfSubset('np.concatenate with axis')
    parts = calls.seq_items(eng, args[0], st)
    if kwargs and parts and all(arr_of(eng, st, p) is not None and arr_of(eng, st, p).ndim == 2 for p in parts):
        yield from np_vstack(eng, st, args, {})          # axis=0 on 2-D arrays stacks the rows
        return
    blocks = []
    for p in parts:
        a = arr_of(eng, st, p)
        if a is None:
            a = ArrV((1,), lambda i, p=p: p, 'real')        # hstack of a scalar
        if a.ndim != 1:
            raise OutOfSubset('concatenate of 2-D arrays')
        blocks.append(a)
    total = 0
    offs = []
    for b in blocks:
        offs.append(total)
        total = add(total, b.shape[0])

    def at(i, blocks=blocks, offs=offs):
        ic = concrete(i)
        if ic is not None and all(concrete(o) is not None and concrete(b.shape[0]) is not None for b, o in zip(blocks, offs)):
            for b, o in zip(blocks, offs):
                if concrete(o) <= ic < concrete(o) + concrete(b.shape[0]):
                    return b.at(int(ic - concrete(o)))
            raise IndexError('concatenate index out of range')
        r = blocks[-1].at(sub(i, offs[-1]))
        for b, o in reversed(list(zip(blocks[:-1], offs[:-1]))):
            r = ite(lt(i, add(o, b.shape[0])), b.at(sub(i, o)), r)
        return r
    dt = blocks[0].dtype if all(b.dtype == blocks[0].dtype for b in blocks) else 'real'
    yield new_ref(st, ArrV((total,), at, dt)), st


@lib('numpy.allclose')
def np_allclose(eng, st, args, kwargs):
    """|a - b| <= atol + rtol * |b| for every cell (defaults rtol=1e-5, atol=1e-8)"""
    rtol = kwargs.get('rtol', 1e-05)
    atol = kwargs.get('atol', 1e-08)
    a, b = args[0], args[1]
    f = lambda x, y: le(absv(sub(x, y)), add(atol, mul(rtol, absv(y))))
    if arr_of(eng, st, a) is None and arr_of(eng, st, b) is None:
        yield f(a, b), st
        return
    r = eng.elementwise(f, a, b, st, 'bool')
    yield reduce_anyall(eng, st, st.heap[r.oid], 'all'), st


@lib('numpy.flatnonzero')
def np_flatnonzero(eng, st, args, kwargs):
    """indices of the non-zero cells; indexing / storing with the result is indexing / storing with the mask `a != 0`"""
    a = arr_of(eng, st, args[0])
    if a.ndim != 1:
        raise OutOfSubset('flatnonzero of a 2-D array')
    mask = ArrV(a.shape, lambda i, a=a: ne(a.at(i), 0), 'bool')
    mref = new_ref(st, mask)
    res = compress(eng, st, ArrV(a.shape, lambda i: i, 'int'), mask)
    eng.index_masks[res.oid] = mref
    yield res, st


@lib('numpy.log2')
def np_log2(eng, st, args, kwargs):
    f = calls.uninterpreted('log2', ['Real'], 'Real')
    import math

    def g(x):
        x = to_num(x)
        if is_z3(x):
            return f(to_z3(to_real(x)))
        return math.log2(x) if x > 0 else NAN
    yield map1(eng, st, args[0], g, 'real'), st


@lib('numpy.subtract.outer')
def np_subtract_outer(eng, st, args, kwargs):
    a, b = arr_of(eng, st, args[0]), arr_of(eng, st, args[1])
    if a.ndim != 1 or b.ndim != 1:
        raise OutOfSubset('outer of non 1-D arrays')
    yield new_ref(st, ArrV((a.shape[0], b.shape[0]), lambda i, j, a=a, b=b: sub(a.at(i), b.at(j)), 'real')), st


@lib('numpy.linalg.lstsq')
def np_lstsq(eng, st, args, kwargs):
    """least-squares solution: an unspecified real vector of length A.shape[1] (nothing about its value is assumed);
    the residuals / rank / singular values are unspecified objects"""
    a = arr_of(eng, st, args[0])
    if a is None or a.ndim != 2 or not isinstance(a.shape[1], int):
        raise OutOfSubset('lstsq with a coefficient matrix whose width is not a constant')
    b = arr_of(eng, st, args[1])
    eng.oblige('safe', 'lstsq-shape', st, eq(a.shape[0], b.shape[0]))
    if isinstance(a.shape[0], int) and isinstance(b.shape[0], int) and b.ndim == 1:
        av = [[concrete(a.at(i, j)) for j in range(a.shape[1])] for i in range(a.shape[0])]
        bv = [concrete(b.at(i)) for i in range(b.shape[0])]
        if all(x is not None for row in av for x in row) and all(x is not None for x in bv) and len(av) == len(bv) and len(av) > 0:
            import numpy as _np          # concrete evaluation (translation cross-check / native replay)
            sol_c = [float(x) for x in _np.linalg.lstsq(_np.array(av, dtype=float), _np.array(bv, dtype=float), rcond=None)[0]]
            sol = new_ref(st, ArrV((a.shape[1],), lambda i, sol_c=sol_c: eng.select(sol_c, i), 'real'))
            yield (sol, Obj('lstsq.residuals'), Obj('lstsq.rank'), Obj('lstsq.sv')), st
            return
    cells = [z3.Real(fresh_name('lstsq')) for _ in range(a.shape[1])]
    sol = new_ref(st, ArrV((a.shape[1],), lambda i, cells=cells: eng.select(cells, i), 'real'))
    yield (sol, Obj('lstsq.residuals'), Obj('lstsq.rank'), Obj('lstsq.sv')), st


_MED = [None]


def MED():
    if _MED[0] is None:
        _MED[0] = z3.Function('MEDIAN', z3.ArraySort(z3.IntSort(), z3.RealSort()), z3.IntSort(), z3.RealSort())
    return _MED[0]


@lib('numpy.median')
def np_median(eng, st, args, kwargs):
    """median of a non-empty 1-D array: a function of the cell sequence that lies between two of its cells
    (nothing else about its value is assumed); the empty case (nan + RuntimeWarning) is outside the subset"""
    if kwargs or len(args) != 1:
        raise OutOfSubset('np.median with axis / keywords')
    a = arr_of(eng, st, args[0])
    if a is None or a.ndim != 1:
        raise OutOfSubset('np.median of a non 1-D value')
    n = a.shape[0]
    if isinstance(n, int):
        if n == 0:
            raise OutOfSubset('np.median of an empty array')
        cells = [to_real(to_num(a.at(k))) for k in range(n)]
        if all(concrete(c) is not None for c in cells):
            import statistics
            yield statistics.median([concrete(c) for c in cells]), st
            return
    eng.oblige('safe', 'median-nonempty', st, lt(0, n))
    from . import sums
    lam = sums.lam_of(a)
    m = MED()(lam, to_z3(n))
    lo, hi = z3.Int(fresh_name('medlo')), z3.Int(fresh_name('medhi'))
    st.assume(and_(0 <= lo, lo < to_z3(n), 0 <= hi, hi < to_z3(n), to_z3(to_real(to_num(a.at(lo)))) <= m, m <= to_z3(to_real(to_num(a.at(hi))))))
    eng.trusted_facts.add('np.median(a) is a function of the cell sequence and lies between two cells of a (library fact, not machine-checked)')
    yield m, st


@lib('numpy.unique')
def np_unique(eng, st, args, kwargs):
    """np.unique(a) of a 1-D real array: strictly increasing, same set of values (each output cell comes from an input cell and
    each input cell occurs in the output); its length is between min(1, n) and n"""
    if kwargs or len(args) != 1:
        raise OutOfSubset('np.unique with keywords')
    a = arr_of(eng, st, args[0])
    blocks2d = []
    if a is not None and a.ndim == 2 and isinstance(a.shape[1], int):
        w = a.shape[1]          # np.unique flattens: cell t of the flattened array is a[t // w, t % w]
        blocks2d = [(b, w) for b in (getattr(a, 'blocks', None) or [a]) if b.ndim == 2]
        a = ArrV((mul(a.shape[0], w),), lambda t, a=a, w=w: a.at(floordiv(t, w), mod(t, w)), a.dtype)
    if a is None or a.ndim != 1:
        raise OutOfSubset('np.unique of a non 1-D value')
    n = a.shape[0]
    if isinstance(n, int) and all(concrete(a.at(k)) is not None for k in range(n)):
        items = sorted(set(concrete(a.at(k)) for k in range(n)))
        yield new_ref(st, ArrV((len(items),), lambda i, items=items: eng.select(items, i), a.dtype)), st
        return
    sort = z3.RealSort() if a.dtype == 'real' else z3.IntSort()
    u = z3.Function(fresh_name('uniq'), z3.IntSort(), sort)
    src = z3.Function(fresh_name('uniq.src'), z3.IntSort(), z3.IntSort())
    pos = z3.Function(fresh_name('uniq.pos'), z3.IntSort(), z3.IntSort())
    k = z3.Int(fresh_name('uniq.n'))
    i, j = z3.Int(fresh_name('u')), z3.Int(fresh_name('v'))
    nz = to_z3(n)
    cell = lambda t: to_z3(to_num(a.at(t)))
    st.assume(and_(0 <= k, k <= nz, z3.Implies(nz > 0, k > 0)))
    st.assume(z3.ForAll([i, j], z3.Implies(z3.And(0 <= i, i < j, j < k), u(i) < u(j)), patterns=[z3.MultiPattern(u(i), u(j))]))
    if blocks2d:
        # stacked 2-D blocks: "each output cell comes from an input cell and each input cell occurs in the output", stated per block and
        # column so that it is found from a term B[r, c].  pos(src(i)) == i keeps the two facts from feeding each other new terms for ever;
        # it is consistent: where column (B, c) holds the value u[i], src is such a row and strict monotonicity makes pos of it i; where it
        # does not, src(i) is the out-of-range row -1 - i, on which pos is unconstrained.
        r = z3.Int(fresh_name('r'))
        origins, links = [], []
        for b, w in blocks2d:
            nb = to_z3(b.shape[0])
            for c in range(w):
                posb = z3.Function(fresh_name('uniq.pos%d' % c), z3.IntSort(), z3.IntSort())
                srcb = z3.Function(fresh_name('uniq.src%d' % c), z3.IntSort(), z3.IntSort())
                cellb = lambda t, b=b, c=c: to_z3(to_num(b.at(t, c)))
                cr = cellb(r)
                pats = [posb(r)]
                if z3.is_app(cr) and cr.decl().kind() in (z3.Z3_OP_UNINTERPRETED, z3.Z3_OP_SELECT) and cr.num_args() > 0:
                    pats.append(cr)
                st.assume(z3.ForAll([r], z3.Implies(z3.And(0 <= r, r < nb), z3.And(0 <= posb(r), posb(r) < k, u(posb(r)) == cr)), patterns=pats))
                for rr in (z3.IntVal(0), nb - 1):
                    st.assume(z3.Implies(nb > 0, z3.And(0 <= posb(rr), posb(rr) < k, u(posb(rr)) == cellb(rr))))
                origins.append(z3.And(0 <= srcb(i), srcb(i) < nb, u(i) == cellb(srcb(i))))
                links.append(posb(srcb(i)) == i)
        st.assume(z3.ForAll([i], z3.Implies(z3.And(0 <= i, i < k), z3.And(z3.Or(*origins), *links)), patterns=[u(i)]))
    else:
        st.assume(z3.ForAll([i], z3.Implies(z3.And(0 <= i, i < k), z3.And(0 <= src(i), src(i) < nz, u(i) == cell(src(i)))), patterns=[u(i)]))
        st.assume(z3.ForAll([j], z3.Implies(z3.And(0 <= j, j < nz), z3.And(0 <= pos(j), pos(j) < k, u(pos(j)) == cell(j))), patterns=[pos(j)]))
        # ground instances of the last fact at the first and the last input cell (nothing new; they give the solver the terms it needs)
        for jj in (z3.IntVal(0), nz - 1):
            st.assume(z3.Implies(nz > 0, z3.And(0 <= pos(jj), pos(jj) < k, u(pos(jj)) == cell(jj))))
    eng.trusted_facts.add('np.unique(a): strictly increasing array with the same set of values as a (library fact, trusted)')
    yield new_ref(st, ArrV((k,), lambda t, u=u: u(to_z3(t)), a.dtype)), st


@lib('numpy.arange')
def np_arange(eng, st, args, kwargs):
    """np.arange(n) / np.arange(start, stop) with integers: start, start + 1, ..., stop - 1;
    np.arange(0, stop, step) with a positive constant step (real stop): 0, step, 2 step, ... below stop - ceil(stop / step) cells (A1: exact reals)"""
    as_real = False
    if kwargs:
        dt = kwargs.get('dtype')
        name = getattr(dt, 'name', None) or str(dt)
        if set(kwargs) != {'dtype'} or not any(t in str(name) for t in ('float', 'int')):
            raise OutOfSubset('np.arange with keywords other than a numeric dtype')
        as_real = 'float' in str(name)          # A1: a float index grid holds the exact integers
    if len(args) == 1:
        n = to_num(args[0])
        if not is_int_like(n):
            raise OutOfSubset('np.arange of a non-integer')
        yield new_ref(st, ArrV((maxv(n, 0),), (lambda i: to_real(i)) if as_real else (lambda i: i), 'real' if as_real else 'int')), st
        return
    if len(args) == 2 and is_int_like(to_num(args[0])) and is_int_like(to_num(args[1])):
        lo, hi = to_num(args[0]), to_num(args[1])
        yield new_ref(st, ArrV((maxv(sub(hi, lo), 0),), (lambda i: i) if concrete(lo) == 0 else (lambda i, lo=lo: add(i, lo)), 'int')), st
        return
    if len(args) == 3 and concrete(args[0]) == 0 and concrete(args[2]) is not None and concrete(args[2]) > 0:
        step = concrete(args[2])
        stop = to_real(to_num(args[1]))
        sc = concrete(stop)
        if sc is not None:
            import math
            cnt = max(int(math.ceil(sc / step)), 0)
        else:
            # ceil(stop / step) = -floor(-stop / step)
            q = truediv(stop, step)
            cnt = z3.Int(fresh_name('arange.n'))
            st.assume(and_(cnt >= 0, z3.Implies(to_z3(stop) > 0, z3.And(z3.ToReal(cnt) >= to_z3(q), z3.ToReal(cnt) < to_z3(q) + 1)),
                           z3.Implies(to_z3(stop) <= 0, cnt == 0)))
        yield new_ref(st, ArrV((cnt,), lambda i, step=step: mul(to_real(i), step), 'real')), st
        return
    raise OutOfSubset('np.arange with this start / stop / step')


@lib('numpy.interp')
def np_interp(eng, st, args, kwargs):
    """np.interp(x, xp, fp) where xp is the index grid 0, 1, ..., n - 1 (xp[i] == i, recognised from its cells): piecewise linear through
    the points (i, fp[i]), constant outside [0, n - 1]"""
    if kwargs or len(args) != 3:
        raise OutOfSubset('np.interp with left / right / period')
    xp, fp = arr_of(eng, st, args[1]), arr_of(eng, st, args[2])
    if xp is None or fp is None or xp.ndim != 1 or fp.ndim != 1:
        raise OutOfSubset('np.interp on non 1-D data')
    t = z3.Int(fresh_name('ip'))
    probe = xp.at(t)
    if not (is_z3(probe) and to_z3(probe).eq(t)) and not (concrete(xp.shape[0]) is not None and all(concrete(xp.at(k)) == k for k in range(int(concrete(xp.shape[0]))))):
        raise OutOfSubset('np.interp with abscissae other than np.arange(n)')
    n = fp.shape[0]
    eng.oblige('safe', 'interp-lengths', st, and_(eq(xp.shape[0], n), lt(0, n)))

    def value(x, fp=fp, n=n):
        x = to_real(to_num(x))
        xc, nc = concrete(x), concrete(n)
        if xc is not None and nc is not None:
            import math
            if xc <= 0:
                return fp.at(0)
            if xc >= nc - 1:
                return fp.at(int(nc) - 1)
            i = int(math.floor(xc))
            return add(fp.at(i), mul(xc - i, sub(fp.at(i + 1), fp.at(i))))
        i = z3.ToInt(to_z3(x))          # floor
        inner = add(fp.at(i), mul(sub(x, z3.ToReal(i)), sub(fp.at(add(i, 1)), fp.at(i))))
        return ite(le(x, 0), fp.at(0), ite(le(sub(to_real(n), 1), x), fp.at(sub(n, 1)), inner))
    yield map1(eng, st, args[0], value, 'real'), st


_RND = [None]


def RND():
    if _RND[0] is None:
        _RND[0] = z3.Function('ROUND', z3.RealSort(), z3.IntSort(), z3.RealSort())
    return _RND[0]


@lib('numpy.round', 'numpy.around')
def np_round(eng, st, args, kwargs):
    """np.round(a, decimals=q): elementwise ROUND(x, q), a function of the value and the number of decimals (nothing else is assumed)"""
    q = kwargs.get('decimals', args[1] if len(args) > 1 else 0)

    def rnd(x, q=q):
        xc, qc = concrete(x), concrete(q)
        if xc is not None and qc is not None:
            return round(float(xc), int(qc))
        return RND()(to_z3(to_real(to_num(x))), to_z3(q))
    yield map1(eng, st, args[0], rnd, 'real'), st


@lib('numpy.argmax', 'numpy.argmin')
def np_argmax(eng, st, args, kwargs, _name=None):
    """np.argmax(a) / np.argmin(a) of a 1-D array: the FIRST position of the largest / smallest cell (booleans count as 0 / 1); ValueError when empty"""
    raise OutOfSubset('np.argmax / np.argmin through the shared entry')


def _arg_extremum(name):
    def f(eng, st, args, kwargs):
        a = arr_of(eng, st, args[0])
        if a is None or a.ndim != 1 or kwargs or len(args) != 1:
            raise OutOfSubset('np.%s outside the 1-D form' % name)
        num = lambda x: to_num(x) if not is_bool_like(x) else ite(x, 1, 0)
        better = (lambda x, y: lt(y, x)) if name == 'argmax' else (lambda x, y: lt(x, y))      # x strictly better than y
        n = a.shape[0]
        if isinstance(n, int):
            if n == 0:
                yield Raised('ValueError'), st
                return
            k = 0
            best = num(a.at(0))
            for t in range(1, n):
                c = better(num(a.at(t)), best)
                k = ite(c, t, k)
                best = ite(c, num(a.at(t)), best)
            yield k, st
            return
        st_e = st.fork()
        if eng.feasible(st, eq(n, 0)):
            st_e.assume(eq(n, 0))
            yield Raised('ValueError'), st_e
        st.assume(lt(0, n))
        if not eng.feasible(st):
            return
        k = z3.Int(fresh_name(name))
        j = z3.Int(fresh_name('j'))
        ck = to_z3(num(a.at(k)))
        cj = to_z3(num(a.at(j)))
        st.assume(and_(0 <= k, k < to_z3(n)))
        st.assume(z3.ForAll([j], z3.Implies(z3.And(0 <= j, j < to_z3(n)), z3.Not(to_z3(better(num(a.at(j)), num(a.at(k))))))))
        st.assume(z3.ForAll([j], z3.Implies(z3.And(0 <= j, j < k), to_z3(better(num(a.at(k)), num(a.at(j)))))))
        eng.trusted_facts.add('np.%s(a): first position of the extreme cell (library fact, trusted)' % name)
        yield k, st
    return f


LIB['numpy.argmax'] = _arg_extremum('argmax')
LIB['numpy.argmin'] = _arg_extremum('argmin')


@lib('numpy.isclose')
def np_isclose(eng, st, args, kwargs):
    """np.isclose(a, b, rtol=1e-05, atol=1e-08) on finite scalars: |a - b| <= atol + rtol * |b| (arrays / equal_nan are outside the model)"""
    if len(args) < 2 or arr_of(eng, st, args[0]) is not None or arr_of(eng, st, args[1]) is not None or 'equal_nan' in kwargs:
        raise OutOfSubset('np.isclose outside the scalar form')
    rtol = kwargs.get('rtol', args[2] if len(args) > 2 else 1e-05)
    atol = kwargs.get('atol', args[3] if len(args) > 3 else 1e-08)
    a, b = to_real(to_num(args[0])), to_real(to_num(args[1]))
    yield le(absv(sub(a, b)), add(atol, mul(rtol, absv(b)))), st


@lib('numpy.ravel')
def np_ravel(eng, st, args, kwargs):
    a = arr_of(eng, st, args[0])
    if a is None or kwargs or len(args) != 1:
        raise OutOfSubset('np.ravel of a scalar / with order')
    if a.ndim == 1:
        yield new_ref(st, ArrV(a.shape, a.at, a.dtype)), st
        return
    if a.ndim == 2 and isinstance(a.shape[1], int):
        w = a.shape[1]
        yield new_ref(st, ArrV((mul(a.shape[0], w),), lambda t, a=a, w=w: a.at(floordiv(t, w), mod(t, w)), a.dtype)), st
        return
    raise OutOfSubset('np.ravel of this shape')


@lib('numpy.searchsorted')
def np_searchsorted(eng, st, args, kwargs):
    """np.searchsorted(a, v, side) for a non-decreasing 1-D array a: for each value the position p with
    a[k] < v for k < p and a[k] >= v for k >= p (side='left'; '<=' / '>' for side='right').  Sortedness of `a` is an obligation."""
    a = arr_of(eng, st, args[0])
    side = kwargs.get('side', args[2] if len(args) > 2 else 'left')
    if a is None or a.ndim != 1 or side not in ('left', 'right'):
        raise OutOfSubset('np.searchsorted outside the modelled form')
    n = a.shape[0]
    k = z3.Int(fresh_name('ss'))
    if isinstance(n, int):
        eng.oblige('safe', 'searchsorted-sorted', st, and_(*[le(a.at(t), a.at(t + 1)) for t in range(n - 1)]) if n > 1 else True)
    else:
        eng.oblige('safe', 'searchsorted-sorted', st, z3.ForAll([k], z3.Implies(z3.And(0 <= k, k + 1 < to_z3(n)), to_z3(le(a.at(k), a.at(k + 1))))))
    va = arr_of(eng, st, args[1])
    before = (lambda x, v: lt(x, v)) if side == 'left' else (lambda x, v: le(x, v))

    def position(v, tag):
        if isinstance(n, int) and concrete(v) is not None and all(concrete(a.at(t)) is not None for t in range(n)):
            return len([t for t in range(n) if (concrete(a.at(t)) < concrete(v) if side == 'left' else concrete(a.at(t)) <= concrete(v))])
        p = z3.Int(fresh_name('pos' + tag))
        st.assume(and_(0 <= p, p <= to_z3(n)))
        st.assume(z3.ForAll([k], z3.Implies(z3.And(0 <= k, k < to_z3(n)), z3.And(z3.Implies(k < p, to_z3(before(a.at(k), v))),
                                                                                    z3.Implies(k >= p, z3.Not(to_z3(before(a.at(k), v))))))))
        return p
    if va is None:
        yield position(to_num(args[1]), ''), st
        return
    if va.ndim != 1:
        raise OutOfSubset('np.searchsorted of a non 1-D value array')
    m = va.shape[0]
    if isinstance(m, int):
        cells = [position(va.at(t), str(t)) for t in range(m)]
        yield new_ref(st, ArrV((m,), lambda i, cells=cells: eng.select(cells, i), 'int')), st
        return
    P = z3.Function(fresh_name('sspos'), z3.IntSort(), z3.IntSort())
    j = z3.Int(fresh_name('sj'))
    st.assume(z3.ForAll([j], z3.Implies(z3.And(0 <= j, j < to_z3(m)), z3.And(0 <= P(j), P(j) <= to_z3(n))), patterns=[P(j)]))
    st.assume(z3.ForAll([j, k], z3.Implies(z3.And(0 <= j, j < to_z3(m), 0 <= k, k < to_z3(n)),
                                           z3.And(z3.Implies(k < P(j), to_z3(before(a.at(k), va.at(j)))),
                                                  z3.Implies(k >= P(j), z3.Not(to_z3(before(a.at(k), va.at(j)))))))))
    yield new_ref(st, ArrV((m,), lambda i, P=P: P(to_z3(i)), 'int')), st
