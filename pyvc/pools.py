"""Small valid inputs per task, on exact-arithmetic lattices (times multiples of 1/8 s, frequencies 440*2^(k/12)).
Used by native replays (differential search for a failing input) and by the bounded stand-ins."""
import copy
import random

import numpy as np

KW_VALUES = {
    'beat': {'min_beat_time': [0.0, 2.0], 'f_measure_threshold': [0.25], 'cemgil_sigma': [0.1], 'goto_threshold': [0.2],
             'goto_mu': [0.3], 'goto_sigma': [0.3], 'p_score_threshold': [0.3], 'continuity_phase_threshold': [0.3],
             'continuity_period_threshold': [0.3], 'bins': [21]},
    'onset': {'window': [0.125, 0.5]},
    'segment': {'trim': [True], 'beta': [2.0], 'frame_size': [0.25], 'marginal': [True], 'window': [1.0]},
    'chord': {},
    'melody': {'cent_tolerance': [20, 100], 'base_frequency': [20.0], 'hop': [0.125], 'kind': ['nearest']},
    'multipitch': {'window': [0.25, 1.0]},
    'transcription': {'offset_ratio': [None, 0.5], 'onset_tolerance': [0.125], 'pitch_tolerance': [100.0],
                      'offset_min_tolerance': [0.125], 'strict': [True], 'beta': [2.0]},
    'transcription_velocity': {'offset_ratio': [None, 0.5], 'onset_tolerance': [0.125], 'pitch_tolerance': [100.0],
                               'offset_min_tolerance': [0.125], 'strict': [True], 'velocity_tolerance': [0.3], 'beta': [2.0]},
    'tempo': {'tol': [0.01, 0.5]},
    'key': {},
    'pattern': {'tol': [0.1], 'thres': [0.6], 'n': [1, 2], 'similarity_metric': ['cardinality_score']},
    'hierarchy': {'window': [5.0], 'frame_size': [0.5], 'beta': [2.0], 'transitive': [True]},
    'alignment': {'window': [0.125, 1.0], 'duration': [20.0]},
    'separation': {'window': [700], 'hop': [350], 'compute_permutation': [True]},
}

CHORDS = ['C', 'C:min', 'G:7', 'A:min7', 'N', 'F#:maj7', 'Db:maj/3', 'E:sus4', 'X', 'B:dim', 'D:maj(9)', 'G:min/b3']


def lat(rng, lo, hi, step=0.125):
    return rng.randint(int(lo / step), int(hi / step)) * step


def events(rng, n, lo=0.0, hi=12.0):
    return np.array(sorted(lat(rng, lo, hi) for _ in range(n)), dtype=float)


def segmentation(rng, n, t_end=None, start=0.0):
    cuts = sorted({lat(rng, start + 0.5, (t_end or 10.0) - 0.5) for _ in range(max(n - 1, 0))})
    b = [start] + cuts + [t_end if t_end is not None else (cuts[-1] if cuts else start) + lat(rng, 0.5, 4.0)]
    iv = np.array([[b[i], b[i + 1]] for i in range(len(b) - 1)], dtype=float)
    return iv


def labels(rng, n, alphabet):
    return [rng.choice(alphabet) for _ in range(n)]


def freq(rng):
    return 440.0 * 2 ** (rng.randint(-24, 24) / 12.0)


def notes(rng, n):
    iv = []
    for _ in range(n):
        s = lat(rng, 0.0, 8.0)
        iv.append([s, s + lat(rng, 0.125, 2.0)])
    iv = np.array(iv, dtype=float).reshape((-1, 2))
    return iv, np.array([freq(rng) for _ in range(n)], dtype=float)


def patterns(rng, n_pat):
    out = []
    for _ in range(n_pat):
        occs = []
        base = sorted({(lat(rng, 0, 6), float(rng.randint(55, 70))) for _ in range(rng.randint(1, 4))})
        for o in range(rng.randint(1, 2)):
            sh = lat(rng, 0, 8)
            occs.append([(t + sh, p) for t, p in base] if rng.random() < 0.7 else [(lat(rng, 0, 8), float(rng.randint(55, 70)))])
        out.append(occs)
    return out


def pattern_variants(rng, pats):
    """estimated patterns that copy reference patterns note for note except for some replaced notes (similarities 1/2, 2/3, 3/4, 1)"""
    out = []
    for occs in pats:
        new_occs = []
        for occ in occs:
            keep = max(1, len(occ) - rng.choice([0, 1, 1, 2]))
            new_occs.append([tuple(x) for x in occ[:keep]] + [(t + 0.0625, p + 13.0) for t, p in occ[keep:]])
        out.append(new_occs)
    if out and rng.random() < 0.5:
        out = out[::-1]
    return out


def hier(rng, levels, t_end):
    ivs, labs = [], []
    for lv in range(levels):
        iv = segmentation(rng, rng.randint(1, 3 + lv), t_end=t_end)
        ivs.append(iv)
        labs.append(labels(rng, len(iv), ['a', 'b', 'c', 'A']))
    return ivs, labs


def inputs(task, seed, n):
    rng = random.Random(1000003 * seed + hash(task) % 1000)
    rng = random.Random('%s-%d' % (task, seed))
    out = []
    for k in range(n):
        small = k % 3
        if task == 'beat':
            out.append((events(rng, [0, 3, 9][small], 0, 20), events(rng, [2, 0, 8][small] if k < 3 else rng.randint(0, 9), 0, 20)))
        elif task == 'onset':
            r_ = events(rng, rng.randint(0, 6))
            if k % 2 == 1 and len(r_):
                # an estimate that follows the reference at lattice distances: windows decide what is a hit
                e_ = np.array(sorted(max(0.0, t + rng.choice([0.0, 0.125, -0.125, 0.25, 0.375])) for t in r_))
                out.append((np.array(sorted(set(r_.tolist()))), e_))
            else:
                out.append((r_, events(rng, rng.randint(0, 6))))
        elif task == 'segment':
            r = segmentation(rng, rng.randint(1, 4), t_end=8.0)
            e = segmentation(rng, rng.randint(1, 4), t_end=[8.0, 6.0, 9.5][small])
            out.append((r, labels(rng, len(r), ['a', 'b', 'A', 'c']), e, labels(rng, len(e), ['a', 'b', 'x'])))
        elif task == 'chord':
            r = segmentation(rng, rng.randint(1, 4), t_end=8.0, start=[0.0, 1.0, 0.0][small])
            e = segmentation(rng, rng.randint(1, 4), t_end=[8.0, 6.0, 9.5][small])
            out.append((r, labels(rng, len(r), CHORDS), e, labels(rng, len(e), CHORDS)))
        elif task == 'melody':
            n_f = rng.randint(1, 6)
            t = np.arange(n_f) * 0.125
            rf = np.array([rng.choice([0.0, freq(rng), freq(rng)]) for _ in range(n_f)])
            ef = np.array([rng.choice([0.0, freq(rng), -freq(rng), rf[i]]) for i in range(n_f)])
            if k % 2 == 1:
                # estimates some cents (or an octave and some cents) off: the tolerance decides what is correct
                ef = np.array([f * 2 ** (rng.choice([10, -30, 60, -80, 1230, 0]) / 1200.0) for f in rf])
            out.append((t, rf, t if small else t + 0.0, ef, None if small != 1 else np.array([rng.choice([0.0, 0.5, 1.0]) for _ in range(n_f)]), None))
        elif task == 'multipitch':
            n_f = rng.randint(1, 5)
            t = np.arange(n_f) * 0.125
            rf = [np.array([freq(rng) for _ in range(rng.randint(0, 3))]) for _ in range(n_f)]
            te = t if small else np.arange(n_f + 1) * 0.125 - 0.125
            ef = [np.array([freq(rng) for _ in range(rng.randint(0, 3))]) for _ in range(len(te))]
            if k % 2 == 1:
                # estimates a fraction of a semitone (or an octave and a fraction) off the reference: the window decides what is a hit
                ef = [np.array([f * 2 ** (rng.choice([0.3, -0.3, 0.8, -0.8, 12.3, -11.2, 0.0]) / 12.0) for f in rf[min(max(j - (0 if small else 1), 0), n_f - 1)]])
                      for j in range(len(te))]
            out.append((t, rf, te, ef))
        elif task == 'transcription':
            ri, rp = notes(rng, rng.randint(0, 4))
            ei, ep = notes(rng, rng.randint(0, 4))
            if small == 2 and len(ri):
                ei, ep = ri.copy(), rp.copy()
            out.append((ri, rp, ei, ep))
        elif task == 'transcription_velocity':
            ri, rp = notes(rng, rng.randint(0, 4))
            ei, ep = notes(rng, rng.randint(0, 4))
            if small == 2 and len(ri):
                ei, ep = ri.copy(), rp.copy()
            rv = np.array([float(rng.randint(1, 127)) for _ in range(len(ri))])
            ev = np.array([float(rng.randint(1, 127)) for _ in range(len(ei))])
            out.append((ri, rp, rv, ei, ep, ev))
        elif task == 'tempo':
            out.append((np.array([float(rng.choice([60, 80, 0])), float(rng.choice([120, 160]))]), rng.choice([0.0, 0.25, 1.0]),
                        np.array([float(rng.choice([60, 61, 90])), float(rng.choice([120, 118, 0]))])))
        elif task == 'key':
            ks = ['C major', 'a minor', 'G major', 'c minor', 'X', 'F# other', 'Db major']
            out.append((rng.choice(ks), rng.choice(ks)))
        elif task == 'pattern':
            if k % 2 == 1:
                rp_ = patterns(rng, rng.randint(1, 3))
                out.append((rp_, pattern_variants(rng, rp_)))
            else:
                out.append((patterns(rng, [0, 1, 2][small]), patterns(rng, [1, 2, 0][small] if k < 3 else rng.randint(0, 3))))
        elif task == 'hierarchy':
            ri, rl = hier(rng, rng.randint(1, 3), 8.0)
            ei, el = hier(rng, rng.randint(1, 3), [8.0, 6.0, 9.0][small])
            out.append((ri, rl, ei, el))
        elif task == 'separation':
            rs = np.random.RandomState(seed * 100 + k)
            src = rs.randn(2, 1400)
            if small == 1:
                src[0, :700] = 0.0
            out.append((src, src[::-1] * 0.5 + 0.1 * rs.randn(2, 1400)))
        elif task == 'alignment':
            n_t = rng.randint(1, 5)
            r = events(rng, n_t, 0, 10)
            r = np.array(sorted(set(r.tolist())))
            e = np.array(sorted(max(0.0, x + lat(rng, -0.5, 0.5)) for x in r))
            out.append((r, e))
        else:
            raise KeyError(task)
    return out


def copy_inputs(inp):
    return copy.deepcopy(inp)


def describe(inp):
    def d(x):
        if isinstance(x, np.ndarray):
            return x.tolist()
        if isinstance(x, (list, tuple)):
            return [d(y) for y in x]
        return x
    return d(inp)


# ----------------------------------------------------------------------------- function-level pools (native search for a failing input)
def function_inputs(target, seed=0, n=400):
    """yield input dicts (parameter name -> json-able value) for the function `target`, or nothing if no pool is known"""
    rng = random.Random('%s-%d' % (target, seed))
    mod, fn = target.split('.')[:2]
    if mod == 'chord' and fn in ('thirds', 'thirds_inv', 'triads', 'triads_inv', 'tetrads', 'tetrads_inv', 'root', 'mirex', 'majmin',
                                 'majmin_inv', 'sevenths', 'sevenths_inv'):
        roots = ['C', 'G', 'Db', 'F#']
        tails = ['', ':maj', ':min', ':7', ':maj7', ':min7', ':sus4', ':dim', ':aug', ':5', ':1', ':maj/3', ':min/b3', ':maj/2', ':7/b7',
                 ':maj(b6)', ':maj(#5)', ':maj(9)', ':min(*b3)', ':maj6', ':hdim7', ':maj(*5)', ':maj/5', ':(3)', ':maj7/7']
        labs = ['N', 'X'] + [r + t for r in roots[:2] for t in tails] + [r + t for r in roots[2:] for t in tails[:6]]
        labs += [r + t for r in ('C#', 'Gb', 'B#', 'Cb', 'B') for t in tails[:4]]          # the same pitch classes under other spellings
        for a in labs:
            yield dict(reference_labels=[a], estimated_labels=[a])
        for _ in range(n):
            k = rng.randint(1, 3)
            yield dict(reference_labels=[rng.choice(labs) for _ in range(k)], estimated_labels=[rng.choice(labs) for _ in range(k)])
    if target in ('segment.detection', 'segment.deviation'):
        def seg():
            k = rng.randint(1, 7)
            cuts = sorted(rng.sample([0.5 * x for x in range(1, 40)], k - 1)) if k > 1 else []
            b = [0.0] + cuts + [20.0 + rng.choice([0.0, 1.5])]
            return [[b[i], b[i + 1]] for i in range(len(b) - 1)]
        for _ in range(n):
            a = seg()
            b = [list(r) for r in a] if rng.random() < 0.3 else seg()
            d = dict(reference_intervals=a, estimated_intervals=b, trim=rng.random() < 0.5)
            if target == 'segment.detection':
                d.update(window=rng.choice([0.5, 0.25, 3.0]), beta=rng.choice([1.0, 2.0]))
            yield d
    if target.startswith('alignment.') and target.split('.')[1] in ('percentage_correct_segments', 'percentage_correct', 'absolute_error'):
        for _ in range(n):
            k = rng.randint(1, 6)
            ref = sorted(rng.sample([0.25 * x for x in range(0, 41)], k))
            est = sorted(max(0.0, t + rng.choice([0.0, 0.25, -0.25, 1.5, -1.25, 2.25, 0.5])) for t in ref)
            d = dict(reference_timestamps=ref, estimated_timestamps=est)
            if target.endswith('percentage_correct_segments'):
                d['duration'] = rng.choice([None, None, max(ref[-1], est[-1]), max(ref[-1], est[-1]) + 1.5, 12.0])
            elif target.endswith('percentage_correct'):
                d['window'] = rng.choice([0.3, 0.25, 1.0])
            yield d
    if mod in ('transcription', 'transcription_velocity') and fn in ('precision_recall_f1_overlap', 'onset_precision_recall_f1', 'offset_precision_recall_f1'):
        # onsets / offsets on a 1/8 s lattice with tolerances that are lattice steps (so strict and non-strict comparison differ on exact ties);
        # pitches are equal or at least a semitone apart with a 50-cent tolerance (never at the pitch threshold)
        def nts(k):
            iv = []
            for _ in range(k):
                a = rng.randint(0, 16) * 0.125
                iv.append([a, a + rng.randint(1, 8) * 0.125])
            iv.sort()
            return iv, [440.0 * 2 ** rng.choice([0, 0, 0, 1, -1]) * rng.choice([1.0, 1.0, 1.5]) for _ in range(k)]
        for _ in range(n):
            ri, rp = nts(rng.randint(1, 4) if rng.random() < 0.9 else 0)
            if rng.random() < 0.1:
                ei, ep = [], []          # an empty estimate (valid: the scores are defined as 0)
            elif rng.random() < 0.5 and ri:
                ei = [[a + rng.choice([0.0, 0.125, -0.125, 0.25]), b + rng.choice([0.0, 0.125, 0.25, 0.5])] for a, b in ri]
                ei = [[max(a, 0.0), max(b, max(a, 0.0) + 0.125)] for a, b in ei]
                ep = list(rp)
            else:
                ei, ep = nts(rng.randint(1, 4))
            d = dict(ref_intervals=ri, est_intervals=ei, strict=rng.random() < 0.6, beta=rng.choice([1.0, 2.0]))
            if fn != 'offset_precision_recall_f1':
                d['onset_tolerance'] = rng.choice([0.125, 0.25])
            if fn != 'onset_precision_recall_f1':
                d.update(offset_ratio=rng.choice([0.5, 0.25]), offset_min_tolerance=rng.choice([0.125, 0.25]))
            if fn == 'precision_recall_f1_overlap':
                d.update(ref_pitches=rp, est_pitches=ep, pitch_tolerance=50.0)
                if rng.random() < 0.3:
                    d['offset_ratio'] = None
                if mod == 'transcription_velocity':
                    d.update(ref_velocities=[float(rng.choice([10, 50, 100])) for _ in rp], est_velocities=[float(rng.choice([10, 50, 100])) for _ in ep],
                             velocity_tolerance=rng.choice([0.1, 0.5]))
            elif mod == 'transcription_velocity':
                return
            yield d
    if target in ('multipitch.compute_accuracy', 'multipitch.compute_err_score'):
        # per-frame counts, including frames (and whole sides) without any pitch
        for _ in range(n):
            k = rng.randint(0, 4)
            side = rng.random()
            nr = [0 if side < 0.2 else rng.randint(0, 3) for _ in range(k)]
            ne = [0 if 0.2 <= side < 0.4 else rng.randint(0, 3) for _ in range(k)]
            tp = [float(rng.randint(0, min(a, b))) for a, b in zip(nr, ne)]
            yield dict(true_positives=tp, n_ref=nr, n_est=ne)
    if target == 'util.interpolate_intervals':
        grid = [0.25 * x for x in range(0, 13)]
        for _ in range(n):
            k = rng.randint(0, 3)
            pts = sorted(rng.sample(grid, 2 * k))
            iv = [[pts[2 * i], pts[2 * i + 1]] for i in range(k)]
            if k >= 2 and rng.random() < 0.5:
                iv[1][0] = iv[0][1]          # a shared boundary
            tp = sorted(rng.choice(grid) for _ in range(rng.randint(0, 4)))
            if rng.random() < 0.1 and len(tp) > 1:
                tp = tp[::-1]
            yield dict(intervals=iv, labels=['L%d' % i for i in range(k)], time_points=tp, fill_value='F')
    if target == 'util.merge_labeled_intervals':
        def seg(end, tag):
            k = rng.randint(1, 4)
            cuts = sorted(rng.sample([0.25 * x for x in range(1, int(end / 0.25))], k - 1)) if k > 1 else []
            b = [0.0] + cuts + [end]
            return [[b[i], b[i + 1]] for i in range(len(b) - 1)], ['%s%d' % (tag, i) for i in range(len(b) - 1)]
        for _ in range(n):
            end = rng.choice([2.0, 3.0, 4.5])
            xi, xl = seg(end, 'x')
            yi, yl = seg(end if rng.random() < 0.9 else end + 0.5, 'y')
            r = rng.random()
            if r < 0.25 and len(xi) > 1:
                # a boundary of y a fraction of a microsecond after a boundary of x (still two boundaries)
                c = xi[0][1] + 5e-07
                yi, yl = [[0.0, c], [c, yi[-1][1]]], ['y0', 'y1']
            elif r < 0.4 and len(xi) > 2:
                # an internal gap in x
                xi = [xi[0]] + [list(v) for v in xi[2:]]
                xl = [xl[0]] + xl[2:]
            yield dict(x_intervals=xi, x_labels=xl, y_intervals=yi, y_labels=yl)
    if target.startswith('pattern.') and target.split('.')[1] in ('establishment_FPR', 'occurrence_FPR', 'three_layer_FPR', 'standard_FPR'):
        def pat():
            base = sorted({(float(rng.randint(0, 8)), float(rng.randint(55, 72))) for _ in range(rng.randint(1, 4))})
            occs = []
            for _ in range(rng.randint(1, 3)):
                sh = float(rng.randint(0, 16))
                occs.append([[t + sh, p] for t, p in base] if rng.random() < 0.7 else
                            [list(e) for e in sorted({(float(rng.randint(0, 20)), float(rng.randint(55, 72))) for _ in range(rng.randint(1, 3))})])
            return occs
        for _ in range(n):
            rp = [pat() for _ in range(rng.randint(0, 3))]
            ep = [pat() for _ in range(rng.randint(0, 3))] if rng.random() < 0.8 else [[list(map(list, o)) for o in p] for p in rp]
            yield dict(reference_patterns=rp, estimated_patterns=ep)
    if target == 'key.weighted_score':
        ks = ['C major', 'c minor', 'G major', 'a minor', 'A major', 'e minor', 'Eb major', 'd# minor', 'X', 'x', 'F# other', 'Gb other', 'B major', 'Cb' ]
        ks = [k for k in ks if ' ' in k or k.lower() == 'x']
        for a in ks:
            for b in ks:
                yield dict(reference_key=a, estimated_key=b)
    if target == 'chord.weighted_accuracy':
        comps = [[1.0], [0.0], [-1.0], [1.0, 0.0], [-1.0, 1.0], [1.0, -1.0, 0.5], [0.0, 0.0, 1.0], [-1.0, -1.0], [1.0, 1.0, 1.0, 0.0], []]
        ws = [[1.0], [0.0], [2.0, 1.0], [-1.0, 1.0], [1.0, -1.0], [0.5, -2.5, 2.0], [1.0, 0.0, 3.0], [0.0, 0.0], [1.0, 2.0, 3.0, 4.0], [-1.0, -1.0], [],
              [1.0, 1.0, 1.0], [4.0, 0.0, 1.0, -5.0], [0.0, 1.0]]
        for c in comps:
            for w in ws:
                yield dict(comparisons=c, weights=w)
    if mod == 'melody' and fn in ('raw_pitch_accuracy', 'raw_chroma_accuracy', 'overall_accuracy', 'voicing_recall', 'voicing_false_alarm'):
        cents = [0.0, 4800.0, 4810.0, 4840.0, 4850.0, 4860.0, 5990.0, 6000.0, 6040.0, 3610.0, 7200.0, 2400.0, 5400.0,
                 -1200.0, -1190.0, -2400.0, -10.0, 1190.0]       # cents are negative for pitches below base_frequency
        vo = [0.0, 1.0, 0.5, 0.25]
        for _ in range(n):
            k = rng.randint(0, 4)
            rc = [rng.choice(cents) for _ in range(k)]
            ec = [rng.choice(cents + [c for c in rc]) for _ in range(k)]
            rv = [0.0 if c == 0 else rng.choice(vo[1:]) for c in rc] if rng.random() < 0.8 else [rng.choice(vo) for _ in range(k)]
            ev = [rng.choice(vo) for _ in range(k)]
            if fn in ('voicing_recall', 'voicing_false_alarm'):
                yield dict(ref_voicing=rv, est_voicing=ev)
            else:
                yield dict(ref_voicing=rv, ref_cent=rc, est_voicing=ev, est_cent=ec, cent_tolerance=rng.choice([50.0, 25.0, 100.0]))
