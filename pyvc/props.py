"""Per-property plan: which engines run besides the contract/lemma obligations tagged with the property."""

PLAN = {
    'C01': dict(level='proof', engines=[]),
    'C02': dict(level='proof', engines=[]),
    'C03': dict(level='proof', engines=['bundles']),
    'C04': dict(level='proof', engines=['keynative']),
    'C06': dict(level='proof', engines=[]),
    'C07': dict(level='proof', engines=[]),
    'C08': dict(level='proof', engines=[]),
    'C09': dict(level='proof', engines=['chordnative', 'keynative']),
    'C10': dict(level='proof', engines=['chordre']),
    'C11': dict(level='proof', engines=['chordnative']),
    'C14': dict(level='proof', engines=[]),
    'C15': dict(level='proof', engines=['frames'], assumptions=['A3', 'A4', 'A5', 'A6', 'A7']),
}

NOT_APPLICABLE = {}

NOTES = ('Fixes of genuine defects of the pinned tree are "fix:" commits in /repo and are listed in known_findings.json '
         '(section "fixed"); defects recorded but not repaired are in its section "findings".')
