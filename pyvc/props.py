"""Per-property plan: which engines run besides the contract/lemma obligations tagged with the property."""

PLAN = {
    'C01': dict(level='proof', engines=['sumlib', 'segnative', 'tasknative']),
    'C02': dict(level='proof', engines=['tasknative']),
    'C03': dict(level='proof', engines=['bundles']),
    'C04': dict(level='proof', engines=['keynative', 'matchnative']),
    'C05': dict(level='other', engines=['matchnative'],
                explanation='The matcher bodies (Hopcroft-Karp, hit-window search, note-matching matrices) are not verified deductively here: they are '
                            'checked by exhaustive small-scope enumeration against brute-force maximum matching (bounded stand-in, the property\'s own '
                            'quantifier: all graphs up to 4x5). Their contract "valid maximum matching of the stated predicate" is what every caller is '
                            'verified against deductively (see C01/C04/C06/C07/C08 evidence).'),
    'C06': dict(level='proof', engines=['forward', 'segnative', 'tasknative', 'matchnative']),
    'C07': dict(level='proof', engines=['tasknative', 'matchnative']),
    'C08': dict(level='proof', engines=['segnative', 'tasknative', 'multipitchnative']),
    'C09': dict(level='proof', engines=['chordnative', 'keynative', 'tasknative']),
    'C10': dict(level='proof', engines=['chordre']),
    'C11': dict(level='proof', engines=['chordnative']),
    'C12': dict(level='proof', engines=['sumlib', 'segnative', 'hiernative']),
    'C13': dict(level='proof', engines=['intervalsnative']),
    'C14': dict(level='proof', engines=['tasknative']),
    'C16': dict(level='proof', engines=['forward', 'segnative']),
    'C17': dict(level='proof', engines=['hiernative']),
    'C18': dict(level='proof', engines=['sumlib', 'multipitchnative', 'matchnative']),
    'C19': dict(level='proof', engines=['sepstruct', 'bundles']),
    'C20': dict(level='proof', engines=['ionative']),
    'C15': dict(level='proof', engines=['frames'], assumptions=['A3', 'A4', 'A5', 'A6', 'A7']),
}

NOT_APPLICABLE = {}

NOTES = ('Fixes of genuine defects of the pinned tree are "fix:" commits in /repo and are listed in known_findings.json '
         '(section "fixed"); defects recorded but not repaired are in its section "findings".')
