"""Per-property plan: which engines run besides the contract/lemma obligations tagged with the property."""

PLAN = {
    'C01': dict(level='proof', engines=['sumlib', 'segnative', 'tasknative', 'matchnative', 'beatstruct', 'libconf']),
    'C02': dict(level='proof', engines=['tasknative', 'chordevalnative']),
    'C03': dict(level='proof', engines=['bundles', 'multipitchnative', 'chordnative']),
    'C04': dict(level='proof', engines=['keynative', 'matchnative', 'tasknative', 'multipitchnative', 'libconf']),
    'C05': dict(level='other', engines=['matchnative', 'bundles', 'multipitchnative'],
                explanation='The property is about the matcher bodies (Hopcroft-Karp, hit-window search, note-matching matrices); these are checked by exhaustive '
                            'small-scope enumeration against brute-force maximum matching (bounded stand-in, the property\'s own quantifier: all graphs up to 4x5) and are '
                            'NOT counted as proved. Discharged deductively: the circular-distance tolerance predicate, and - in the evidence of C01/C04/C06/C07/C08 - every '
                            'caller against the matcher contract "valid maximum matching of the stated predicate".'),
    'C06': dict(level='proof', engines=['forward', 'segnative', 'tasknative', 'matchnative', 'chordevalnative', 'hiernative']),
    'C07': dict(level='proof', engines=['tasknative', 'matchnative', 'beatstruct', 'multipitchnative']),
    'C08': dict(level='proof', engines=['segnative', 'tasknative', 'multipitchnative', 'matchnative', 'chordevalnative']),
    'C09': dict(level='proof', engines=['chordnative', 'keynative', 'tasknative', 'chordevalnative']),
    'C10': dict(level='proof', engines=['chordre', 'chordnative']),
    'C11': dict(level='proof', engines=['chordnative']),
    'C12': dict(level='proof', engines=['sumlib', 'segnative', 'hiernative', 'chordevalnative']),
    'C13': dict(level='proof', engines=['intervalsnative', 'chordevalnative', 'libconf']),
    'C14': dict(level='proof', engines=['tasknative', 'keynative', 'libconf']),
    'C16': dict(level='proof', engines=['forward', 'segnative']),
    'C17': dict(level='proof', engines=['hiernative', 'bundles']),
    'C18': dict(level='proof', engines=['sumlib', 'bundles', 'multipitchnative', 'matchnative']),
    'C19': dict(level='proof', engines=['sepstruct', 'bundles']),
    'C20': dict(level='proof', engines=['ionative']),
    'C15': dict(level='proof', engines=['frames', 'sepstruct'], assumptions=['A3', 'A4', 'A5', 'A6', 'A7']),
}

NOT_APPLICABLE = {}

NOTES = ('Fixes of genuine defects of the pinned tree are "fix:" commits in /repo and are listed in known_findings.json '
         '(section "fixed"); defects recorded but not repaired are in its section "findings".')


# ----------------------------------------------------------------------------- texts for MANIFEST.json (level_claimed.text / level_note / technique)
_COMMON_NOTE = ('Trusted: A1 floats as reals, A2 unbounded integers, A3 kinds fixed by the contract, A4 NumPy alias rules, A5 static name resolution; the NumPy/SciPy '
                'model contracts (cross-checked against CPython every run by executing the real bodies in concrete mode); assumed contracts listed in the evidence '
                'file (each with a bounded conformance engine); z3/cvc5. Bounded engines are labelled bounded and never counted as discharged.')

TEXTS = {
    'C01': ('Range obligations (0 <= score <= 1, finite, guarded divisions) are postconditions of the real metric functions, discharged for all input sizes: '
            'util.f_measure, onset/beat F, segment.detection, transcription P/R/F and average overlap ratio <= 1 (loop invariant), tempo, key, chord.weighted_accuracy, '
            'multipitch accuracy/error scores, melody voicing/raw pitch/raw chroma/overall accuracy, alignment percentage_correct, hierarchy T/L. Segment clustering '
            'indices, beat Cemgil/Goto/P-score/continuity, pattern and PCS ranges are bounded only.', None),
    'C02': ('Perfect-estimate lemmas (ghost clients calling the real functions twice through their contracts): onset, beat F, detection, transcription, tempo, key, '
            'weighted_accuracy all-ones, multipitch arithmetic, alignment pc, chord rules rule(e,e) != 0. Other tasks: bounded metamorphic engine.', None),
    'C03': ('Every evaluate() is executed symbolically over an uninterpreted value sort with a symbolic **kwargs map and proved term-equal, key by key, to the documented '
            'bundle written as direct calls (EUF validity queries); result arity of 49 metric functions from their return statements.', None),
    'C04': ('Definitional postconditions against spec functions written from the cited definitions: P = mm/|est|, R = mm/|ref|, F_beta; tempo hits and P-score; key table; '
            'multipitch formulas; melody frame sums; alignment pc; transcription criteria relations. mm is the size of a maximum matching of the stated relation '
            '(matcher bodies: bounded).', None),
    'C05': ('Discharged: the chroma-wrapped (circular) distance predicate is exactly min(|a-b|, n-|a-b|) on residues with range [0, n/2]; the reference duration that the offset tolerance is a ratio of (util.intervals_to_durations) is exactly end - start; the hit counts behind the transcription precision / recall (onset, offset, overlap, velocity variant) are the size of a maximum matching of the documented note relation. The matcher bodies '
            '(Hopcroft-Karp, hit windows, match_events, note matchers) are bounded: brute-force maximum matching on exhaustive small scopes; their contract is what all callers are verified against.', None),
    'C06': ('Swap lemmas from the callee contracts plus the transposition fact of maximum matchings: onset, beat, detection, transcription onset-only / no-offset, '
            'T-/L-measure role exchange, overseg/underseg forwarding (EUF), F symmetric at beta=1. Segment indices and pattern: bounded.', None),
    'C07': ('Monotonicity / nesting lemmas: hit relation inclusion => mm monotone => P, R monotone; with-offset <= no-offset <= onset-only; strict <= non-strict; '
            'raw pitch <= raw chroma; cent tolerance, alignment window, tempo tol monotone; both => one. Beat continuity / Cemgil ordering: bounded.', None),
    'C08': ('Shift lemmas (onset, beat, transcription) and estimate-order lemma (tempo) from contracts; label renaming, pattern order, multipitch frame order, PCS shift: bounded.', None),
    'C09': ('11 chord rules invariant under joint transposition (rule level, all encodings); key table depends on (est - ref) mod 12; KEY_TO_SEMITONE equals pitch spelling; '
            'raw accuracies independent of estimated voicing. Mirex transposition, enharmonic respelling end-to-end, octave/common-factor scaling of frequencies: bounded.', None),
    'C10': ('L(CHORD_RE) = L(Harte grammar): the pattern is translated mechanically from the real source and both inclusions are decided by z3; '
            'validate/split/join/encode vs an independent spec encoder on ~120k labels and mutations (bounded).', None),
    'C11': ('Each of the 12 comparison functions is proved equal, row by row for every list length, to the documented rule over label encodings (symbolic execution of the '
            'vectorised NumPy body); the lattice, ignored-by-reference, self != 0 and X-ignored lemmas are proved over all well-formed encodings.', None),
    'C12': ('weighted_accuracy = duration-weighted mean over comparable rows (SUM with induction-proved lemma library and the mask-selection model), scale invariance, '
            'all-ones / all-zeros lemmas. Cut invariance of segment / hierarchy labelling scores: bounded.', None),
    'C13': ('adjust_intervals and adjust_events: non-empty, begin at t_min, end at t_max, positive durations, ordered - for all sizes and all t_min/t_max, outside the recorded '
            'wholly-outside finding. Per-instant label preservation, merge_labeled_intervals, interpolate/samples, boundary round trip: exhaustive small scope (bounded).', None),
    'C14': ('Exceptional postconditions "raises E iff documented condition" and every safe obligation (division, index, unpack, empty reduction, None arithmetic) of every '
            'function under contract; validators of util, onset, beat, chord, tempo, segment, transcription, melody, alignment, hierarchy parameters, io loaders.', None),
    'C15': ('One frame obligation per mutation site of every function of 17 modules (origin analysis with inferred callee summaries): the written object is fresh on every '
            'path; no module state is written. Native purity harness (argument snapshots, repeatability, reversed order on fresh module state): bounded.', None),
    'C16': ('vmeasure is nce(marginal=True) (EUF); F = f_measure(over, under, beta). The six functions vs textbook formulas on the frame contingency table: bounded.', None),
    'C17': ('tmeasure / lmeasure: ValueError iff frame_size <= 0 or frame_size > window (or invalid hierarchy); precision and recall are the same ranking score with roles '
            'exchanged and the same window; F definition; range. Ranking core vs brute-force triplet definition: bounded.', None),
    'C18': ('e_tot = e_sub + e_miss + e_fa, each >= 0, acc <= min(P, R), formulas and zero-reference case proved over symbolic-length arrays with the SUM lemma library. '
            'Resampling and per-frame counts: bounded frame-by-frame spec.', None),
    'C19': ('Arity of the four BSS entry points, initialisation of every np.empty cell on every path, permutation-search index consistency, separation.evaluate bundle (EUF). '
            'Decomposition sum, invariances, framewise consistency: bounded native harness. Least-squares content: not decided.', None),
    'C20': ('Loader wrappers over an abstract file: returned columns are the parsed content in file order, ValueError iff malformed / wrong line count / weight outside [0,1], '
            'convention violations only warn. Parsing itself (re, float) on generated files: bounded.', None),
}
for _p, (_claim, _note) in TEXTS.items():
    if _p in PLAN:
        PLAN[_p]['claim'] = _claim
        PLAN[_p]['note'] = _note or _COMMON_NOTE
        PLAN[_p].setdefault('technique', 'contract-based deductive verification: VCs generated from the real AST against sidecar contracts, discharged by z3/cvc5'
                            + ('; bounded stand-ins labelled as such' if PLAN[_p].get('engines') else ''))
PLAN['C05']['technique'] = 'contracts on the tolerance predicates (circular distance) and on every caller of the matchers; matcher bodies by bounded exhaustive enumeration against brute-force maximum matching'
PLAN['C15']['technique'] = 'frame (assigns) obligations per mutation site discharged by a flow-sensitive origin analysis with inferred callee summaries; native purity harness as bounded stand-in'
PLAN['C03']['technique'] = 'symbolic execution of evaluate() over uninterpreted functions (EUF) against the documented bundle; z3 validity query per metric name'
PLAN['C10']['technique'] = 'regular-language equivalence of the real pattern and the Harte grammar decided by z3; bounded enumeration of labels against an independent spec'
