"""Worker pool: one task per function / lemma (VC generation + discharge inside the worker)."""
import multiprocessing as mp
import os
import sys
import time
import traceback

import z3

from . import frontend

KIND_PROPS = {
    'safe': {'C14', 'C20', 'C10'},
    'exc': {'C14', 'C20', 'C10'},
    'arity': {'C03', 'C14', 'C19'},
}


def effective_props(ob, fn_props):
    """properties an obligation is evidence for"""
    explicit = set(ob.props or ())
    fn_props = set(fn_props)
    if ob.kind in ('post', 'lemma') or ob.kind.startswith('inv') or ob.kind in ('frame', 'init', 'regex', 'route', 'keys'):
        return explicit or fn_props
    if ob.kind in ('cover', 'canary', 'pre@call'):
        return fn_props or explicit
    base = set(KIND_PROPS.get(ob.kind, set()))
    if ob.kind == 'safe' and ob.label in ('div', 'mean-nonempty', 'floordiv', 'mod'):
        base |= {'C01'}
    r = (base & fn_props) if fn_props else base
    if explicit and explicit != fn_props:
        r |= explicit
    return r or fn_props or explicit


def _work(task):
    kind, name, timeout_s = task['kind'], task['name'], task.get('timeout', 10.0)
    findings = task.get('findings', [])
    t0 = time.time()
    try:
        from . import contract, solve, npmodel
        reg = contract.Registry()
        if kind == 'fn':
            c = reg.get(name)
            rep = contract.verify_function(c, reg)
            fn_props = c.props
        else:
            lem = [l for l in reg.lemmas if l.name == name][0]
            rep = contract.verify_lemma(lem, reg)
            fn_props = lem.props
        out = dict(kind=kind, name=name, status=rep.status, detail=rep.detail, paths=rep.paths, obligations=[],
                   inlined=sorted(rep.inlined), used_contracts=sorted(rep.used_contracts), props=list(fn_props),
                   trusted_facts=sorted(rep.trusted_facts), shard=task.get('shard'))
        gen_time = time.time() - t0
        seen = {}
        shard = task.get('shard')
        for oi, ob in enumerate(rep.obligations):
            if shard is not None and oi % shard[1] != shard[0]:
                continue
            r = solve.discharge(ob, timeout_s)
            rec = dict(id=ob.id, kind=ob.kind, label=ob.label, props=sorted(effective_props(ob, fn_props)), line=ob.line,
                       note=ob.note, expect=ob.expect, verdict=r['verdict'], backend=r['backend'], time=round(r['time'], 4),
                       model=r['model'], goal=ob.goal.sexpr()[:600], finding=None)
            if r['verdict'] in ('refuted', 'unknown'):
                # (an `unknown` is treated like a refutation here: what counts is that the obligation is discharged outside the recorded
                # exclusion; that the recorded witness still fails on the real code is checked natively by the driver)
                for f in findings:
                    if f['obligation'] == ob.id and kind == 'fn':
                        # known finding: the obligation must still be discharged outside the recorded exclusion
                        excl = contract.eval_expr(c, f['exclude'], rep.env, rep.st0, reg)
                        ob2 = type(ob)(ob.id, ob.kind, ob.label, list(ob.hyps) + [z3.Not(excl)], ob.goal, ob.props, ob.line, ob.note)
                        ob2.inputs = ob.inputs
                        r2 = solve.discharge(ob2, timeout_s)
                        rec.update(verdict=('known-finding' if r2['verdict'] == 'discharged' else r2['verdict']),
                                   backend=r2['backend'], time=round(r['time'] + r2['time'], 4), model=r2['model'],
                                   finding=f['id'])
            out['obligations'].append(rec)
        out['gen_time'] = round(gen_time, 3)
        out['wall'] = round(time.time() - t0, 3)
        out['lib_used'] = sorted(npmodel.USED)
        return out
    except Exception:
        return dict(kind=kind, name=name, status='error', detail=traceback.format_exc(), paths=0, obligations=[], inlined=[],
                    used_contracts=[], gen_time=0, wall=round(time.time() - t0, 3), lib_used=[], props=[])


def run_tasks(tasks, procs=None):
    procs = procs or min(16, max(1, len(tasks)))
    if len(tasks) == 0:
        return []
    ctx = mp.get_context('fork')
    with ctx.Pool(procs, maxtasksperchild=1) as pool:
        return pool.map(_work, tasks, chunksize=1)


if __name__ == '__main__':
    kind, name = sys.argv[1], sys.argv[2]
    res = _work(dict(kind=kind, name=name, timeout=float(os.environ.get('PYVC_TIMEOUT', '10'))))
    print(res['kind'], res['name'], res['status'], res['detail'], 'paths', res['paths'], 'gen', res['gen_time'], 'wall', res['wall'])
    agg = {}
    for o in res['obligations']:
        if '-v' in sys.argv or o['verdict'] not in ('discharged', 'reachable'):
            print('  %-12s %-70s %-8s %.3fs %s %s' % (o['verdict'], o['id'], o['backend'], o['time'], o['model'] if o['model'] else '', o['note']))
        agg[o['verdict']] = agg.get(o['verdict'], 0) + 1
    print('  ', agg, 'solver', round(sum(o['time'] for o in res['obligations']), 3))
