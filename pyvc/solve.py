"""Discharge of obligations: z3 (E-matching only, then MBQI), then cvc5, then /usr/bin/z3 4.8.

Verdicts: 'discharged' (negation unsat), 'refuted' (negation sat, with a counter-model),
'unknown'.  Cover / canary obligations expect 'sat' of the hypotheses.
"""
import fractions
import os
import subprocess
import tempfile
import time

import z3

from .values import *     # noqa
from . import kinds


def _solver(timeout_ms, mbqi):
    s = z3.Solver()
    s.set('timeout', int(timeout_ms))
    if not mbqi:
        s.set('auto_config', False)
        s.set('smt.mbqi', False)
    return s


def _cvc5_check(smt2, timeout_s):
    """third opinion through the cvc5 CLI (1.0.3) on the SMT-LIB rendering"""
    with tempfile.NamedTemporaryFile('w', suffix='.smt2', delete=False, dir=os.environ.get('TMPDIR', '/tmp')) as f:
        f.write('(set-logic ALL)\n' + smt2)
        path = f.name
    try:
        p = subprocess.run(['/usr/bin/cvc5', '--tlimit=%d' % int(timeout_s * 1000), path], capture_output=True, text=True,
                           timeout=timeout_s + 5)
        out = p.stdout.strip().split('\n')[0] if p.stdout.strip() else ''
        return out if out in ('sat', 'unsat') else 'unknown'
    except Exception:
        return 'unknown'
    finally:
        os.unlink(path)


def _z3old_check(smt2, timeout_s):
    with tempfile.NamedTemporaryFile('w', suffix='.smt2', delete=False, dir=os.environ.get('TMPDIR', '/tmp')) as f:
        f.write(smt2)
        path = f.name
    try:
        p = subprocess.run(['/usr/bin/z3', '-T:%d' % int(timeout_s), path], capture_output=True, text=True, timeout=timeout_s + 5)
        out = p.stdout.strip().split('\n')[0] if p.stdout.strip() else ''
        return out if out in ('sat', 'unsat') else 'unknown'
    except Exception:
        return 'unknown'
    finally:
        os.unlink(path)


def size_terms(record):
    out = []
    for name, r in (record or {}).items():
        if r is None:
            continue
        if r[0] == 'array':
            out.extend([s for s in r[2] if not isinstance(s, int)])
        elif r[0] in ('symlist', 'symlist-of-tuples'):
            out.append(r[2])
        elif r[0] == 'opt' and r[2] is not None:
            out.extend(size_terms({'x': r[2]}))
        elif r[0] in ('tuple', 'list'):
            for x in r[1]:
                out.extend(size_terms({'x': x}))
    return out


class Incremental:
    """one solver per worker: hypotheses of consecutive obligations share long prefixes (same path), so they are asserted once and kept
    on a push/pop stack; only `unsat` answers are taken from it (everything else goes through the fresh-solver cascade)"""

    def __init__(self, timeout_ms=2000):
        self.s = z3.Solver()
        self.s.set('timeout', int(timeout_ms))
        self.stack = []

    def unsat(self, hyps, neg_goal):
        k = 0
        while k < len(self.stack) and k < len(hyps) and self.stack[k] is hyps[k]:
            k += 1
        while len(self.stack) > k:
            self.s.pop()
            self.stack.pop()
        for h in hyps[k:]:
            self.s.push()
            self.s.add(h)
            self.stack.append(h)
        self.s.push()
        self.s.add(neg_goal)
        try:
            r = self.s.check()
        finally:
            self.s.pop()
        return r == z3.unsat


_INC = None


def discharge(ob, timeout_s=10.0, use_fallbacks=True):
    """returns dict(verdict, backend, time, model)"""
    global _INC
    t0 = time.time()
    dump = os.environ.get('PYVC_DUMP')
    if dump and dump in ob.id:
        sd = z3.Solver()
        sd.add(*ob.hyps)
        sd.add(z3.Not(ob.goal))
        with open('/tmp/pyvc_dump_%s.smt2' % ob.id.replace('/', '_').replace('#', '_').replace(':', '_'), 'w') as f:
            f.write(sd.to_smt2())
    if ob.expect != 'sat' and os.environ.get('PYVC_NO_INCREMENTAL') is None:
        if _INC is None:
            _INC = Incremental()
        try:
            if _INC.unsat(ob.hyps, z3.Not(ob.goal)):
                return dict(verdict='discharged', backend='z3-incremental', time=time.time() - t0, model=None)
        except z3.Z3Exception:
            _INC = None
    if ob.expect == 'sat':
        # cover / canary: the hypotheses must be satisfiable
        for mbqi in (True, False):
            s = _solver(min(timeout_s, 1.0) * 1000, mbqi)
            s.add(*ob.hyps)
            r = s.check()
            if r == z3.sat:
                return dict(verdict='reachable', backend='z3' + ('+mbqi' if mbqi else ''), time=time.time() - t0, model=None)
            if r == z3.unsat:
                return dict(verdict='vacuous', backend='z3', time=time.time() - t0, model=None)
        return dict(verdict='unknown-reachability', backend='z3', time=time.time() - t0, model=None)
    neg = z3.Not(ob.goal)
    last = None
    ext = sum_extensionality(ob) if os.environ.get('PYVC_NO_SUMEXT') is None else []
    if ext:
        s = _solver(min(timeout_s, 3.0) * 1000, False)
        s.add(*ob.hyps)
        s.add(*ext)
        s.add(neg)
        if s.check() == z3.unsat:
            return dict(verdict='discharged', backend='z3+sum_eq', time=time.time() - t0, model=None)
    for mbqi in (False, True):
        # the MBQI stage gets three times the budget: the obligations that need it take seconds when the machine is idle and must
        # not flip to `unknown` when all cores are busy
        s = _solver(timeout_s * (3000 if mbqi else 1000), mbqi)
        s.add(*ob.hyps)
        s.add(neg)
        r = s.check()
        if r == z3.unsat:
            return dict(verdict='discharged', backend='z3' + ('+mbqi' if mbqi else ''), time=time.time() - t0, model=None)
        if r == z3.sat:
            model = small_model(ob, neg, timeout_s) or read_model(s.model(), ob.inputs)
            return dict(verdict='refuted', backend='z3' + ('+mbqi' if mbqi else ''), time=time.time() - t0, model=model)
        last = s
    if ext:
        # instances of the library lemma sum_eq (proved by the induction schema every run) for the SUM terms that occur
        for mbqi in (True, False):
            s = _solver(timeout_s * (3000 if mbqi else 1000), mbqi)
            s.add(*ob.hyps)
            s.add(*ext)
            s.add(neg)
            if s.check() == z3.unsat:
                return dict(verdict='discharged', backend='z3+sum_eq' + ('+mbqi' if mbqi else ''), time=time.time() - t0, model=None)
        last = s
    if use_fallbacks:
        smt2 = last.to_smt2()
        r = _cvc5_check(smt2, timeout_s)
        if r == 'unsat':
            return dict(verdict='discharged', backend='cvc5', time=time.time() - t0, model=None)
        r2 = _z3old_check(smt2, timeout_s)
        if r2 == 'unsat':
            return dict(verdict='discharged', backend='z3-4.8.12', time=time.time() - t0, model=None)
        # a `sat` of a fallback solver carries no model we can replay (and the SMT-LIB rendering of lambdas / patterns is not
        # trusted for refutation): it stays `unknown`
    return dict(verdict='unknown', backend='z3,cvc5,z3-4.8.12' if use_fallbacks else 'z3', time=time.time() - t0, model=None)


def sum_extensionality(ob):
    """instances of sum_eq for ground SUM(f, n) terms of an obligation (and of the same statement for MEDIAN(f, n), the median of the
    first n cells, which holds by definition):
        n1 == n2 and (forall 0 <= i < n1: f1[i] == f2[i])  ==>  SUM(f1, n1) == SUM(f2, n2)
    Goal-directed: every term of the goal is paired with every term (goal or hypotheses) of the same syntactic length; when the goal has
    none, the hypotheses' terms are paired among themselves (small sets only)."""
    def collect(exprs):
        found, seen = [], set()

        def walk(t):
            if t.get_id() in seen or z3.is_quantifier(t):
                return
            seen.add(t.get_id())
            if z3.is_app(t):
                if t.decl().name() in ('SUM', 'MEDIAN') and t.num_args() == 2 and not any(x.get_id() == t.get_id() for x in found):
                    found.append(t)
                for c in t.children():
                    walk(c)
        for h in exprs:
            if z3.is_expr(h):
                walk(h)
        return found
    in_goal = collect([ob.goal])
    everywhere = collect(list(ob.hyps) + [ob.goal])
    if in_goal:
        pairs = [(g, o) for g in in_goal for o in everywhere if g.get_id() != o.get_id()]
    elif len(everywhere) <= 8:
        pairs = [(everywhere[a], everywhere[b]) for a in range(len(everywhere)) for b in range(a + 1, len(everywhere))]
    else:
        pairs = []
    out, done = [], set()
    for ta, tb in pairs:
        key = tuple(sorted((ta.get_id(), tb.get_id())))
        if key in done or len(out) >= 60:
            continue
        done.add(key)
        f1, n1, f2, n2 = ta.arg(0), ta.arg(1), tb.arg(0), tb.arg(1)
        if f1.eq(f2) or ta.decl().name() != tb.decl().name():
            continue
        i = z3.Int('sx!%d' % len(out))
        same_cells = z3.ForAll([i], z3.Implies(z3.And(0 <= i, i < n1), z3.Select(f1, i) == z3.Select(f2, i)))
        out.append(z3.Implies(same_cells if n1.eq(n2) else z3.And(n1 == n2, same_cells), ta == tb))
    return out


def small_model(ob, neg, timeout_s):
    """iterative deepening on container sizes so that witnesses are small (DESIGN Appendix A)"""
    sizes = size_terms(ob.inputs)
    if not sizes:
        return None
    for bound in (1, 2, 3):
        s = _solver(min(timeout_s, 2.0) * 1000, True)
        s.add(*ob.hyps)
        s.add(neg)
        for t in sizes:
            s.add(t <= bound)
        if s.check() == z3.sat:
            return read_model(s.model(), ob.inputs)
    return None


def _pyval(m, t):
    v = m.eval(t, model_completion=True)
    if z3.is_true(v):
        return True
    if z3.is_false(v):
        return False
    if z3.is_int_value(v):
        return v.as_long()
    if z3.is_rational_value(v):
        fr = fractions.Fraction(v.numerator_as_long(), v.denominator_as_long())
        return float(fr) if fr.denominator != 1 else float(fr.numerator)
    if z3.is_algebraic_value(v):
        return float(v.approx(12).as_fraction())
    return str(v)


def read_value(m, r, cap=12):
    if r is None:
        return None
    tag = r[0]
    if tag == 'scalar':
        v = _pyval(m, r[1])
        if isinstance(r[2], kinds.KObj):
            return 'obj:' + str(v)
        return v
    if tag == 'opt':
        if _pyval(m, r[1]) is True:
            return None
        return read_value(m, r[2], cap)
    if tag in ('tuple', 'list'):
        return [read_value(m, x, cap) for x in r[1]]
    if tag == 'array':
        f, shape = r[1], r[2]
        dims = [s if isinstance(s, int) else _pyval(m, s) for s in shape]
        dims = [min(int(d), cap) for d in dims]
        if len(dims) == 1:
            return [_pyval(m, f(z3.IntVal(i))) for i in range(dims[0])]
        return [[_pyval(m, f(z3.IntVal(i), z3.IntVal(j))) for j in range(dims[1])] for i in range(dims[0])]
    if tag == 'symlist-of-tuples':
        fs, n = r[1], r[2]
        k = min(int(_pyval(m, n)), cap)
        return [[_pyval(m, f(z3.IntVal(i))) for f in fs] for i in range(k)]
    if tag == 'symlist':
        f, n = r[1], r[2]
        k = min(int(_pyval(m, n)), cap)
        return ['obj:' + str(_pyval(m, f(z3.IntVal(i)))) for i in range(k)]
    return None


def read_model(m, record):
    out = {}
    for name, r in (record or {}).items():
        try:
            out[name] = read_value(m, r)
        except Exception as ex:       # model reading must never crash a check
            out[name] = 'unreadable: %s' % ex
    return out
