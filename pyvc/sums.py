"""Finite sums over symbolic-length arrays.

SUM(f, n) is an uninterpreted function of a z3 array (the Lambda of the cell expression) and a length, with the
recursive meaning  SUM(f, 0) = 0,  SUM(f, k+1) = SUM(f, k) + f[k].  The solver never unfolds it; the facts the
contracts need are *lemmas of a small library*, each proved once per run by an induction schema (base and step VCs
over arbitrary f, g, discharged by z3 from the recursive definition) and then applied explicitly (`hint`) with their
premises as obligations.  The induction principle itself is the only thing trusted.
"""
import z3

from .values import *     # noqa
from .symex import OutOfSubset

_SUM = None


def SUM():
    global _SUM
    if _SUM is None:
        _SUM = z3.Function('SUM', z3.ArraySort(z3.IntSort(), z3.RealSort()), z3.IntSort(), z3.RealSort())
    return _SUM


def lam_of(a):
    i = z3.Int(fresh_name('s'))
    return z3.Lambda([i], to_z3(to_real(to_num(a.at(i)))))


def sum_of(eng, st, a):
    if a.ndim != 1:
        raise OutOfSubset('sum of a %d-D symbolic array' % a.ndim)
    eng.trusted_facts.add('SUM(f, n): recursive definition, lemma library proved by induction schema (base + step VCs discharged every run)')
    info = getattr(eng, 'compress_info', {}).get(getattr(a, '_oid', None))
    return SUM()(lam_of(a), to_z3(a.shape[0]))


def compress_sum_fact(src, mask, res):
    """SUM over a[mask] equals SUM over ite(mask, a, 0) (model fact of boolean-mask selection, conformance-tested)"""
    i = z3.Int(fresh_name('s'))
    masked = z3.Lambda([i], z3.If(to_z3(to_bool(mask.at(i))), to_z3(to_real(to_num(src.at(i)))), z3.RealVal(0)))
    return SUM()(lam_of(res), to_z3(res.shape[0])) == SUM()(masked, to_z3(src.shape[0]))


# ----------------------------------------------------------------------------- lemma library (induction schema)
def library_obligations():
    """base / step VCs of every lemma of the library, over arbitrary arrays; returns list of (name, hyps, goal)"""
    S = SUM()
    A = z3.ArraySort(z3.IntSort(), z3.RealSort())
    f, g, h = z3.Const('f', A), z3.Const('g', A), z3.Const('h', A)
    k = z3.Int('k')
    c = z3.Real('c')
    i = z3.Int('i')
    defs = lambda arrs: [S(a, 0) == 0 for a in arrs] + [S(a, k + 1) == S(a, k) + a[k] for a in arrs] + [k >= 0]
    out = []
    # non-negative
    out.append(('sum_nonneg.base', defs([f]), S(f, 0) >= 0))
    out.append(('sum_nonneg.step', defs([f]) + [S(f, k) >= 0, f[k] >= 0], S(f, k + 1) >= 0))
    # monotone
    out.append(('sum_le.base', defs([f, g]), S(f, 0) <= S(g, 0)))
    out.append(('sum_le.step', defs([f, g]) + [S(f, k) <= S(g, k), f[k] <= g[k]], S(f, k + 1) <= S(g, k + 1)))
    # additivity (h = f + g pointwise)
    out.append(('sum_add.base', defs([f, g, h]), S(h, 0) == S(f, 0) + S(g, 0)))
    out.append(('sum_add.step', defs([f, g, h]) + [S(h, k) == S(f, k) + S(g, k), h[k] == f[k] + g[k]], S(h, k + 1) == S(f, k + 1) + S(g, k + 1)))
    # scaling (g = c * f pointwise)
    out.append(('sum_scale.base', defs([f, g]), S(g, 0) == c * S(f, 0)))
    out.append(('sum_scale.step', defs([f, g]) + [S(g, k) == c * S(f, k), g[k] == c * f[k]], S(g, k + 1) == c * S(f, k + 1)))
    # pointwise equal
    out.append(('sum_eq.base', defs([f, g]), S(f, 0) == S(g, 0)))
    out.append(('sum_eq.step', defs([f, g]) + [S(f, k) == S(g, k), f[k] == g[k]], S(f, k + 1) == S(g, k + 1)))
    # constant summand
    out.append(('sum_const.base', defs([f]), S(f, 0) == c * 0))
    out.append(('sum_const.step', defs([f]) + [S(f, k) == c * z3.ToReal(k), f[k] == c], S(f, k + 1) == c * z3.ToReal(k + 1)))
    # all zero
    out.append(('sum_zero.base', defs([f]), S(f, 0) == 0))
    out.append(('sum_zero.step', defs([f]) + [S(f, k) == 0, f[k] == 0], S(f, k + 1) == 0))
    # strictly positive as soon as one term is positive (all terms non-negative):  P(k): j < k => S(f,k) >= f[j]
    j = z3.Int('j')
    out.append(('sum_ge_term.step', defs([f]) + [0 <= j, j <= k, f[k] >= 0, S(f, k) >= 0, z3.Implies(j < k, S(f, k) >= f[j])], S(f, k + 1) >= f[j]))
    # telescoping (f[i] = g[i+1] - g[i] pointwise):  P(k): S(f,k) == g[k] - g[0]
    out.append(('sum_telescope.base', defs([f]), S(f, 0) == g[0] - g[0]))
    out.append(('sum_telescope.step', defs([f]) + [S(f, k) == g[k] - g[0], f[k] == g[k + 1] - g[k]], S(f, k + 1) == g[k + 1] - g[0]))
    return out


# ----------------------------------------------------------------------------- applications (premise -> conclusion)
def _arr(eng, st, v):
    from . import npmodel
    a = npmodel.arr_of(eng, st, v)
    if a is None or a.ndim != 1:
        raise OutOfSubset('sum fact on a non 1-D array')
    return a


def _all(n, body):
    i = z3.Int(fresh_name('s'))
    return z3.ForAll([i], z3.Implies(z3.And(0 <= i, i < to_z3(n)), body(i)))


def fact(name, eng, st, args):
    """-> (premise, conclusion) as z3 formulas"""
    S = SUM()
    if name == 'sum_nonneg':
        a = _arr(eng, st, args[0])
        return _all(a.shape[0], lambda i: to_z3(to_real(to_num(a.at(i)))) >= 0), S(lam_of(a), to_z3(a.shape[0])) >= 0
    if name == 'sum_le':
        a, b = _arr(eng, st, args[0]), _arr(eng, st, args[1])
        prem = z3.And(to_z3(eq(a.shape[0], b.shape[0])), _all(a.shape[0], lambda i: to_z3(to_real(to_num(a.at(i)))) <= to_z3(to_real(to_num(b.at(i))))))
        return prem, S(lam_of(a), to_z3(a.shape[0])) <= S(lam_of(b), to_z3(b.shape[0]))
    if name == 'sum_eq':
        a, b = _arr(eng, st, args[0]), _arr(eng, st, args[1])
        prem = z3.And(to_z3(eq(a.shape[0], b.shape[0])), _all(a.shape[0], lambda i: to_z3(to_real(to_num(a.at(i)))) == to_z3(to_real(to_num(b.at(i))))))
        return prem, S(lam_of(a), to_z3(a.shape[0])) == S(lam_of(b), to_z3(b.shape[0]))
    if name == 'sum_add':       # sum_add(h, f, g, ...):  h = f + g + ... pointwise
        arrs = [_arr(eng, st, x) for x in args]
        hh, parts = arrs[0], arrs[1:]
        n = hh.shape[0]

        def body(i):
            r = to_z3(to_real(to_num(parts[0].at(i))))
            for p in parts[1:]:
                r = r + to_z3(to_real(to_num(p.at(i))))
            return to_z3(to_real(to_num(hh.at(i)))) == r
        prem = z3.And(*([to_z3(eq(p.shape[0], n)) for p in parts] + [_all(n, body)]))
        tot = S(lam_of(parts[0]), to_z3(n))
        for p in parts[1:]:
            tot = tot + S(lam_of(p), to_z3(n))
        return prem, S(lam_of(hh), to_z3(n)) == tot
    if name == 'sum_scale':     # sum_scale(g, c, f): g = c * f pointwise
        g, c, f = _arr(eng, st, args[0]), args[1], _arr(eng, st, args[2])
        prem = z3.And(to_z3(eq(g.shape[0], f.shape[0])), _all(f.shape[0], lambda i: to_z3(to_real(to_num(g.at(i)))) == to_z3(to_real(c)) * to_z3(to_real(to_num(f.at(i))))))
        return prem, S(lam_of(g), to_z3(g.shape[0])) == to_z3(to_real(c)) * S(lam_of(f), to_z3(f.shape[0]))
    if name == 'sum_const':     # sum_const(a, c): every cell equals c  ==>  SUM(a) = c * n
        a, c = _arr(eng, st, args[0]), args[1]
        return z3.And(to_z3(le(0, a.shape[0])), _all(a.shape[0], lambda i: to_z3(to_real(to_num(a.at(i)))) == to_z3(to_real(c)))), \
            S(lam_of(a), to_z3(a.shape[0])) == to_z3(to_real(c)) * z3.ToReal(to_z3(a.shape[0]))
    if name == 'sum_zero':
        a = _arr(eng, st, args[0])
        return _all(a.shape[0], lambda i: to_z3(to_real(to_num(a.at(i)))) == 0), S(lam_of(a), to_z3(a.shape[0])) == 0
    if name == 'sum_ge_term':   # sum_ge_term(a, j): all terms >= 0 and 0 <= j < n  ==>  SUM(a) >= a[j]
        a, jj = _arr(eng, st, args[0]), args[1]
        prem = z3.And(to_z3(le(0, jj)), to_z3(lt(jj, a.shape[0])), _all(a.shape[0], lambda i: to_z3(to_real(to_num(a.at(i)))) >= 0))
        return prem, S(lam_of(a), to_z3(a.shape[0])) >= to_z3(to_real(to_num(a.at(jj))))
    if name == 'sum_telescope':  # sum_telescope(d, a): len(a) == len(d) + 1 and d[i] == a[i+1] - a[i]  ==>  SUM(d) == a[len(d)] - a[0]
        d, a = _arr(eng, st, args[0]), _arr(eng, st, args[1])
        n = d.shape[0]
        prem = z3.And(to_z3(le(0, n)), to_z3(eq(a.shape[0], add(n, 1))),
                      _all(n, lambda i: to_z3(to_real(to_num(d.at(i)))) == to_z3(to_real(to_num(a.at(i + 1)))) - to_z3(to_real(to_num(a.at(i))))))
        return prem, S(lam_of(d), to_z3(n)) == to_z3(to_real(to_num(a.at(to_z3(n))))) - to_z3(to_real(to_num(a.at(0))))
    raise OutOfSubset('unknown sum fact %s' % name)


FACTS = ['sum_telescope', 'sum_const', 'sum_nonneg', 'sum_le', 'sum_eq', 'sum_add', 'sum_scale', 'sum_zero', 'sum_ge_term']
