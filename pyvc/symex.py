"""Symbolic executor for the Python/NumPy subset of DESIGN.md 2.2.

Executes the *real* `ast.FunctionDef` of a repository function against its
sidecar contract.  The same interpreter runs on concrete values (translation
cross-check against CPython; native evaluation of contract clauses in replay).

A path state `St` carries: env (name -> value), heap (oid -> object snapshot),
pc (list of z3 facts: path condition + model axioms).  Evaluation is written
as generators yielding (value, state) so that any construct may split paths.
"""
import ast
import itertools

import z3

from . import frontend
from .values import *          # noqa
from . import values as V


class OutOfSubset(Exception):
    pass


class St:
    __slots__ = ('env', 'heap', 'pc', 'trace')

    def __init__(self, env=None, heap=None, pc=None, trace=None):
        self.env = env if env is not None else {}
        self.heap = heap if heap is not None else {}
        self.pc = pc if pc is not None else []
        self.trace = trace if trace is not None else []

    def fork(self):
        return St(dict(self.env), dict(self.heap), list(self.pc), list(self.trace))

    def assume(self, fact):
        if isinstance(fact, bool):
            if not fact:
                self.pc.append(z3.BoolVal(False))
            return self
        self.pc.append(fact)
        return self


_oid = itertools.count(1)


def new_ref(st, obj):
    r = Ref(next(_oid))
    st.heap[r.oid] = obj
    return r


class Obligation:
    def __init__(self, oid, kind, label, hyps, goal, props=(), line=None, note='', expect='unsat'):
        self.id, self.kind, self.label = oid, kind, label
        self.hyps, self.goal = hyps, goal
        self.props = tuple(props)
        self.line = line
        self.note = note
        self.expect = expect      # 'unsat' for proof goals; 'sat' for cover / canary
        self.inputs = None        # name -> symbolic value of function inputs (for counter-models)


class Engine:
    """One engine per function under verification."""

    def __init__(self, mod, fd, qual, registry=None, lib=None, concrete=False, feas_timeout=300):
        self.mod, self.fd, self.qual = mod, fd, qual
        self.registry = registry
        self.lib = lib or {}
        self.obligations = []
        self.concrete = concrete
        self.feas_timeout = feas_timeout
        self.stmt_ord = {}
        self._number(fd)
        self.cur_stmt = None
        self.clauses = None          # active clause collector while a contract body runs
        self.inline = set()
        self.loop_invariants = {}
        self.callee_summaries = {}
        self.n_paths = 0
        self.max_paths = 4000
        self.input_syms = {}
        self.default_props = ()
        self.spec_funcs = {}
        self.auto_inline = False
        self.compress_info = {}
        self.mask_cache = {}
        self.index_masks = {}
        self.inv_funcs = {}
        self.trusted_facts = set()
        self.instance_results = []
        self.ghosts = {}
        self.ghost_mode = False
        self.havoc_kinds = {}
        self.inlined = set()
        self.used_contracts = set()
        self.spec_mode = False       # evaluating contract clauses: no obligations, no path splitting on and/or
        self.lemma_mode = False      # executing a lemma client: requires are assumed, ensures are proved

    # ------------------------------------------------------------------ bookkeeping
    def _number(self, fd):
        k = 0
        for n in ast.walk(fd):
            if isinstance(n, ast.stmt):
                self.stmt_ord[id(n)] = k
                k += 1

    def where(self):
        if self.cur_stmt is None:
            return ''
        return '@s%d' % self.stmt_ord.get(id(self.cur_stmt), -1)

    def oblige(self, kind, label, st, goal, props=None, note=''):
        """record an obligation under the current path condition, then assume it"""
        if self.spec_mode:
            return
        if isinstance(goal, bool):
            # a goal that constant-folds to True is still recorded (so that obligation counts do not depend on folding)
            goal = z3.BoolVal(goal)
        oid = '%s#%s:%s%s' % (self.qual, kind, label, self.where())
        ob = Obligation(oid, kind, label, list(st.pc), goal, props or self.default_props,
                        getattr(self.cur_stmt, 'lineno', None), note)
        ob.inputs = self.input_syms
        self.obligations.append(ob)
        st.assume(goal)

    def feasible(self, st, cond=None):
        if cond is not None and isinstance(cond, bool):
            return cond
        s = z3.Solver()
        s.set('timeout', self.feas_timeout)
        s.set('auto_config', False)
        s.set('smt.mbqi', False)        # pruning only needs cheap refutations; `unknown` keeps the branch (sound)
        s.add(*st.pc)
        if cond is not None:
            s.add(cond)
        return s.check() != z3.unsat

    def split(self, st, cond):
        """yield (truth, state) for the feasible sides of a boolean condition"""
        cond = to_bool(cond)
        if isinstance(cond, bool):
            yield cond, st
            return
        cond = z3.simplify(cond)
        if z3.is_true(cond):
            yield True, st
            return
        if z3.is_false(cond):
            yield False, st
            return
        t_ok = self.feasible(st, cond)
        f_ok = self.feasible(st, z3.Not(cond))
        if t_ok and f_ok:
            st2 = st.fork()
            yield True, st.assume(cond)
            yield False, st2.assume(z3.Not(cond))
        elif t_ok:
            yield True, st.assume(cond)
        elif f_ok:
            yield False, st.assume(z3.Not(cond))

    # ------------------------------------------------------------------ expressions
    def ev_many(self, exprs, st):
        """evaluate expressions left to right; yields (list_of_values | Raised, st)"""
        def rec(i, acc, st):
            if i == len(exprs):
                yield list(acc), st
                return
            for v, st1 in self.ev(exprs[i], st):
                if isinstance(v, Raised):
                    yield v, st1
                else:
                    yield from rec(i + 1, acc + [v], st1)
        yield from rec(0, [], st)

    def ev(self, e, st):
        m = getattr(self, 'ev_' + type(e).__name__, None)
        if m is None:
            raise OutOfSubset('expression %s' % type(e).__name__)
        yield from m(e, st)

    def ev_Constant(self, e, st):
        yield e.value, st

    def ev_JoinedStr(self, e, st):
        yield '<msg>', st

    def lookup(self, name, st):
        if name in st.env:
            return st.env[name]
        if name in self.spec_funcs:
            return self.spec_funcs[name]
        if name in self.mod.functions:
            return FnV('repo', '%s.%s' % (self.mod.name, name))
        if name in self.mod.assigns:
            return self.module_const(self.mod, name, st)
        if name in self.mod.imports:
            return FnV('lib', self.mod.imports[name])
        if name in ('ValueError', 'TypeError', 'IndexError', 'KeyError', 'ZeroDivisionError', 'Exception',
                    'NotImplementedError', 'IOError'):
            return FnV('exc', name)
        if name.endswith('Exception') or name.endswith('Error'):
            return FnV('exc', name)
        if name in BUILTINS:
            return FnV('builtin', name)
        if name in ('True', 'False', 'None'):
            return {'True': True, 'False': False, 'None': None}[name]
        raise OutOfSubset('unbound name %s' % name)

    def module_const(self, mod, name, st):
        node = mod.assigns[name]
        try:
            val = ast.literal_eval(node)
        except Exception:
            raise OutOfSubset('module constant %s.%s is not a literal' % (mod.name, name))
        return self.lift_literal(val, st, origin='global')

    def lift_literal(self, val, st, origin='fresh'):
        if isinstance(val, (list,)):
            return new_ref(st, ListV([self.lift_literal(x, st, origin) for x in val], origin))
        if isinstance(val, tuple):
            return tuple(self.lift_literal(x, st, origin) for x in val)
        if isinstance(val, dict):
            return new_ref(st, DictV({k: self.lift_literal(x, st, origin) for k, x in val.items()}, origin))
        return val

    def ev_Name(self, e, st):
        yield self.lookup(e.id, st), st

    def ev_Tuple(self, e, st):
        for vals, st1 in self.ev_many(e.elts, st):
            yield (vals if isinstance(vals, Raised) else tuple(vals)), st1

    def ev_List(self, e, st):
        for vals, st1 in self.ev_many(e.elts, st):
            if isinstance(vals, Raised):
                yield vals, st1
            else:
                yield new_ref(st1, ListV(vals)), st1

    def ev_Dict(self, e, st):
        for vals, st1 in self.ev_many(list(e.values), st):
            if isinstance(vals, Raised):
                yield vals, st1
                continue
            keys = [ast.literal_eval(k) for k in e.keys]
            yield new_ref(st1, DictV(dict(zip(keys, vals)))), st1

    def ev_Lambda(self, e, st):
        yield FnV('lambda', '<lambda>', e, dict(st.env)), st

    def ev_UnaryOp(self, e, st):
        for v, st1 in self.ev(e.operand, st):
            if isinstance(v, Raised):
                yield v, st1
                continue
            if isinstance(e.op, ast.Not):
                yield not_(self.truth(v, st1)), st1
            elif isinstance(e.op, ast.USub):
                yield self.lib_unary('neg', v, st1), st1
            elif isinstance(e.op, ast.UAdd):
                yield v, st1
            elif isinstance(e.op, ast.Invert):
                yield self.lib_unary('invert', v, st1), st1
            else:
                raise OutOfSubset('unary op')

    def truth(self, v, st):
        if isinstance(v, Ref):
            o = st.heap[v.oid]
            if isinstance(o, ListV):
                return len(o.items) > 0
            if isinstance(o, SymListV):
                return o.n > 0
            if isinstance(o, DictV):
                return len(o.items) > 0
            raise OutOfSubset('truth value of an array')
        if isinstance(v, Opt):
            # Python truthiness of an optional value: None is false, otherwise the truth value of the value itself
            return and_(not_(v.isnone), self.truth(v.val, st))
        return to_bool(v)

    def lib_unary(self, op, v, st):
        if isinstance(v, Ref):
            a = st.heap[v.oid]
            if not isinstance(a, ArrV):
                raise OutOfSubset('unary %s on %s' % (op, type(a).__name__))
            f = {'neg': neg, 'invert': lambda x: not_(to_bool(x))}[op]
            return new_ref(st, ArrV(a.shape, lambda *i, a=a: f(a.at(*i)), a.dtype))
        if op == 'neg':
            return neg(v)
        if op == 'invert':
            if is_bool_like(v):
                return not_(v)
        raise OutOfSubset('unary %s' % op)

    def ev_BoolOp(self, e, st):
        is_and = isinstance(e.op, ast.And)
        if self.spec_mode:
            for vals, st1 in self.ev_many(list(e.values), st):
                if isinstance(vals, Raised):
                    yield vals, st1
                else:
                    bs = [self.truth(v, st1) for v in vals]
                    yield (and_(*bs) if is_and else or_(*bs)), st1
            return

        def rec(i, st):
            for v, st1 in self.ev(e.values[i], st):
                if isinstance(v, Raised) or i == len(e.values) - 1:
                    yield v, st1
                    continue
                for t, st2 in self.split(st1, self.truth(v, st1)):
                    if t != is_and:       # short-circuit: `and` stops on falsy, `or` stops on truthy
                        yield (v if not is_bool_like(v) else t), st2
                    else:
                        yield from rec(i + 1, st2)
        yield from rec(0, st)

    def ev_IfExp(self, e, st):
        for c, st1 in self.ev(e.test, st):
            if isinstance(c, Raised):
                yield c, st1
                continue
            if self.spec_mode:
                for vals, st2 in self.ev_many([e.body, e.orelse], st1):
                    yield (vals if isinstance(vals, Raised) else self.merge_val(self.truth(c, st1), vals[0], vals[1])), st2
                continue
            for t, st2 in self.split(st1, self.truth(c, st1)):
                yield from self.ev(e.body if t else e.orelse, st2)

    def ev_Compare(self, e, st):
        for vals, st1 in self.ev_many([e.left] + list(e.comparators), st):
            if isinstance(vals, Raised):
                yield vals, st1
                continue
            res = []
            for op, a, b in zip(e.ops, vals, vals[1:]):
                res.append(self.compare(op, a, b, st1))
            if len(res) == 1:
                yield res[0], st1
            else:
                yield and_(*[to_bool(r) for r in res]), st1

    def compare(self, op, a, b, st):
        if isinstance(op, (ast.Is, ast.IsNot)):
            if b is None or a is None:
                other = a if b is None else b
                r = other.isnone if isinstance(other, Opt) else (other is None)
            else:
                raise OutOfSubset('`is` on non-None')
            return r if isinstance(op, ast.Is) else not_(r)
        if isinstance(op, (ast.In, ast.NotIn)):
            r = self.contains(b, a, st)
            return r if isinstance(op, ast.In) else not_(r)
        # arrays: elementwise
        if isinstance(a, Ref) or isinstance(b, Ref):
            ao = st.heap[a.oid] if isinstance(a, Ref) else a
            bo = st.heap[b.oid] if isinstance(b, Ref) else b
            if isinstance(ao, ArrV) or isinstance(bo, ArrV):
                f = lambda x, y: self.compare(op, x, y, st)
                return self.elementwise(f, a, b, st, dtype='bool')
            if isinstance(ao, ListV) and isinstance(bo, ListV) and isinstance(op, (ast.Eq, ast.NotEq)):
                r = eq(tuple(ao.items), tuple(bo.items))
                return r if isinstance(op, ast.Eq) else not_(r)
            raise OutOfSubset('comparison of heap objects')
        if isinstance(a, Opt) or isinstance(b, Opt):
            if isinstance(op, ast.Eq):
                return eq(a, b)
            if isinstance(op, ast.NotEq):
                return ne(a, b)
            # ordering comparison with a maybe-None operand: TypeError if None
            for x in (a, b):
                if isinstance(x, Opt):
                    self.oblige('safe', 'not-None', st, not_(x.isnone))
            a = a.val if isinstance(a, Opt) else a
            b = b.val if isinstance(b, Opt) else b
        if isinstance(op, ast.Eq):
            return eq(a, b)
        if isinstance(op, ast.NotEq):
            return ne(a, b)
        if a is None or b is None:
            self.oblige('safe', 'not-None', st, False)
            return False
        if isinstance(op, ast.Lt):
            return lt(a, b)
        if isinstance(op, ast.LtE):
            return le(a, b)
        if isinstance(op, ast.Gt):
            return lt(b, a)
        if isinstance(op, ast.GtE):
            return le(b, a)
        raise OutOfSubset('comparison op')

    def contains(self, container, item, st):
        if isinstance(container, Ref):
            o = st.heap[container.oid]
            if isinstance(o, DictV):
                if isinstance(item, (str, int)):
                    return item in o.items
                return or_(*[eq(item, k) for k in o.items])
            if isinstance(o, ListV):
                return or_(*[eq(item, x) for x in o.items])
        if isinstance(container, (tuple, list)):
            return or_(*[eq(item, x) for x in container])
        if isinstance(container, str) and isinstance(item, str):
            return item in container
        raise OutOfSubset('`in` on %r' % (container,))

    def ev_BinOp(self, e, st):
        for vals, st1 in self.ev_many([e.left, e.right], st):
            if isinstance(vals, Raised):
                yield vals, st1
                continue
            yield self.binop(e.op, vals[0], vals[1], st1), st1

    def binop(self, op, a, b, st):
        ao = st.heap[a.oid] if isinstance(a, Ref) else a
        bo = st.heap[b.oid] if isinstance(b, Ref) else b
        if isinstance(ao, ArrV) or isinstance(bo, ArrV):
            if isinstance(op, ast.Div) and isinstance(ao, ArrV) and not isinstance(bo, (ArrV, ListV, SymListV)) and is_z3(to_num(bo)):
                # array / scalar: one reciprocal, then a product per cell (equal over the reals; keeps summands free of division)
                self.oblige('safe', 'div', st, ne(bo, 0))
                inv = truediv(1.0, bo)
                return self.elementwise(lambda x, y: mul(to_real(x), y), a, inv, st)
            return self.elementwise(lambda x, y: self.binop_scalar(op, x, y, st, numpy=True), a, b, st)
        if isinstance(ao, ListV) and isinstance(bo, ListV) and isinstance(op, ast.Add):
            return new_ref(st, ListV(ao.items + bo.items))
        if isinstance(op, ast.Mult) and (isinstance(ao, ListV) or isinstance(bo, ListV)):
            # [x] * n : n copies of the single element (n <= 0 gives the empty list)
            lst, cnt = (ao, b) if isinstance(ao, ListV) else (bo, a)
            if len(lst.items) == 1 and not isinstance(cnt, Ref):
                cc = concrete(to_num(cnt))
                if cc is not None:
                    return new_ref(st, ListV(list(lst.items) * max(int(cc), 0)))
                x = lst.items[0]
                elem = 'obj'
                if is_z3(x):
                    elem = 'bool' if is_bool_like(x) else 'int' if is_int_like(x) else ('real' if is_real_like(x) else 'obj')
                elif isinstance(x, bool):
                    elem = 'bool'
                elif isinstance(x, int):
                    elem = 'int'
                elif isinstance(x, float):
                    elem = 'real'
                return new_ref(st, SymListV(maxv(to_num(cnt), 0), lambda i, x=x: x, elem))
            raise OutOfSubset('list repetition other than [x] * n')
        if isinstance(a, str) and isinstance(op, ast.Mod):
            return '<msg>'
        if isinstance(a, str) and isinstance(b, str) and isinstance(op, ast.Add):
            return a + b
        if isinstance(a, tuple) and isinstance(b, tuple) and isinstance(op, ast.Add):
            return a + b
        return self.binop_scalar(op, a, b, st)

    def binop_scalar(self, op, a, b, st, numpy=False):
        for x in (a, b):
            if isinstance(x, Opt):
                self.oblige('safe', 'not-None', st, not_(x.isnone))
            elif x is None:
                self.oblige('safe', 'not-None', st, False)
                return 0
        a = a.val if isinstance(a, Opt) else a
        b = b.val if isinstance(b, Opt) else b
        if isinstance(op, ast.Add):
            return add(a, b)
        if isinstance(op, ast.Sub):
            return sub(a, b)
        if isinstance(op, ast.Mult):
            return mul(a, b)
        if isinstance(op, ast.Div):
            self.oblige('safe', 'div', st, ne(b, 0))
            return truediv(a, b)
        if isinstance(op, ast.FloorDiv):
            self.oblige('safe', 'floordiv', st, ne(b, 0))
            return floordiv(a, b)
        if isinstance(op, ast.Mod):
            self.oblige('safe', 'mod', st, ne(b, 0))
            return mod(a, b)
        if isinstance(op, ast.Pow):
            bc = concrete(b)
            if bc == 2:
                return mul(a, a)
            if bc == 1:
                return a
            if not is_z3(a) and not is_z3(b):
                return a ** b
            raise OutOfSubset('general power')
        if isinstance(op, ast.BitAnd) and is_bool_like(a) and is_bool_like(b):
            return and_(a, b)
        if isinstance(op, ast.BitOr) and is_bool_like(a) and is_bool_like(b):
            return or_(a, b)
        raise OutOfSubset('binary op %s' % type(op).__name__)

    def elementwise(self, f, a, b, st, dtype=None):
        ao = st.heap[a.oid] if isinstance(a, Ref) else a
        bo = st.heap[b.oid] if isinstance(b, Ref) else b
        if isinstance(ao, ListV):
            ao = self.list_to_arr(ao)
        if isinstance(bo, ListV):
            bo = self.list_to_arr(bo)
        if isinstance(ao, ArrV) and isinstance(bo, ArrV):
            if ao.ndim == bo.ndim:
                for d, (x, y) in enumerate(zip(ao.shape, bo.shape)):
                    if not (isinstance(x, int) and isinstance(y, int) and (x == y or x == 1 or y == 1)):
                        # broadcasting mismatch raises ValueError in NumPy (A8)
                        self.oblige('safe', 'broadcast', st, or_(eq(x, y), eq(x, 1), eq(y, 1)))
                shape = tuple(x if not (isinstance(x, int) and x == 1) else y for x, y in zip(ao.shape, bo.shape))

                def at(*i, ao=ao, bo=bo):
                    ia = tuple(0 if (isinstance(s, int) and s == 1) else k for k, s in zip(i, ao.shape))
                    ib = tuple(0 if (isinstance(s, int) and s == 1) else k for k, s in zip(i, bo.shape))
                    return f(ao.at(*ia), bo.at(*ib))
            elif ao.ndim == 2 and bo.ndim == 1:
                self.oblige('safe', 'broadcast', st, or_(eq(ao.shape[1], bo.shape[0]), eq(bo.shape[0], 1)))
                shape = ao.shape
                at = lambda i, j, ao=ao, bo=bo: f(ao.at(i, j), bo.at(j))
            elif ao.ndim == 1 and bo.ndim == 2:
                self.oblige('safe', 'broadcast', st, or_(eq(bo.shape[1], ao.shape[0]), eq(ao.shape[0], 1)))
                shape = bo.shape
                at = lambda i, j, ao=ao, bo=bo: f(ao.at(j), bo.at(i, j))
            else:
                raise OutOfSubset('broadcast %dD with %dD' % (ao.ndim, bo.ndim))
            dt = dtype or self.join_dtype(ao.dtype, bo.dtype)
        elif isinstance(ao, ArrV):
            shape, dt = ao.shape, dtype or self.join_dtype(ao.dtype, self.scalar_dtype(bo))
            at = lambda *i, ao=ao, bo=bo: f(ao.at(*i), bo)
        else:
            shape, dt = bo.shape, dtype or self.join_dtype(self.scalar_dtype(ao), bo.dtype)
            at = lambda *i, ao=ao, bo=bo: f(ao, bo.at(*i))
        res = new_ref(st, ArrV(shape, at, dt))
        # same-mask propagation: an elementwise combination of arrays selected by one mask is the selection of the combination
        ia = self.compress_info.get(a.oid) if isinstance(a, Ref) else None
        ib = self.compress_info.get(b.oid) if isinstance(b, Ref) else None
        pa = ia.get('pointwise') if ia else None
        pb = ib.get('pointwise') if ib else None
        if (ia or ib) and (not isinstance(a, Ref) or ia) and (not isinstance(b, Ref) or ib) and (ia is None or ib is None or ia['mask'] is ib['mask']) \
                and (ia is None or callable(pa)) and (ib is None or callable(pb)) and 'phi' in (ia or ib):
            base = ia or ib
            fa = pa if ia else (lambda i, ao=ao: ao)
            fb = pb if ib else (lambda i, bo=bo: bo)
            self.compress_info[res.oid] = {'src': ArrV(base['src'].shape, lambda i: f(fa(i), fb(i)), dt), 'mask': base['mask'], 'phi': base['phi'],
                                           'rank': base['rank'], 'cnt': base['cnt'], 'pointwise': lambda i: f(fa(i), fb(i))}
        return res

    @staticmethod
    def scalar_dtype(v):
        if is_bool_like(v):
            return 'bool'
        if is_int_like(v):
            return 'int'
        return 'real'

    @staticmethod
    def join_dtype(a, b):
        order = ['bool', 'int', 'real', 'obj']
        return order[max(order.index(a), order.index(b))]

    def list_to_arr(self, lv):
        items = [self.plain(x) for x in lv.items]
        if items and all(isinstance(x, tuple) for x in items):
            w = len(items[0])
            return ArrV((len(items), w), lambda i, j, items=items: self.select2(items, i, j), 'real')
        return ArrV((len(items),), lambda i, items=items: self.select(items, i), 'real')

    def plain(self, x):
        return x

    def select(self, items, i):
        """items[i] for a python list of scalars and a possibly symbolic index"""
        if isinstance(i, int):
            return items[i]
        ic = concrete(i)
        if ic is not None:
            return items[int(ic)]
        r = items[-1]
        for k in range(len(items) - 2, -1, -1):
            r = ite(i == k, items[k], r)
        return r

    def select2(self, items, i, j):
        rows = [self.select(list(r), j) for r in items]
        return self.select(rows, i)

    # ---- attribute / subscript
    def ev_Attribute(self, e, st):
        d = frontend.dotted(e)
        if d is not None:
            head = d.split('.')[0]
            if head not in st.env:
                # module attribute: np.less, util.f_measure, np.nan ...
                kind = frontend.resolve(self.mod, d)
                if kind[0] == 'repo':
                    m2 = frontend.module(kind[1])
                    if kind[2] in m2.functions:
                        yield FnV('repo', '%s.%s' % (kind[1], kind[2])), st
                    elif kind[2] in m2.assigns:
                        yield self.module_const(m2, kind[2], st), st
                    else:
                        raise OutOfSubset('unknown repo attribute %s' % d)
                    return
                if kind[0] == 'lib':
                    if kind[1] in ('numpy.nan',):
                        yield NAN, st
                        return
                    if kind[1] in ('numpy.inf',):
                        yield INF, st
                        return
                    if kind[1] == 'numpy.pi':
                        import math
                        yield math.pi, st
                        return
                    yield FnV('lib', kind[1]), st
                    return
        for v, st1 in self.ev(e.value, st):
            if isinstance(v, Raised):
                yield v, st1
                continue
            yield self.getattr(v, e.attr, st1), st1

    def getattr(self, v, attr, st):
        if isinstance(v, Ref):
            o = st.heap[v.oid]
            if isinstance(o, ArrV):
                if attr == 'shape':
                    return tuple(o.shape)
                if attr == 'ndim':
                    return o.ndim
                if attr == 'size':
                    r = o.shape[0]
                    for s in o.shape[1:]:
                        r = mul(r, s)
                    return r
                if attr == 'T' and o.ndim == 2:
                    return new_ref(st, ArrV((o.shape[1], o.shape[0]), lambda i, j, o=o: o.at(j, i), o.dtype, o.origin))
                if attr == 'T' and o.ndim == 1:
                    return v
            return FnV('method', attr, None, {'self': v})
        if isinstance(v, str):
            return FnV('method', attr, None, {'self': v})
        if isinstance(v, FnV) and v.kind == 'lib':
            return FnV('lib', v.name + '.' + attr)
        raise OutOfSubset('attribute %s of %r' % (attr, v))

    def ev_Subscript(self, e, st):
        sl = e.slice
        for base, st1 in self.ev(e.value, st):
            if isinstance(base, Raised):
                yield base, st1
                continue
            for idx, st2 in self.ev_index(sl, st1):
                if isinstance(idx, Raised):
                    yield idx, st2
                    continue
                yield self.getitem(base, idx, st2), st2

    def ev_index(self, sl, st):
        if isinstance(sl, ast.Slice):
            parts = [sl.lower, sl.upper, sl.step]
            for vals, st1 in self.ev_many([p for p in parts if p is not None], st):
                if isinstance(vals, Raised):
                    yield vals, st1
                    continue
                it = iter(vals)
                yield SliceV(*[next(it) if p is not None else None for p in parts]), st1
        elif isinstance(sl, ast.Tuple):
            def rec(i, acc, st):
                if i == len(sl.elts):
                    yield tuple(acc), st
                    return
                for v, st1 in self.ev_index(sl.elts[i], st):
                    if isinstance(v, Raised):
                        yield v, st1
                    else:
                        yield from rec(i + 1, acc + [v], st1)
            yield from rec(0, [], st)
        else:
            yield from self.ev(sl, st)

    def norm_index(self, i, n, st, label='index'):
        """python index -> 0-based, with bound obligation"""
        i = to_num(i)
        ic = concrete(i) if not isinstance(i, int) else i
        if ic is None and self.spec_mode:
            return i            # specification language: a symbolic index is a plain (non-negative) position
        if ic is not None and isinstance(n, int):
            ic = int(ic)
            if ic < 0:
                ic += n
            self.oblige('safe', label, st, 0 <= ic < n)
            return ic
        if ic is not None:
            ic = int(ic)
            if ic < 0:
                self.oblige('safe', label, st, le(-ic, n))
                return add(n, ic)
            self.oblige('safe', label, st, lt(ic, n))
            return ic
        self.oblige('safe', label, st, and_(le(neg(n), i), lt(i, n)))
        return ite(lt(i, 0), add(i, n), i)

    def getitem(self, base, idx, st):
        if base is None and self.spec_mode:
            return 0            # total semantics of the specification language: only reachable under a guard that excludes None
        if isinstance(base, tuple):
            if isinstance(idx, SliceV):
                return base[slice(idx.lo, idx.hi, idx.step)]
            i = self.norm_index(idx, len(base), st)
            return self.select(list(base), i)
        if isinstance(base, str):
            if isinstance(idx, SliceV):
                return base[slice(idx.lo, idx.hi, idx.step)]
            return base[idx]
        if isinstance(base, Ref):
            o = st.heap[base.oid]
            if isinstance(o, DictV):
                if isinstance(idx, (str, int, tuple)):
                    self.oblige('safe', 'key', st, idx in o.items)
                    return o.items.get(idx)
                # symbolic key over a finite dict (e.g. enum-typed strings)
                ks = list(o.items)
                self.oblige('safe', 'key', st, or_(*[eq(idx, k) for k in ks]))
                r = o.items[ks[-1]]
                for k in reversed(ks[:-1]):
                    r = self.merge_val(eq(idx, k), o.items[k], r)
                return r
            if isinstance(o, ListV):
                if isinstance(idx, SliceV):
                    lo, hi = concrete(idx.lo), concrete(idx.hi)
                    if (idx.lo is None or lo is not None) and (idx.hi is None or hi is not None) and idx.step is None:
                        return new_ref(st, ListV(o.items[slice(lo, hi)]))
                    raise OutOfSubset('symbolic slice of a fixed-size list')
                i = self.norm_index(idx, len(o.items), st)
                return self.select(list(o.items), i)
            if isinstance(o, ArrV):
                return self.arr_getitem(base, o, idx, st)
            if isinstance(o, SymListV):
                if isinstance(idx, SliceV):
                    if idx.step is not None:
                        raise OutOfSubset('slice step')
                    from . import npmodel
                    lo = 0 if idx.lo is None else npmodel.clip_index(idx.lo, o.n)
                    hi = o.n if idx.hi is None else npmodel.clip_index(idx.hi, o.n)
                    return new_ref(st, SymListV(maxv(sub(hi, lo), 0), lambda i, o=o, lo=lo: o.at(add(i, lo)), o.elem))
                i = self.norm_index(idx, o.n, st)
                return o.at(i)
        raise OutOfSubset('subscript of %r' % (base,))

    def merge_val(self, c, a, b):
        if isinstance(a, tuple) and isinstance(b, tuple) and len(a) == len(b):
            return tuple(self.merge_val(c, x, y) for x, y in zip(a, b))
        return ite(c, a, b)

    def arr_getitem(self, ref, o, idx, st):
        from . import npmodel
        return npmodel.getitem(self, st, ref, o, idx)

    # ---- calls
    def ev_Call(self, e, st):
        from . import calls
        yield from calls.ev_call(self, e, st)

    def ev_ListComp(self, e, st):
        from . import calls
        yield from calls.ev_listcomp(self, e, st)

    def ev_GeneratorExp(self, e, st):
        from . import calls
        yield from calls.ev_listcomp(self, e, st)

    # ------------------------------------------------------------------ statements
    def ex_block(self, stmts, st):
        """yield (st, outcome); outcome None = fell through"""
        if not stmts:
            yield st, None
            return
        for st1, out in self.ex(stmts[0], st):
            if out is not None:
                yield st1, out
            else:
                yield from self.ex_block(stmts[1:], st1)

    def ex(self, s, st):
        self.cur_stmt = s
        m = getattr(self, 'ex_' + type(s).__name__, None)
        if m is None:
            raise OutOfSubset('statement %s' % type(s).__name__)
        yield from m(s, st)

    def ex_Pass(self, s, st):
        yield st, None

    def ex_Expr(self, s, st):
        if isinstance(s.value, ast.Constant):
            yield st, None
            return
        for v, st1 in self.ev(s.value, st):
            self.cur_stmt = s
            if isinstance(v, Raised):
                yield st1, ('raise', v.cls)
            else:
                yield st1, None

    def ex_Assign(self, s, st):
        for v, st1 in self.ev(s.value, st):
            self.cur_stmt = s
            if isinstance(v, Raised):
                yield st1, ('raise', v.cls)
                continue
            outs = [(st1, None)]
            for tg in s.targets:
                nxt = []
                for st2, out in outs:
                    if out is not None:
                        nxt.append((st2, out))
                    else:
                        nxt.extend(self.assign(tg, v, st2))
                outs = nxt
            yield from outs

    def ex_AnnAssign(self, s, st):
        if s.value is None:
            yield st, None
            return
        for v, st1 in self.ev(s.value, st):
            if isinstance(v, Raised):
                yield st1, ('raise', v.cls)
            else:
                yield from self.assign(s.target, v, st1)

    def ex_AugAssign(self, s, st):
        load = ast.copy_location(ast.BinOp(left=self._as_load(s.target), op=s.op, right=s.value), s)
        ast.fix_missing_locations(load)
        for v, st1 in self.ev(load, st):
            self.cur_stmt = s
            if isinstance(v, Raised):
                yield st1, ('raise', v.cls)
                continue
            # in-place semantics on arrays/lists: the target object itself is updated
            if isinstance(s.target, ast.Name) and isinstance(st1.env.get(s.target.id), Ref) and isinstance(v, Ref):
                tgt = st1.env[s.target.id]
                if isinstance(st1.heap[tgt.oid], (ArrV, ListV)):
                    old = st1.heap[tgt.oid]
                    self.note_mutation(tgt, st1)
                    new = st1.heap[v.oid]
                    if isinstance(new, ArrV):
                        new = ArrV(new.shape, new.at, new.dtype, old.origin)
                    st1.heap[tgt.oid] = new
                    yield st1, None
                    continue
            yield from self.assign(s.target, v, st1)

    @staticmethod
    def _as_load(t):
        import copy
        t2 = copy.deepcopy(t)
        for n in ast.walk(t2):
            if hasattr(n, 'ctx'):
                n.ctx = ast.Load()
        return t2

    def note_mutation(self, ref, st):
        pass

    def assign(self, tg, v, st):
        """generator of (st, outcome)"""
        if isinstance(tg, ast.Name):
            st.env[tg.id] = v
            yield st, None
        elif isinstance(tg, (ast.Tuple, ast.List)):
            items = self.unpack(v, len(tg.elts), st)
            if items is None:
                yield st, ('raise', 'ValueError')
                return
            outs = [(st, None)]
            for t, x in zip(tg.elts, items):
                nxt = []
                for st2, out in outs:
                    if out is not None:
                        nxt.append((st2, out))
                    else:
                        nxt.extend(self.assign(t, x, st2))
                outs = nxt
            yield from outs
        elif isinstance(tg, ast.Subscript):
            for base, st1 in self.ev(tg.value, st):
                for idx, st2 in self.ev_index(tg.slice, st1):
                    self.setitem(base, idx, v, st2)
                    yield st2, None
        else:
            raise OutOfSubset('assignment target %s' % type(tg).__name__)

    def unpack(self, v, n, st):
        if isinstance(v, tuple):
            if len(v) != n:
                self.oblige('safe', 'unpack-arity', st, False)
                return None
            return list(v)
        if isinstance(v, Ref):
            o = st.heap[v.oid]
            if isinstance(o, ListV):
                if len(o.items) != n:
                    self.oblige('safe', 'unpack-arity', st, False)
                    return None
                return list(o.items)
            if isinstance(o, ArrV):
                self.oblige('safe', 'unpack-arity', st, eq(o.shape[0], n))
                if o.ndim == 1:
                    return [o.at(k) for k in range(n)]
                return [new_ref(st, ArrV(o.shape[1:], lambda *i, k=k, o=o: o.at(k, *i), o.dtype)) for k in range(n)]
        raise OutOfSubset('unpack of %r' % (v,))

    def setitem(self, base, idx, v, st):
        if not isinstance(base, Ref):
            raise OutOfSubset('item assignment on %r' % (base,))
        o = st.heap[base.oid]
        self.note_mutation(base, st)
        if isinstance(o, DictV):
            if not isinstance(idx, (str, int)):
                raise OutOfSubset('symbolic dict key store')
            d = dict(o.items)
            d[idx] = v
            st.heap[base.oid] = DictV(d, o.origin)
            return
        if isinstance(o, (ListV, SymListV)) and isinstance(idx, SliceV):
            # L[lo:hi] = R with len(R) == max(hi - lo, 0) (same-length replacement): cell i of the result is R[i - lo] inside the slice
            if idx.step is not None:
                raise OutOfSubset('slice assignment with a step')
            n = len(o.items) if isinstance(o, ListV) else o.n
            old_at = (lambda i, o=o: self.select(list(o.items), i)) if isinstance(o, ListV) else o.at
            from . import calls as _calls
            rlen = _calls.length(self, v, st)
            lo = 0 if idx.lo is None else idx.lo
            hi = n if idx.hi is None else idx.hi
            for bnd in (lo, hi):
                self.oblige('safe', 'slice-assign-bounds', st, and_(le(0, bnd), le(bnd, n)))      # negative / clipped bounds are outside the subset
            self.oblige('safe', 'slice-assign-same-length', st, eq(rlen, maxv(sub(hi, lo), 0)))
            rv = st.heap[v.oid] if isinstance(v, Ref) else None
            r_at = (lambda i, rv=rv: self.select(list(rv.items), i)) if isinstance(rv, ListV) else rv.at
            elem = o.elem if isinstance(o, SymListV) else (rv.elem if isinstance(rv, SymListV) else 'obj')
            def cell(i, lo=lo, hi=hi):
                inside = and_(le(lo, i), lt(i, hi))
                if isinstance(inside, bool):
                    return r_at(sub(i, lo)) if inside else old_at(i)     # concrete position: only the selected side is read
                return ite(inside, r_at(sub(i, lo)), old_at(i))
            st.heap[base.oid] = SymListV(n, cell, elem, o.origin)
            return
        if isinstance(o, ListV):
            i = self.norm_index(idx, len(o.items), st)
            if not isinstance(i, int):
                items = [ite(eq(i, k), v, x) for k, x in enumerate(o.items)]
            else:
                items = list(o.items)
                items[i] = v
            st.heap[base.oid] = ListV(items, o.origin)
            return
        if isinstance(o, ArrV):
            from . import npmodel
            npmodel.setitem(self, st, base, o, idx, v)
            return
        raise OutOfSubset('item assignment on %s' % type(o).__name__)

    def ex_Return(self, s, st):
        if s.value is None:
            yield st, ('return', None)
            return
        for v, st1 in self.ev(s.value, st):
            if isinstance(v, Raised):
                yield st1, ('raise', v.cls)
            else:
                yield st1, ('return', v)

    def ex_Raise(self, s, st):
        exc = s.exc
        if exc is None:
            yield st, ('raise', st.env.get('__active_exc__', 'Exception'))
            return
        # message arguments are dropped by design (DESIGN 2.1): only the class is kept
        if isinstance(exc, ast.Call):
            name = frontend.dotted(exc.func)
        else:
            name = frontend.dotted(exc)
        if name is None:
            raise OutOfSubset('raise of a computed exception')
        yield st, ('raise', name.split('.')[-1])

    def ex_If(self, s, st):
        for c, st1 in self.ev(s.test, st):
            if isinstance(c, Raised):
                yield st1, ('raise', c.cls)
                continue
            for t, st2 in self.split(st1, self.truth(c, st1)):
                self.refine_none(s.test, t, st2)
                yield from self.ex_block(s.body if t else s.orelse, st2)

    def refine_none(self, test, truth, st):
        """after branching on `x is None` / `x is not None` (possibly inside and/or), rebind x to its plain value / None"""
        if isinstance(test, ast.BoolOp):
            if (isinstance(test.op, ast.And) and truth) or (isinstance(test.op, ast.Or) and not truth):
                for v in test.values:
                    self.refine_none(v, truth, st)
            return
        if isinstance(test, ast.UnaryOp) and isinstance(test.op, ast.Not):
            self.refine_none(test.operand, not truth, st)
            return
        if isinstance(test, ast.Name) and truth and isinstance(st.env.get(test.id), Opt):
            st.env[test.id] = st.env[test.id].val       # `if x:` taken: x is not None
            return
        if isinstance(test, ast.Compare) and len(test.ops) == 1 and isinstance(test.left, ast.Name) and \
                isinstance(test.comparators[0], ast.Constant) and test.comparators[0].value is None:
            v = st.env.get(test.left.id)
            if isinstance(v, Opt):
                is_none = isinstance(test.ops[0], ast.Is) == truth
                st.env[test.left.id] = None if is_none else v.val

    def ex_Assert(self, s, st):
        yield st, None

    def ex_For(self, s, st):
        from . import loops
        yield from loops.ex_for(self, s, st)

    def ex_While(self, s, st):
        from . import loops
        yield from loops.ex_while(self, s, st)

    def ex_Break(self, s, st):
        yield st, ('break',)

    def ex_Continue(self, s, st):
        yield st, ('continue',)

    def ex_Try(self, s, st):
        for st1, out in self.ex_block(s.body, st):
            if out is not None and out[0] == 'raise':
                handled = False
                for h in s.handlers:
                    names = []
                    if h.type is None:
                        names = None
                    elif isinstance(h.type, ast.Tuple):
                        names = [frontend.dotted(x).split('.')[-1] for x in h.type.elts]
                    else:
                        names = [frontend.dotted(h.type).split('.')[-1]]
                    if names is None or out[1] in names or 'Exception' in names:
                        handled = True
                        st1.env['__active_exc__'] = out[1]
                        if h.name:
                            st1.env[h.name] = Obj('exc', out[1])
                        yield from self.ex_block(h.body, st1)
                        break
                if not handled:
                    yield st1, out
            elif out is None and s.orelse:
                yield from self.ex_block(s.orelse, st1)
            else:
                yield st1, out
        if s.finalbody:
            raise OutOfSubset('try/finally')

    def ex_FunctionDef(self, s, st):
        st.env[s.name] = FnV('nested', s.name, s, None)
        yield st, None

    def ex_Import(self, s, st):
        yield st, None

    def ex_ImportFrom(self, s, st):
        yield st, None

    # ------------------------------------------------------------------ running a body
    def run_body(self, body, st):
        """all complete paths of a function body: list of (st, outcome)"""
        outs = []
        for st1, out in self.ex_block(body, st):
            self.n_paths += 1
            if self.n_paths > self.max_paths:
                raise OutOfSubset('more than %d paths' % self.max_paths)
            if out is None:
                out = ('return', None)
            outs.append((st1, out))
        return outs


class SliceV:
    __slots__ = ('lo', 'hi', 'step')

    def __init__(self, lo, hi, step=None):
        self.lo, self.hi, self.step = lo, hi, step


class _Special:
    def __init__(self, name):
        self.name = name

    def __repr__(self):
        return self.name


NAN = _Special('nan')
INF = _Special('inf')

BUILTINS = {'len', 'float', 'int', 'bool', 'min', 'max', 'abs', 'range', 'enumerate', 'zip', 'isinstance', 'sorted',
            'list', 'tuple', 'str', 'sum', 'all', 'any', 'round', 'set', 'dict', 'print', 'reversed', 'map'}
