"""Symbolic value domain shared by the executor, the NumPy model and the contract evaluator.

Scalars are either plain Python values (concrete mode / literals) or z3 terms of
sort Int / Real / Bool.  All helpers constant-fold on Python values so that the
*same* interpreter runs symbolically (VC generation) and concretely (translation
cross-check against CPython, native evaluation of contract clauses in replay).

Assumptions made here (see DESIGN.md 2.2): A1 floats are mathematical reals,
A2 ints are mathematical integers.
"""
import fractions
import itertools
import math

import z3

_counter = itertools.count()


def fresh_name(prefix):
    return '%s!%d' % (prefix, next(_counter))


def is_z3(v):
    return isinstance(v, z3.ExprRef)


def is_sym(v):
    return isinstance(v, z3.ExprRef)


def is_bool_like(v):
    return isinstance(v, (bool,)) or isinstance(v, z3.BoolRef)


def is_int_like(v):
    if isinstance(v, bool):
        return True
    if isinstance(v, int):
        return True
    return is_z3(v) and (z3.is_int(v) or z3.is_bool(v))


class Opt:
    """A value that may be None: `isnone` is a Bool (python or z3); `val` is meaningful iff not isnone."""
    __slots__ = ('isnone', 'val')

    def __init__(self, isnone, val):
        self.isnone, self.val = isnone, val

    def __repr__(self):
        return 'Opt(%r,%r)' % (self.isnone, self.val)


class Raised:
    """Marker: evaluation of an expression raised exception class `cls` on this path."""
    __slots__ = ('cls',)

    def __init__(self, cls):
        self.cls = cls

    def __repr__(self):
        return 'Raised(%s)' % self.cls


class Ref:
    """Reference to a heap object (list, array, dict)"""
    __slots__ = ('oid',)

    def __init__(self, oid):
        self.oid = oid

    def __repr__(self):
        return 'Ref(%d)' % self.oid


class ArrV:
    """immutable snapshot of an ndarray: shape = tuple of int terms, at(*idx) -> element"""
    __slots__ = ('shape', 'at', 'dtype', 'origin', 'cols', 'blocks')

    def __init__(self, shape, at, dtype='real', origin='fresh'):
        self.shape = tuple(shape)
        self.at = at
        self.dtype = dtype
        self.origin = origin

    @property
    def ndim(self):
        return len(self.shape)

    def concrete_len(self):
        return isinstance(self.shape[0], int)

    def with_at(self, at):
        return ArrV(self.shape, at, self.dtype, 'fresh')


class ListV:
    """immutable snapshot of a Python list with a concrete number of items"""
    __slots__ = ('items', 'origin')

    def __init__(self, items, origin='fresh'):
        self.items = tuple(items)
        self.origin = origin


class SymListV:
    """list of symbolic length: n (Int term) and at(i)"""
    __slots__ = ('n', 'at', 'origin', 'elem')

    def __init__(self, n, at, elem='obj', origin='fresh'):
        self.n, self.at, self.elem, self.origin = n, at, elem, origin


class DictV:
    __slots__ = ('items', 'origin')

    def __init__(self, items, origin='fresh'):
        self.items = dict(items)
        self.origin = origin


class FnV:
    """a function value: kind in {'repo','lib','nested','lambda','spec'}"""
    __slots__ = ('kind', 'name', 'node', 'env')

    def __init__(self, kind, name, node=None, env=None):
        self.kind, self.name, self.node, self.env = kind, name, node, env

    def __repr__(self):
        return 'FnV(%s,%s)' % (self.kind, self.name)


class Obj:
    """opaque concrete object (exception instances, modules ...)"""

    def __init__(self, tag, payload=None):
        self.tag, self.payload = tag, payload

    def __repr__(self):
        return 'Obj(%s)' % self.tag


# ----------------------------------------------------------------------------- scalar helpers

def to_z3(v):
    if is_z3(v):
        return v
    if isinstance(v, bool):
        return z3.BoolVal(v)
    if isinstance(v, int):
        return z3.IntVal(v)
    if isinstance(v, float):
        if math.isnan(v) or math.isinf(v):
            raise ValueError('nan/inf literal has no real rendering')
        return z3.RealVal(repr(v))
    if isinstance(v, fractions.Fraction):
        return z3.RealVal(str(v))
    raise TypeError('no z3 rendering for %r' % (v,))


def to_bool(v):
    """python truthiness of a scalar"""
    if isinstance(v, bool):
        return v
    if isinstance(v, z3.BoolRef):
        return v
    if is_z3(v):
        return v != 0
    if v is None:
        return False
    if isinstance(v, (int, float, fractions.Fraction)):
        return v != 0
    if isinstance(v, str):
        return len(v) > 0
    if isinstance(v, Opt):
        return and_(not_(v.isnone), to_bool(v.val))
    if isinstance(v, (tuple, list)):
        return len(v) > 0
    raise TypeError('truthiness of %r' % (v,))


def to_num(v):
    """numeric view of a scalar (bool -> 0/1)"""
    if isinstance(v, bool):
        return 1 if v else 0
    if isinstance(v, z3.BoolRef):
        return z3.If(v, z3.IntVal(1), z3.IntVal(0))
    return v


def not_(a):
    if isinstance(a, bool):
        return not a
    return z3.Not(a)


def and_(*xs):
    out = []
    for x in xs:
        if isinstance(x, bool):
            if not x:
                return False
        else:
            out.append(x)
    if not out:
        return True
    return out[0] if len(out) == 1 else z3.And(*out)


def or_(*xs):
    out = []
    for x in xs:
        if isinstance(x, bool):
            if x:
                return True
        else:
            out.append(x)
    if not out:
        return False
    return out[0] if len(out) == 1 else z3.Or(*out)


def implies(a, b):
    return or_(not_(a), b)


def ite(c, a, b):
    if isinstance(c, bool):
        return a if c else b
    if a is b:
        return a
    if not is_z3(a) and not is_z3(b):
        if isinstance(a, (int, float, bool)) and isinstance(b, (int, float, bool)) and a == b and type(a) is type(b):
            return a
    a3, b3 = to_z3(to_num(a) if not is_bool_like(a) or not is_bool_like(b) else a), \
        to_z3(to_num(b) if not is_bool_like(a) or not is_bool_like(b) else b)
    if z3.is_int(a3) and z3.is_real(b3):
        a3 = z3.ToReal(a3)
    if z3.is_real(a3) and z3.is_int(b3):
        b3 = z3.ToReal(b3)
    return z3.If(c, a3, b3)


def is_real_like(v):
    return isinstance(v, float) or isinstance(v, fractions.Fraction) or (is_z3(v) and z3.is_real(v))


def _num2(a, b):
    a, b = to_num(a), to_num(b)
    if is_z3(a) or is_z3(b):
        a, b = to_z3(a), to_z3(b)
        if z3.is_int(a) and z3.is_real(b):
            a = z3.ToReal(a)
        elif z3.is_real(a) and z3.is_int(b):
            b = z3.ToReal(b)
    return a, b


def add(a, b):
    a, b = _num2(a, b)
    return a + b


def sub(a, b):
    a, b = _num2(a, b)
    return a - b


def _is_num_ite(t):
    return is_z3(t) and z3.is_app_of(t, z3.Z3_OP_ITE) and all(z3.is_int_value(x) or z3.is_rational_value(x) for x in t.children()[1:])


def mul(a, b):
    a, b = _num2(a, b)
    # keep products of 0/1 indicator terms linear: If(c, k1, k2) * t  ==  If(c, k1*t, k2*t)
    if _is_num_ite(a):
        c, x, y = a.children()
        return z3.If(c, mul(x, b), mul(y, b))
    if _is_num_ite(b):
        c, x, y = b.children()
        return z3.If(c, mul(a, x), mul(a, y))
    if is_z3(a) and is_z3(b):
        if z3.is_int_value(a) or z3.is_rational_value(a) or z3.is_int_value(b) or z3.is_rational_value(b):
            return z3.simplify(a * b)
    return a * b


def neg(a):
    a = to_num(a)
    return -a


def truediv(a, b):
    """true division; caller is responsible for the divisor != 0 obligation"""
    a, b = _num2(a, b)
    if is_z3(a):
        if z3.is_int(a):
            a = z3.ToReal(a)
        if z3.is_int(b):
            b = z3.ToReal(b)
        return a / b
    if b == 0:
        # total-function semantics of the specification language: x / 0 is an unspecified real (the executor itself
        # never gets here: every division first records a `safe:div` obligation and assumes the divisor non-zero)
        return z3.RealVal(str(fractions.Fraction(a))) / z3.RealVal(0)
    if isinstance(a, int) and isinstance(b, int):
        return fractions.Fraction(a, b) if a % b else a // b * 1.0
    return a / b


def floordiv(a, b):
    a, b = _num2(a, b)
    if is_z3(a):
        if z3.is_int(a) and z3.is_int(b):
            # python floor division; z3 `/` on ints is Euclidean: equal for b > 0
            return z3.If(b > 0, a / b, z3.If(a % b == 0, a / b, a / b - 1))
        q = a / b
        return z3.ToReal(z3.ToInt(q))
    return a // b


def mod(a, b):
    a, b = _num2(a, b)
    if is_z3(a):
        if z3.is_int(a) and z3.is_int(b):
            # python: result has the sign of b ; z3: result in [0,|b|).  Equal for b > 0.
            r = a % b
            return z3.If(b > 0, r, z3.If(r == 0, r, r + b))
        q = a / b
        return a - b * z3.ToReal(z3.ToInt(q))      # floor for real q: ToInt is floor in z3
    return a % b


def _is_nan(x):
    return type(x).__name__ == '_Special' and getattr(x, 'name', '') == 'nan'


def lt(a, b):
    if _is_nan(a) or _is_nan(b):
        return False            # every ordered comparison with nan is false
    a, b = _num2(a, b)
    return a < b


def le(a, b):
    if _is_nan(a) or _is_nan(b):
        return False
    a, b = _num2(a, b)
    return a <= b


def eq(a, b):
    if _is_nan(a) or _is_nan(b):
        return False            # nan == x is false for every x (including nan)
    if a is None or b is None:
        if isinstance(a, Opt):
            return a.isnone
        if isinstance(b, Opt):
            return b.isnone
        return a is b
    if isinstance(a, Opt) or isinstance(b, Opt):
        ao = a if isinstance(a, Opt) else Opt(False, a)
        bo = b if isinstance(b, Opt) else Opt(False, b)
        return or_(and_(ao.isnone, bo.isnone), and_(not_(ao.isnone), not_(bo.isnone), eq(ao.val, bo.val)))
    if isinstance(a, str) or isinstance(b, str):
        if isinstance(a, str) and isinstance(b, str):
            return a == b
        if is_z3(a) and isinstance(b, str):
            return a == enum_const(a.sort(), b) if enum_has(a.sort(), b) else False
        if is_z3(b) and isinstance(a, str):
            return b == enum_const(b.sort(), a) if enum_has(b.sort(), a) else False
        return False
    if isinstance(a, tuple) and isinstance(b, tuple):
        if len(a) != len(b):
            return False
        return and_(*[eq(x, y) for x, y in zip(a, b)])
    if is_bool_like(a) and is_bool_like(b):
        if isinstance(a, bool) and isinstance(b, bool):
            return a == b
        return to_z3(a) == to_z3(b)
    a, b = _num2(a, b)
    if isinstance(a, float) or isinstance(b, float):
        if not is_z3(a) and not is_z3(b):
            # concrete replay compares floats "to 1e-9" (the symbolic side is exact, A1)
            return math.isclose(a, b, rel_tol=1e-9, abs_tol=1e-9)
    if is_z3(a) and is_z3(b) and a.sort() != b.sort() and not (z3.is_arith(a) and z3.is_arith(b)):
        return False          # an object (text, label) is never equal to a number: different kinds of value
    return a == b


def ne(a, b):
    return not_(eq(a, b))


def absv(a):
    a = to_num(a)
    if is_z3(a):
        return z3.If(a >= 0, a, -a)
    return abs(a)


def minv(a, b):
    return ite(le(a, b), a, b)


def maxv(a, b):
    return ite(le(a, b), b, a)


def to_real(a):
    a = to_num(a)
    if is_z3(a):
        return z3.ToReal(a) if z3.is_int(a) else a
    if isinstance(a, int):
        return float(a)
    return a


def floor_(a):
    a = to_num(a)
    if is_z3(a):
        return z3.ToInt(a) if z3.is_real(a) else a
    return math.floor(a)


def ceil_(a):
    a = to_num(a)
    if is_z3(a):
        if z3.is_int(a):
            return a
        return -z3.ToInt(-a)
    return math.ceil(a)


# ----------------------------------------------------------------------------- enum sorts (finite string domains)
_enums = {}


def enum_sort(name, members):
    key = (name, tuple(members))
    if key not in _enums:
        sort, consts = z3.EnumSort(name, list(members))
        _enums[key] = (sort, dict(zip(members, consts)))
    return _enums[key]


def enum_has(sort, s):
    for (n, members), (srt, consts) in _enums.items():
        if srt == sort:
            return s in consts
    return False


def enum_const(sort, s):
    for (n, members), (srt, consts) in _enums.items():
        if srt == sort:
            return consts[s]
    raise KeyError(s)


def enum_members(sort):
    for (n, members), (srt, consts) in _enums.items():
        if srt == sort:
            return members
    return None


def simplify(v):
    if is_z3(v):
        return z3.simplify(v)
    return v


def concrete(v):
    """python value of a z3 numeral / bool literal, else None"""
    if not is_z3(v):
        return v
    v = z3.simplify(v)
    if z3.is_true(v):
        return True
    if z3.is_false(v):
        return False
    if z3.is_int_value(v):
        return v.as_long()
    if z3.is_rational_value(v):
        return fractions.Fraction(v.numerator_as_long(), v.denominator_as_long())
    return None
