#!/bin/bash
# Build /verif/.venv offline: python 3.12 venv on top of /venv's site-packages (numpy, scipy, mir_eval deps)
# plus z3-solver / cvc5 / jsonschema from the offline wheelhouse.  Idempotent.
set -e
cd "$(dirname "$0")"
V=.venv
if [ -x $V/bin/python ] && $V/bin/python -c "import z3, numpy, jsonschema" 2>/dev/null; then
  exit 0
fi
rm -rf $V
/venv/bin/python -m venv $V
SP=$($V/bin/python -c "import site; print(site.getsitepackages()[0])")
echo "import site; site.addsitedir('/venv/lib/python3.12/site-packages')" > "$SP/_base.pth"
PIP_NO_INDEX=1 $V/bin/pip install -q --no-index --find-links /opt/veriftools/wheels z3-solver cvc5 jsonschema >/dev/null
$V/bin/python -c "import z3, numpy, jsonschema; print('pyvc venv ok: z3', z3.get_version_string(), 'numpy', numpy.__version__)"
