#!/usr/bin/env python3
"""Regenerates MANIFEST.json from pyvc/props.py (single source of truth for what is claimed)."""
import json, os, sys
HERE = os.path.dirname(os.path.dirname(os.path.abspath(__file__)))
sys.path.insert(0, HERE)
from pyvc import props

all_ids = [json.loads(l)['id'] for l in open(os.path.join(HERE, 'properties.jsonl'))]
checks = []
for pid in all_ids:
    plan = props.PLAN.get(pid)
    if not plan:
        continue
    checks.append(dict(
        property_id=pid,
        quick_cmd='./check %s --tier quick' % pid,
        thorough_cmd='./check %s --tier thorough' % pid,
        evidence_file='evidence/%s.json' % pid,
        replay_cmd_template='./check --replay {path}',
        engine='pyvc',
        level_claimed=dict(category=plan['level'], text=plan.get('claim', ''), design_ref=plan.get('design_ref', 'DESIGN.md §4 ' + pid)),
        level_note=plan.get('note', ''),
        technique=plan.get('technique', 'contract-based deductive verification: VCs generated from the real AST against sidecar contracts, discharged by z3/cvc5'),
    ))
na = [dict(property_id=pid, reason=props.NOT_APPLICABLE.get(pid, 'no check delivered yet for this property')) for pid in all_ids if pid not in props.PLAN]
man = dict(
    version=1,
    setup_cmd='./setup.sh',
    hooks=dict(guard='MIR_EVAL_VERIF', enable='no source hooks exist: contracts are sidecar files under /verif/contracts, VCs are generated from the AST of /repo/mir_eval/*.py, replay imports the unmodified package; the guard variable is set by ./check but read by nothing in /repo',
               baseline_off_cmd='./baseline_off.sh', source_commits=[], add_only=True),
    engines=[dict(name='pyvc', path='pyvc/', serves_properties=[c['property_id'] for c in checks],
                  kind_free_text='self-built VC generator (Python AST -> SMT) + sidecar contracts + z3/cvc5; plug-in engines E3 (frames), E4 (evaluate bundles), regex; bounded stand-ins labelled as such')],
    checks=checks,
    notes=props.NOTES,
    not_applicable=na,
)
json.dump(man, open(os.path.join(HERE, 'MANIFEST.json'), 'w'), indent=1)
print('MANIFEST.json: %d checks, %d not applicable' % (len(checks), len(na)))
