#!/usr/bin/env python3
"""Confirm a seeded change (patch.diff + demo.py) in a scratch worktree and run the registered checks on it.

usage: tools/seed.py confirm <dir> [--tests]      demo passes without / fails with the change; optionally the 66 baseline tests still pass
       tools/seed.py check <dir> <Cxx> [<Cyy> ..] run ./check on a scratch copy with the change applied
"""
import json, os, shutil, subprocess, sys, tempfile

HERE = os.path.dirname(os.path.dirname(os.path.abspath(__file__)))


def sh(cmd, **kw):
    return subprocess.run(cmd, shell=True, capture_output=True, text=True, **kw)


def worktree(patch):
    d = tempfile.mkdtemp(prefix='pyvc-seed-', dir='/tmp')
    os.rmdir(d)
    r = sh('git -C /repo worktree add -q --detach %s HEAD' % d)
    assert r.returncode == 0, r.stderr
    if patch:
        r = sh('git -C %s apply %s' % (d, patch))
        assert r.returncode == 0, 'patch does not apply: ' + r.stderr
    return d


def drop(d):
    sh('git -C /repo worktree remove --force %s' % d)
    shutil.rmtree(d, ignore_errors=True)


def demo(d, script):
    r = sh('cd %s && PYTHONPATH=%s OMP_NUM_THREADS=1 timeout 900 /venv/bin/python %s' % (d, d, script))
    return r.returncode, (r.stdout + r.stderr)[-600:]


def baseline(d):
    r = sh('cd %s && PYTHONPATH=%s timeout 1500 /venv/bin/python -m pytest -q -p no:cacheprovider --timeout=900 --continue-on-collection-errors --junitxml=%s/_junit.xml >/dev/null 2>&1; '
           '/venv/bin/python - <<PY\nimport json, xml.etree.ElementTree as ET\nbase=set(json.load(open("/root/.vp/BASELINE.json"))["stable_pass"])\np=set()\n'
           'for tc in ET.parse("%s/_junit.xml").getroot().iter("testcase"):\n    if not any(ch.tag in ("failure","error","skipped") for ch in tc): p.add("%%s::%%s"%%(tc.get("classname"),tc.get("name")))\n'
           'print(len(base&p), len(base))\nPY' % (d, d, d, d))
    return r.stdout.strip()


def main():
    cmd, mdir = sys.argv[1], os.path.abspath(sys.argv[2])
    patch = os.path.join(mdir, 'patch.diff')
    script = os.path.join(mdir, 'demo.py')
    if cmd == 'confirm':
        clean = worktree(None)
        try:
            rc0, out0 = demo(clean, script)
        finally:
            drop(clean)
        mut = worktree(patch)
        try:
            rc1, out1 = demo(mut, script)
            tests = baseline(mut) if '--tests' in sys.argv else 'not run'
        finally:
            drop(mut)
        print(json.dumps(dict(dir=mdir, demo_clean_rc=rc0, demo_mutated_rc=rc1, baseline_tests=tests, mutated_tail=out1[-300:]), indent=1))
        return 0 if (rc0 == 0 and rc1 != 0) else 1
    if cmd == 'check':
        d = tempfile.mkdtemp(prefix='pyvc-scr-', dir='/tmp')
        try:
            shutil.copytree('/repo/mir_eval', os.path.join(d, 'mir_eval'))
            r = sh('cd %s && patch -p1 -s < %s' % (d, patch))
            assert r.returncode == 0, r.stdout + r.stderr
            for prop in sys.argv[3:]:
                r = sh('cd %s && PYVC_REPO=%s PYVC_EVIDENCE_DIR=%s/evidence ./check %s' % (HERE, d, d, prop))
                lines = [l for l in r.stdout.split('\n') if l.startswith(('VIOLATION', 'UNDECIDED', 'property', 'KNOWN', 'CHECKER'))]
                print('%s exit=%d' % (prop, r.returncode))
                for l in lines[:8]:
                    print('   ', l[:260])
        finally:
            shutil.rmtree(d, ignore_errors=True)
        return 0


if __name__ == '__main__':
    sys.exit(main())
