#!/usr/bin/env python3
"""Confirm every seeded change under seeded/_incoming (or seeded/<id>) and record which registered checks detect it.
Writes seeded/<id>/meta.json.  usage: tools/seed_all.py [ids...]"""
import json, os, re, shutil, subprocess, sys, tempfile, time
HERE = os.path.dirname(os.path.dirname(os.path.abspath(__file__)))
sys.path.insert(0, os.path.join(HERE, 'tools'))
import seed as S

RELATED = {'C01': ['C01', 'C16', 'C04'], 'C02': ['C02', 'C04'], 'C03': ['C03', 'C15'], 'C04': ['C04', 'C05', 'C08'], 'C05': ['C05'], 'C06': ['C06', 'C16'],
           'C07': ['C07', 'C05'], 'C08': ['C08', 'C05'], 'C09': ['C09'], 'C10': ['C10'], 'C11': ['C11'], 'C12': ['C12'], 'C13': ['C13'], 'C14': ['C14', 'C12'],
           'C15': ['C15'], 'C16': ['C16'], 'C17': ['C17', 'C03'], 'C18': ['C18'], 'C19': ['C19'], 'C20': ['C20']}


def main():
    inc = os.path.join(HERE, 'seeded', '_incoming')
    ids = sys.argv[1:] or sorted(os.listdir(inc))
    for mid in ids:
        src = os.path.join(inc, mid) if os.path.isdir(os.path.join(inc, mid)) else os.path.join(HERE, 'seeded', mid)
        dst = os.path.join(HERE, 'seeded', mid)
        prop = mid.split('_')[0]
        patch = os.path.join(src, 'patch.diff')
        meta = dict(id=mid, property=prop, confirmed_at=time.strftime('%Y-%m-%dT%H:%M:%SZ', time.gmtime()))
        try:
            clean = S.worktree(None)
            try:
                rc0, out0 = S.demo(clean, os.path.join(src, 'demo.py'))
            finally:
                S.drop(clean)
            mut = S.worktree(patch)
            try:
                rc1, out1 = S.demo(mut, os.path.join(src, 'demo.py'))
                tests = S.baseline(mut)
            finally:
                S.drop(mut)
            meta.update(demo_on_clean_tree_exit=rc0, demo_with_change_exit=rc1, baseline_tests=tests, demo_with_change_tail=out1[-300:])
        except AssertionError as ex:
            meta.update(error='patch does not apply to the current /repo HEAD: %s' % str(ex)[:200])
        notes = os.path.join(src, 'notes.txt')
        if os.path.exists(notes):
            txt = open(notes).read()
            meta['needs_to_manifest'] = txt[:1200]
        detected = {}
        if 'error' not in meta:
            d = tempfile.mkdtemp(prefix='pyvc-scr-', dir='/tmp')
            try:
                shutil.copytree('/repo/mir_eval', os.path.join(d, 'mir_eval'))
                r = S.sh('cd %s && patch -p1 -s < %s' % (d, patch))
                for p in RELATED.get(prop, [prop]):
                    r = S.sh('cd %s && PYVC_REPO=%s PYVC_EVIDENCE_DIR=%s/evidence ./check %s' % (HERE, d, d, p))
                    viol = [l for l in r.stdout.split('\n') if l.startswith('VIOLATION')]
                    detected[p] = dict(exit=r.returncode, violations=[re.sub(r'replay=\S*/replays/', 'replay=', v)[:200] for v in viol[:4]])
            finally:
                shutil.rmtree(d, ignore_errors=True)
        meta['checks_run'] = detected
        meta['detected_by'] = sorted(p for p, v in detected.items() if v['exit'] == 1)
        meta['ran'] = 'tools/seed_all.py %s (demo.py on a clean worktree and on a worktree with patch.diff applied; the pinned 66-test baseline on the patched worktree; ./check <prop> with PYVC_REPO pointing at a patched scratch copy)' % mid
        if src != dst:
            if os.path.exists(dst):
                shutil.rmtree(dst)
            shutil.move(src, dst)
        json.dump(meta, open(os.path.join(dst, 'meta.json'), 'w'), indent=1)
        print(mid, 'clean', meta.get('demo_on_clean_tree_exit'), 'mut', meta.get('demo_with_change_exit'), 'tests', meta.get('baseline_tests'), 'detected_by', meta['detected_by'], meta.get('error', ''), flush=True)


if __name__ == '__main__':
    main()
