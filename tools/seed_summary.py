#!/usr/bin/env python3
"""Writes seeded/SUMMARY.md from seeded/*/meta.json"""
import json, os, glob
HERE = os.path.dirname(os.path.dirname(os.path.abspath(__file__)))
rows = []
for m in sorted(glob.glob(os.path.join(HERE, 'seeded', 'C*', 'meta.json'))):
    d = json.load(open(m))
    first = ''
    notes = os.path.join(os.path.dirname(m), 'notes.txt')
    patch = open(os.path.join(os.path.dirname(m), 'patch.diff')).read()
    files = sorted({l[6:] for l in patch.split('\n') if l.startswith('+++ b/')})
    viol = []
    for p, v in (d.get('checks_run') or {}).items():
        for x in v.get('violations', []):
            viol.append('%s: %s' % (p, x.split('replay=')[-1].replace('.json', '')))
    rows.append((d['id'], d['property'], ', '.join(files), d.get('demo_on_clean_tree_exit'), d.get('demo_with_change_exit'), d.get('baseline_tests'),
                 ', '.join(d.get('detected_by', [])) or '**none**', '; '.join(viol[:3])))
with open(os.path.join(HERE, 'seeded', 'SUMMARY.md'), 'w') as f:
    f.write('# Seeded changes\n\nEach change was written by an independent sub-agent that saw only the property text and a scratch worktree.\n'
            'Confirmed by `tools/seed_all.py`: `demo.py` exits 0 on a clean worktree and non-zero with `patch.diff` applied, and the pinned 66-test baseline still passes with the change.\n'
            '`detected by` = registered checks that exit 1 on a scratch copy with the change (`PYVC_REPO`).\n\n')
    f.write('| id | property | file | demo clean / changed | baseline | detected by | failed obligations (first) |\n|---|---|---|---|---|---|---|\n')
    for r in rows:
        f.write('| %s | %s | %s | %s / %s | %s | %s | %s |\n' % (r[0], r[1], r[2], r[3], r[4], r[5], r[6], r[7][:160]))
print('%d seeded changes, %d detected' % (len(rows), sum(1 for r in rows if r[6] != '**none**')))
