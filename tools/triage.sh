#!/bin/bash
# usage: tools/triage.sh seeded/_incoming/Cxx_k ...   (own-property quick check on a scratch copy of /repo/mir_eval with the change applied)
# quick triage: own-property check on a scratch copy with the change applied
cd /verif
for d in "$@"; do
  id=$(basename $d); p=${id%%_*}
  s=$(mktemp -d /tmp/pyvc-tri-XXXX)
  cp -r /repo/mir_eval $s/mir_eval
  (cd $s && patch -p1 -s < /verif/$d/patch.diff) || { echo "$id PATCH-FAIL"; rm -rf $s; continue; }
  out=$(PYVC_REPO=$s PYVC_EVIDENCE_DIR=$s/evidence timeout 1500 ./check $p 2>&1)
  rc=$?
  echo "$id rc=$rc $(echo "$out" | grep -E '^VIOLATION|^UNDEC|^CHECKER' | head -3 | cut -c1-160 | tr '\n' '|')"
  rm -rf $s
done
